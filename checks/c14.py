"""C14 — every set cursor enumerates its set exactly, in order, and seeks correctly."""
import collections
import os
import subprocess

from . import common

MODULE = "StorageModel.Properties.C14"
THEOREMS = ["next_seek_mix", "enumerates", "exhausted_invalid", "empty_invalid_no_panic", "untagged",
            "untagged_setsym", "seek_forward", "seek_reverse", "seek_setsym", "union_exact", "filtered_exact",
            "tree_inorder", "slice_exact", "list_is_ordered_set", "allOf_exact", "anyOf_exact", "stacked_exact",
            "reopen_setsym", "reopen_empty_invalid", "reopen_stacked", "reopen_subquery_setsym",
            "reopen_subquery_stacked", "scan_fallback_seek", "reopen_subquery_paged",
            "interleaved_cursors_independent",
            "write_script_setsym", "reopen_after_write_enumerates_current", "seek_after_reopen_after_write",
            "reseek_after_keywrite_setsym", "write_script_bolt", "reopen_after_write_any", "reopen_after_write_stacked",
            "reopen_after_write_subquery_paged", "write_script_subquery_setsym", "write_script_idcursor",
            "idcursor_seek_after_write", "reopen_after_update", "reopen_after_delete"]

RULE = ("random cursor descriptions (every cursor constructor / provider of the library: raw and typed bolt "
        "cursors forward and reverse through TypedBucket, set index key/value cursors, related-entity, link and "
        "ref-counted link cursors, the set-symbol cursor, IterateIds / IterateValidIds on plain, child and "
        "extended stores, IteratorMatchingAllOf/AnyOf, empty, tree, filtered and union cursors nested to depth 2) "
        "over sets of 0-7 elements from {'' a aa ab b \\x00 \\xff a\\x00 \\x05 \\x05a c}, each driven with the "
        "full Next-enumeration and random Next/Seek/SeekToString scripts of length <= 6 (seek targets: the "
        "universe plus values before, between and after), every script both inside the writing transaction and in "
        "a read transaction over the committed data; plus bounded-exhaustive blocks (all scripts up to a length "
        "over all subsets of a small universe, compared by digest and expanded on a mismatch); plus RE-USED cursor "
        "objects (R cases): one runtime set symbol (tags / link ids / ref-counted link ids, rows without bucket, "
        "with an empty bucket, missing entities), one composite set symbol (others.tags, others.name, boss.tags, "
        "others.things.tags, others.things), the row cursor of one scan (OpenSetCursor and the sub-query scanner of "
        "OpenSetCursorForQuery, incl. its Seek over a set symbol and the forward-only fallback over a composite "
        "symbol) and per-call providers (GetRelatedEntitiesCursor, IterateLinks) opened again and again on the rows of "
        "one store in sequences of 2-5 segments `open row; ops` (random worlds, and on a fixed world every "
        "two-segment script with <= 2 and <= 1 operations per segment over every pair of rows); plus the LONG-KEY family: "
        "for each length n in 62 63 64 65 127 128 255 256 1000 4096 a family around a common prefix P of n-1 bytes (P, a "
        "shorter prefix, the siblings P+a P+b P+d, the extensions P+b\\x00 P+bz, short elements) as elements / ids / "
        "roles of every cursor kind, driven with seek-heavy scripts whose targets are the family, absent neighbours, "
        "truncations of the long targets at 62..256 bytes and short strings in turn, and as rows of the re-used runtime "
        "symbol (long and short seeks alternating across rows); plus M cases: 2-3 cursors ALIVE AT ONCE opened from one "
        "*TypedBucket value (IterateStringList, IterateStringListInDirection, OpenTypedCursor, OpenSeekableCursor, OpenCursor, "
        "both directions), one link / ref-counted link collection, one store and entity (GetRelatedEntitiesCursor, runtime "
        "set symbols, IterateIds) in one transaction and driven by interleaved scripts (lock step, and random alternation of "
        "Next / Seek / SeekToString, <= 8 steps; every ordered pair of bucket-level openers); plus W cases: one cursor object "
        "RE-OPENED / RE-SOUGHT AFTER THE SET UNDER IT WAS REWRITTEN inside one write transaction — scripts of 2-5 items "
        "`writes; entry; operations` on a real store pair, writes = things.Update (all fields / only the tags list: the list "
        "bucket is deleted and re-created), single keys put into / deleted from the tags bucket, the set symbol's Map, "
        "links.AddLinks/RemoveLinks, rcLinks.Increment/DecrementLinkCount, DeleteById, Create, others.Update; entry = open "
        "on a row (mostly the SAME row as before, no other row in between; other rows as control) or Seek / SeekToString "
        "on the object as it stands (only where the bucket object survived the writes); objects: one runtime set symbol "
        "(tags / others / rcOthers, direct and through the row cursor of a scan), composite symbols, the sub-query scanner "
        "(unpaged with Seek, paged), per-call providers (GetRelatedEntitiesCursor, IterateLinks, ref-counted IterateLinks and "
        "all eight cursor providers of the row's TypedBucket), and the id cursor IterateIds with the parsed filters "
        "anyOf(tags) = T / not (…) / isEmpty(tags) / count(tags) >= N / anyOf(others) = O / true (rows whose verdict "
        "changes, ids created and deleted, Seek back to the row the cursor stands on); random worlds and, on a fixed world, "
        "every `open row; <= 1 op; ONE write out of 25 covering every write path; open same / other row or re-seek; <= 1 op` "
        "for each of the 42 object kinds; each script runs with the fixture written in the same transaction and over the "
        "committed fixture; non-trivial = the "
        "script has at least one operation and the cursor is valid at some point; distinct = (description, script)")


def _spec_norm(impl):
    # the spec returns elements; cursors that read through GetTypeAndValue return nil for the empty element
    return " ".join("v-" if t == "vnil" else t for t in impl.split(" "))


def _desc_kinds(desc):
    return [t for t in desc.split(";") if t in ("fwd", "rev", "tfwd", "trev", "setsym", "setsymnone", "empty", "tree",
                                                 "filt", "union", "scan", "valid", "allof", "anyof", "slice", "stacked")]


def _shape(case):
    f = case.split(" ")
    toks = f[0].split(";") if f[0] != "X" else f[1].split(";")
    if toks[0] == "R":
        return "reuse:" + toks[1] + ":" + toks[2]
    if toks[0] == "W":
        # an id cursor's PATH is its filter (`any.<T>`): the histogram keeps the filter form
        return "write:" + toks[1].split(".")[0] + ":" + (toks[2].split(".")[0] if toks[1] == "i" else toks[2])
    if toks[0] == "M":
        return "multi:" + toks[1].replace(",", "&")
    if toks[0] == "stacked":
        return "stacked:" + toks[1]
    kinds = _desc_kinds(";".join(toks))
    via = [t for t in toks if t in ("seekable", "open", "newdir", "new", "list", "dir", "typed", "rel", "val", "key",
                                    "link", "rclink", "ids", "cids", "xids", "var")]
    return "+".join(kinds) + ("/" + "+".join(via) if via else "")


def nontrivial(case, impl):
    f = case.split(" ")
    if f[0] == "X":
        return ("X", case)
    if len(f) == 2 and f[0].startswith("M;"):
        # at least two different cursors are operated and something is valid
        if len({t[0] for t in f[1].split(",") if t != "_"}) > 1 and any(t.startswith("v") for t in impl.split(" ")):
            return case
        return None
    if len(f) == 2 and f[0].startswith("W;"):
        # something is written between two entries and the cursor is valid at some point
        if ">" in f[1] and f[1].count("/") >= 1 and any(t.startswith("v") for t in impl.split(" ")):
            return case
        return None
    if len(f) == 2 and f[0].startswith("R;"):
        segs = f[1].split("/")
        if len(segs) > 1 and any(not sg.endswith(":_") for sg in segs) and any(t.startswith("v") for t in impl.split(" ")):
            return case
        return None
    if len(f) == 2 and f[1] != "_" and any(t.startswith("v") for t in impl.split(" ")):
        return case
    return None


def describe(case, impl, model, spec):
    f = case.split(" ")
    if f[0] == "X":
        return {"kind": "exhaustive-block", "description": f[1], "max_script_length": f[2], "operations": f[3],
                "impl_digest": impl, "model_digest": model, "spec_digest": spec, "case": case}
    return {"kind": "script", "description": f[0], "operations": f[1] if len(f) > 1 else "", "impl": impl,
            "model": model, "spec": spec, "case": case}


# ------------------------------------------------------------------------------ known findings

MATCHERS = {}

_LEN_SPLIT = __import__("re").compile(r"[;,.+=/:]")


# ------------------------------------------------------------------------------ shrinking

def _first_diff(a, b):
    ta, tb = a.split(" "), b.split(" ")
    for i in range(max(len(ta), len(tb))):
        if i >= len(ta) or i >= len(tb) or ta[i] != tb[i]:
            return i
    return None


def _world_cands(desc, ops):
    """the world of an R / W case: drop a row, empty one field of a row, drop one element of a list, drop a kept id
    (a candidate whose fixture cannot be built — a link to a dropped entity — answers `panic "fixture…"` and is not taken)"""
    res = []
    t = desc.split(";")
    if len(t) == 6:
        for idx, empties in ((3, ["_", "_", "~", "~"]), (4, ["_", "~"])):
            rows = [] if t[idx] == "_" else t[idx].split("+")
            for i in range(len(rows)):
                rest = rows[:i] + rows[i + 1:]
                nt = t[:idx] + ["+".join(rest) if rest else "_"] + t[idx + 1:]
                res.append(";".join(nt) + " " + ops)
            for i, row in enumerate(rows):
                rid, _, fs = row.partition("=")
                fl = fs.split("/")
                for j in range(min(len(fl), len(empties))):
                    if fl[j] == empties[j]:
                        continue
                    if "." in fl[j]:   # drop one element of a list
                        els = fl[j].split(".")
                        for e in range(len(els)):
                            nf = fl[:j] + [".".join(els[:e] + els[e + 1:])] + fl[j + 1:]
                            nt = t[:idx] + ["+".join(rows[:i] + [rid + "=" + "/".join(nf)] + rows[i + 1:])] + t[idx + 1:]
                            res.append(";".join(nt) + " " + ops)
                    nf = fl[:j] + [empties[j]] + fl[j + 1:]
                    nt = t[:idx] + ["+".join(rows[:i] + [rid + "=" + "/".join(nf)] + rows[i + 1:])] + t[idx + 1:]
                    res.append(";".join(nt) + " " + ops)
        if t[5] != "_":
            ks = t[5].split(",")
            for i in range(len(ks)):
                rest = ks[:i] + ks[i + 1:]
                res.append(";".join(t[:5] + [",".join(rest) if rest else "_"]) + " " + ops)
    return res


def _w_item(s):
    """`[WRITES>]ENTRY:ops` -> (writes, entry, ops)"""
    ws, _, rest = s.rpartition(">")
    e, _, o = rest.partition(":")
    return ([] if not ws else ws.split("&")), e, ([] if o == "_" else o.split(","))


def _w_show(items):
    return "/".join(("&".join(ws) + ">" if ws else "") + e + ":" + (",".join(o) if o else "_") for ws, e, o in items)


def _w_cands(desc, ops):
    """a W case: drop an item (its writes move to the next item), drop a write, drop an operation, shorten a
    written list; then the world"""
    items = [_w_item(x) for x in ops.split("/")]
    res = []
    for i in range(len(items)):
        if len(items) > 1:
            rest = [list(x) for x in items[:i] + items[i + 1:]]
            if i < len(items) - 1:
                rest[i][0] = items[i][0] + rest[i][0]
            res.append(desc + " " + _w_show(rest))
            if items[i][0] and i < len(items) - 1:   # … or vanish with it
                res.append(desc + " " + _w_show(items[:i] + items[i + 1:]))
    for i, (ws, e, o) in enumerate(items):
        for j in range(len(ws)):
            res.append(desc + " " + _w_show(items[:i] + [(ws[:j] + ws[j + 1:], e, o)] + items[i + 1:]))
            f = ws[j].split("=")
            for a in range(2, len(f)):   # one element less in a written list
                if "," in f[a]:
                    els = f[a].split(",")
                    for x in range(len(els)):
                        nw = "=".join(f[:a] + [",".join(els[:x] + els[x + 1:])] + f[a + 1:])
                        res.append(desc + " " + _w_show(items[:i] + [(ws[:j] + [nw] + ws[j + 1:], e, o)] + items[i + 1:]))
        for j in range(len(o)):
            res.append(desc + " " + _w_show(items[:i] + [(ws, e, o[:j] + o[j + 1:])] + items[i + 1:]))
    return res + _world_cands(desc, ops)


def _candidates(case):
    """smaller variants of a script case: drop one operation, drop one element of one set"""
    f = case.split(" ")
    if f[0] == "X" or len(f) != 2:
        return []
    desc, ops = f
    res = []
    if desc.startswith("M;"):
        t = desc.split(";")
        o = [] if ops == "_" else ops.split(",")
        for i in range(len(o)):
            rest = o[:i] + o[i + 1:]
            res.append(desc + " " + (",".join(rest) if rest else "_"))
        els = [] if t[2] == "_" else t[2].split(",")
        for j in range(len(els)):
            rest = els[:j] + els[j + 1:]
            res.append(";".join(t[:2] + [",".join(rest) if rest else "_"]) + " " + ops)
        ops_l = t[1].split(",")
        if len(ops_l) > 2:   # drop the last cursor if the script does not use it
            last = str(len(ops_l) - 1)
            if all(not x.startswith(last) for x in o):
                res.append(";".join([t[0], ",".join(ops_l[:-1]), t[2]]) + " " + ops)
        return res
    if desc.startswith("W;"):
        return _w_cands(desc, ops)
    if desc.startswith("R;"):
        # drop a segment, drop one operation of a segment (the world stays as generated)
        segs = [sg.split(":") for sg in ops.split("/")]
        for i in range(len(segs)):
            if len(segs) > 1:
                rest = segs[:i] + segs[i + 1:]
                res.append(desc + " " + "/".join(k + ":" + o for k, o in rest))
        for i, (k, o) in enumerate(segs):
            if o == "_":
                continue
            oo = o.split(",")
            for j in range(len(oo)):
                r = oo[:j] + oo[j + 1:]
                ns = segs[:i] + [[k, ",".join(r) if r else "_"]] + segs[i + 1:]
                res.append(desc + " " + "/".join(a + ":" + b for a, b in ns))
        res += _world_cands(desc, ops)
        return res
    if desc.startswith("stacked;"):
        # only the script is shrunk (the world of a stacked case stays as generated)
        if ops != "_":
            o = ops.split(",")
            return [desc + " " + (",".join(o[:i] + o[i + 1:]) or "_") for i in range(len(o))]
        return []
    if ops != "_":
        o = ops.split(",")
        for i in range(len(o)):
            rest = o[:i] + o[i + 1:]
            res.append(desc + " " + (",".join(rest) if rest else "_"))
    toks = desc.split(";")
    kinds = {"fwd", "rev", "tfwd", "trev", "setsym", "setsymnone", "empty", "tree", "filt", "union", "scan", "valid",
             "allof", "anyof", "slice", "stacked", "f", "r", "0", "1", "_", "seekable", "open", "newdir", "new", "list", "dir",
             "typed", "rel", "val", "key", "link", "rclink", "ids", "cids", "xids", "var"}
    for i, t in enumerate(toks):
        if t in kinds or (i > 0 and toks[i - 1] in ("tfwd", "trev")) or (i > 1 and toks[i - 2] in ("tfwd", "trev")):
            continue
        els = t.split(",")
        for j in range(len(els)):
            rest = els[:j] + els[j + 1:]
            nt = toks[:i] + [",".join(rest) if rest else "_"] + toks[i + 1:]
            res.append(";".join(nt) + " " + ops)
    return res


def shrink(ctx, case, fails, rounds=60, skip=lambda c: False):
    """greedy delta debugging; fails(impl, model, spec) -> bool; candidates with skip(case) are not taken"""
    f = case.split(" ")
    if f[0] == "X":
        return case
    cur = case
    for _ in range(rounds):
        cands = _candidates(cur)
        if not cands:
            break
        impl, model, spec = common.run_cases(ctx, "c14", "\n".join(cands) + "\n")
        if not (len(impl) == len(model) == len(spec) == len(cands)):
            break
        nxt = None
        for c, a, m, s in zip(cands, impl, model, spec):
            if "bad-case" in (a, m, s) or a.startswith("panic \"fixture") or a.startswith("panic \"bad") or skip(c):
                continue
            if c.startswith("W;") and "fail" in m.split(" "):   # the code makes no promise for this script

                continue
            if fails(a, m, s):
                nxt = c
                break
        if nxt is None:
            break
        cur = nxt
    return cur


def _block_bad(impl, model, spec):
    """digest line `<count> <raw> <normalised>`: implementation = model on all three, = spec on the
    normalised digest (nil read as the empty element)"""
    return impl != model or impl.split(" ")[-1] != spec.split(" ")[-1] or impl.split(" ")[0] != spec.split(" ")[0]


def expand_block(case):
    """all explicit script cases of an exhaustive block `X <desc> <k> <alphabet>`"""
    _, desc, k, alpha = case.split(" ")
    ops = alpha.split(",")
    res = []

    def rec(prefix, n):
        res.append(desc + " " + (",".join(prefix) if prefix else "_"))
        if n == 0:
            return
        for o in ops:
            rec(prefix + [o], n - 1)

    rec([], int(k))
    return res


def run_cases_parallel(ctx, cases_text, timeout=3600):
    """like common.run_cases, but implementation, model and spec run concurrently (the exhaustive
    blocks of the thorough tier take minutes each way); the implementation goes through
    common.run_impl, so a case on which the library does not return (e.g. a scanner looping over a
    cursor that never becomes invalid) gets the outcome `hang` and the remaining cases still run"""
    import threading
    data = cases_text.encode()
    lines = [l for l in cases_text.split("\n") if l]
    outs = [None] * 3

    def impl():
        outs[0] = common.run_impl(ctx, "c14", lines, timeout=timeout)

    def drv(i, cmd):
        p = subprocess.Popen(cmd, stdin=subprocess.PIPE, stdout=subprocess.PIPE, stderr=subprocess.STDOUT)
        o, _ = p.communicate(data, timeout=timeout)
        if p.returncode != 0:
            ctx.log(f"{os.path.basename(cmd[0])} exited {p.returncode}: {o.decode('utf-8', 'replace')[-500:]}")
        ls = o.decode("utf-8", "replace").split("\n")
        if ls and ls[-1] == "":
            ls.pop()
        outs[i] = ls

    ths = [threading.Thread(target=impl), threading.Thread(target=drv, args=(1, [common.DRIVER])),
           threading.Thread(target=drv, args=(2, [common.DRIVER, "spec"]))]
    for t in ths:
        t.start()
    for t in ths:
        t.join()
    impl_l, model_l, spec_l = outs[0] or [], outs[1] or [], outs[2] or []
    # cases that were not run after repeated hangs take the model's output (neutral)
    impl_l = [model_l[k] if a == common.SKIPPED and k < len(model_l) else a for k, a in enumerate(impl_l)]
    return impl_l, model_l, spec_l


def _stuck(a):
    return a == "hang" or a.startswith("crash")


# ------------------------------------------------------------------------------ the check

def run(ctx, replay_cases=None):
    ctx.assumptions += [
        "bbolt: a bucket iterates its keys in bytes.Compare order without duplicates; First/Last/Next/Prev/Seek behave "
        "as the index model in Cursor/Bolt.lean (incl. Prev after a Seek past the end, Next/Prev staying put at the "
        "ends) — exercised against the real bbolt, in a writing and in a read transaction, on every run",
        "biogo llrb Insert keeps a binary search tree under the element comparator and replaces an equal element "
        "(tree_inorder holds for every tree shape, so the rebalancing is irrelevant)",
        "a set index / link collection / entity bucket contains exactly the ids the stores wrote (C03-C05); here the "
        "harness writes them through Create / SetLinks / IncrementLinkCount",
        "operands of a union are sorted in the union's direction (Desc.WF: both operand cursors and the union use "
        "the same `forward` flag)",
        "bbolt inside a write transaction: a cursor taken from a bucket AFTER writes sees the bucket's current keys; "
        "Seek on a cursor taken BEFORE single-key puts / deletes in the same bucket object searches the current keys from "
        "the root (Cursor/Write.lean `rebase`); a bucket that was deleted and re-created is a different bucket object "
        "(`ident`) — exercised against the real bbolt on every run (W cases), both with everything in bbolt's in-memory "
        "nodes and over committed pages",
        "what each write path does to the sets (Cursor/World.lean `applyWrite`: Update re-creates the tags bucket and diffs "
        "the links, DeleteById removes the entity bucket, …) is modelled and compared through the cursors on every W case; "
        "that stores keep indexes and links consistent is C03-C05",
    ]
    # every C14 case but an exhaustive block of the thorough tier takes micro- to milliseconds
    os.environ.setdefault("VERIF_CASE_TIMEOUT", "10" if ctx.tier == "quick" else "60")
    with common.Lock():
        common.build_tools(ctx)
        built = common.prove(ctx, MODULE, THEOREMS)
    trusted = common.BASE_TRUST + ["bbolt cursor and bucket semantics (modelled in Cursor/Bolt.lean, not verified)",
                                   "biogo/store/llrb Insert (modelled as BST insertion)"]
    if not (ctx.harness_ok and ctx.driver_ok):
        ctx.obligation("harness and model driver build against /repo", False,
                       (ctx.harness_log if not ctx.harness_ok else ctx.driver_log)[-400:])
        common.violation(ctx, "tie-broken", None,
                         {"reason": "harness or Lean driver does not build against the current tree",
                          "log": (ctx.harness_log if not ctx.harness_ok else ctx.driver_log)[-2000:]}, no_input=True)
        return common.finish(ctx, trusted_base=trusted)
    if replay_cases is not None:
        lines = list(replay_cases)
    else:
        lines = common.corpus_cases("c14") + [l for l in common.gen_cases(ctx, "c14").split("\n") if l]
        if os.environ.get("C14_ONLY_BLOCKS"):  # debugging aid: exercise the block-expansion path alone
            lines = [l for l in lines if l.startswith("X ")]
    impl, model, spec = run_cases_parallel(ctx, "\n".join(lines) + "\n")
    n = len(lines)
    if len(impl) != n or len(model) != n or len(spec) != n:
        ctx.obligation("output streams aligned", False, f"cases {n} impl {len(impl)} model {len(model)} spec {len(spec)}")
        common.violation(ctx, "tie-broken", None, {"reason": "output streams not aligned (crash?)", "cases": n,
                                                    "impl": len(impl), "model": len(model), "spec": len(spec),
                                                    "impl_tail": impl[-3:], "model_tail": model[-3:]}, no_input=True)
        return common.finish(ctx, trusted_base=trusted)

    # exhaustive blocks that disagree are expanded into explicit scripts so that a concrete script is reported
    extra = []
    nblocks = 0
    block_scripts = 0
    for c, a, m, s in zip(lines, impl, model, spec):
        if c.startswith("X "):
            nblocks += 1
            try:
                block_scripts += int(a.split(" ")[0])
            except ValueError:
                pass
            if _block_bad(a, m, s):
                extra += expand_block(c)
    if extra:
        ei, em, es = common.run_cases(ctx, "c14", "\n".join(extra) + "\n")
        if len(ei) == len(em) == len(es) == len(extra):
            lines, impl, model, spec = lines + extra, impl + ei, model + em, spec + es
            n = len(lines)

    if ctx.replay_mode:
        import json
        for c, a, m, s in zip(lines, impl, model, spec):
            print(json.dumps(describe(c, a, m, s), indent=1))
    spec_bad, corr_bad = [], []
    keys = set()
    hist = collections.Counter()
    for c, a, m, s in zip(lines, impl, model, spec):
        k = nontrivial(c, a)
        if k is not None:
            keys.add(k)
        kinds, _, vias = _shape(c).partition("/")
        ks = kinds.split("+")
        hist["kind:" + ("block:" if c.startswith("X ") else "") + ks[0]] += 1
        for kk in ks[1:]:
            hist["operand:" + kk] += 1
        for v in vias.split("+") if vias else []:
            hist["via:" + v] += 1
        if not c.startswith("X "):
            ops = c.split(" ")[1]
            if len(c) > 300:
                # length classes of the longest element and of the longest seek target of the case
                def _cls(n):
                    for b in (16, 62, 63, 64, 65, 127, 128, 255, 256, 1000, 4096):
                        if n <= b:
                            return "<=%d" % b
                    return ">4096"
                el = max((len(t) for t in _LEN_SPLIT.split(c.split(" ")[0])), default=0) // 2
                tg = max((len(t) - 1 for t in _LEN_SPLIT.split(ops) if t[:1] in ("s", "t")), default=0) // 2
                hist["long:max_element_len" + _cls(el)] += 1
                if tg > 0:
                    hist["long:max_seek_target_len" + _cls(tg)] += 1
            if c.startswith("M;"):
                st = [] if ops == "_" else ops.split(",")
                o = [x[1:] for x in st]
                hist["multi:cursors:%d" % len(c.split(";")[1].split(","))] += 1
                hist["multi:switches_between_cursors"] += sum(1 for x, y in zip(st, st[1:]) if x[0] != y[0])
            elif c.startswith("W;"):
                its = [_w_item(x) for x in ops.split("/")]
                o = [x for _, _, oo in its for x in oo]
                hist["write_items:%d" % len(its)] += 1
                prev_row = None
                for ws, e, _ in its:
                    for wr in ws:
                        hist["write:" + wr.split("=")[0]] += 1
                    if e[0] == "o":
                        if ws and prev_row == e[1:]:
                            hist["write:same-row-reopened-after-write"] += 1
                        elif ws:
                            hist["write:other-row-opened-after-write"] += 1
                        prev_row = e[1:]
                    elif ws:
                        hist["write:reseek-after-write"] += 1
                    else:
                        hist["write:reseek-without-write"] += 1
            elif c.startswith("R;"):
                segs = [sg.split(":")[1] for sg in ops.split("/")]
                hist["reuse_segments:%d" % len(segs)] += 1
                o = [x for sg in segs if sg != "_" for x in sg.split(",")]
                obs = a.split(" ")
                # a segment that opens on an empty row right after the object was left on an element
                pos = 0
                prev_valid = False
                for sg in segs:
                    nobs = 1 + (0 if sg == "_" else len(sg.split(",")))
                    part = obs[pos:pos + nobs]
                    if part and part[0] == "i" and prev_valid:
                        hist["reuse:empty-row-after-object-left-on-element"] += 1
                    if part and part[0].startswith("v") and prev_valid:
                        hist["reuse:nonempty-row-after-object-left-on-element"] += 1
                    prev_valid = bool(part) and part[-1].startswith("v")
                    pos += nobs
            else:
                o = [] if ops == "_" else ops.split(",")
            hist["script_len:%d" % len(o)] += 1
            hist["ops:next"] += sum(1 for x in o if x == "n")
            hist["ops:seek"] += sum(1 for x in o if x.startswith("s"))
            hist["ops:seekToString"] += sum(1 for x in o if x.startswith("t"))
            toks = a.split(" ")
            hist["obs:valid"] += sum(1 for t in toks if t.startswith("v"))
            hist["obs:invalid"] += sum(1 for t in toks if t == "i")
            hist["obs:nil-value"] += sum(1 for t in toks if t == "vnil")
            hist["obs:empty-string-value"] += sum(1 for t in toks if t == "v-")
            hist["obs:panic"] += sum(1 for t in toks if t.startswith("panic"))
        if c.startswith("X "):
            if _block_bad(a, m, s):
                # the expansion carries the concrete failing scripts; the block itself only counts
                hist["blocks-with-mismatch"] += 1
            continue
        if _spec_norm(a) != s:
            spec_bad.append((c, a, m, s))
        elif a != m:
            corr_bad.append((c, a, m, s))
    ctx.coverage.update({
        "evaluations": n + block_scripts,
        "explicit_script_cases": n - nblocks,
        "exhaustive_blocks": nblocks,
        "scripts_in_exhaustive_blocks": block_scripts,
        "distinct_nontrivial": len(keys),
        "rule": RULE,
        "samples": [describe(lines[i], impl[i], model[i], spec[i]) for i in sorted(set([0, n // 3, n // 2, n - 1])) if 0 <= i < n],
        "input_distribution": dict(sorted(hist.items())),
        "impl_vs_spec_disagreements": len(spec_bad),
        "impl_vs_model_disagreements": len(corr_bad) + len([b for b in spec_bad if b[1] != b[2]]),
    })
    ncorr = len(corr_bad) + len([b for b in spec_bad if b[1] != b[2]])
    ctx.obligation("correspondence: implementation output = model output on every generated case (script by script, "
                   "observation by observation)", ncorr == 0, f"{ncorr} disagreement(s)")
    blocks_bad = [c for c, a, m, s in zip(lines, impl, model, spec) if c.startswith("X ") and _block_bad(a, m, s)]
    unknown = []
    for b in spec_bad:
        if common.classify(ctx, MATCHERS, b[0], {"impl": b[1], "model": b[2], "spec": b[3]}) is None:
            unknown.append(b)
    if unknown:
        # prefer an input on which the implementation returns (a wrong observation) to one on which it hangs
        c, a, m, s = common.shortest([u for u in unknown if not _stuck(u[1])] or unknown)
        if not ctx.replay_mode and not _stuck(a):
            known = [MATCHERS[name] for name, _ in common.load_known(ctx.prop) if name in MATCHERS]
            c2 = shrink(ctx, c, lambda ia, im, isp: _spec_norm(ia) != isp,
                        skip=lambda cc: any(mt(cc, {}) for mt in known))
            if c2 != c:
                i2, m2, s2 = common.run_cases(ctx, "c14", c2 + "\n")
                if len(i2) == 1 and _spec_norm(i2[0]) != s2[0]:
                    c, a, m, s = c2, i2[0], m2[0], s2[0]
        d = describe(c, a, m, s)
        fd = _first_diff(_spec_norm(a), s)
        d.update({"first_differing_observation": fd, "unlisted_failing_cases": len(unknown),
                  "more": [u[0] for u in sorted(unknown, key=lambda u: len(u[0]))[1:6]]})
        common.violation(ctx, "property-fails-on-input", c, d)
    elif corr_bad:
        c, a, m, s = common.shortest(corr_bad)
        if not ctx.replay_mode:
            c2 = shrink(ctx, c, lambda ia, im, isp: ia != im)
            if c2 != c:
                i2, m2, s2 = common.run_cases(ctx, "c14", c2 + "\n")
                if len(i2) == 1 and i2[0] != m2[0]:
                    c, a, m, s = c2, i2[0], m2[0], s2[0]
        common.violation(ctx, "correspondence-broken", c,
                         dict(describe(c, a, m, s), disagreements=len(corr_bad),
                              reason="implementation and Lean model disagree although the implementation still meets "
                                     "the spec on every explored input; the theorems no longer speak about this code"),
                         no_input=True)
    elif blocks_bad:
        common.violation(ctx, "correspondence-broken", blocks_bad[0],
                         {"reason": "an exhaustive block digest differs but its expansion shows no differing script",
                          "blocks": blocks_bad[:5]}, no_input=True)
    elif not built or ctx.broken:
        common.violation(ctx, "obligation-broken", None,
                         {"reason": "a proof obligation no longer checks; the search over the generated cases found no "
                                    "(unlisted) input on which the property fails",
                          "lean_errors": [l for l in getattr(ctx, "lean_log", "").splitlines() if "error" in l][:10]},
                         no_input=True)
    return common.finish(ctx, trusted_base=trusted)
