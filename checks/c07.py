"""C07 — transactions are all-or-nothing and every failure reaches the caller."""
from . import c07_c08_flow as flow

MODULE = "StorageModel.Properties.C07"
THEOREMS = ["table_is_expected", "delivery_is_expected", "holder_plumbing_is_expected", "raised_only_grows", "op_error_surfaces",
            "op_failure_kind_surfaces", "no_false_success", "no_false_success_any_fault", "tx_atomic",
            "tx_error_surfaces", "caller_error_surfaces", "first_run_error_surfaces", "pre_commit_error_surfaces",
            "rejected_operation_surfaces", "rejected_link_step_surfaces", "tx_raised_surfaces", "tx_no_false_success", "history_refines_spec",
            # batch groups (several Db.Batch calls coalesced by bbolt into one batch), every schedule
            "batch_group_atomic", "batch_group_no_false_success"]

TABLE_OBLIGATIONS = [
    "table_is_expected (Generated/CrudReturns.lean: return paths of Create/Update/DeleteById/DeleteWhere, processDeleteConstraints, fireParentEvent, fireEvents, processPreCommit regenerated from boltz/store_crud.go and boltz/store.go)",
    "delivery_is_expected (Generated/CrudReturns.lean: post-commit work is started through tx.OnCommit only; shape of the listener adapters; from boltz/db.go, tx_context.go, store.go, store_crud.go)",
    "holder_plumbing_is_expected (Generated/CrudReturns.lean holderFlags + table field persistSharesHolder: newIndexingContext chains the parent store's context with the same error holder; IndexingContext.ProcessBeforeUpdate/AfterUpdate/BeforeDelete run the parent context first and their own constraints only while the holder is empty; PersistContext.GetParentContext shares the holder; ProceedWithSet writes nothing once the holder has an error; stage order in Create/Update/processDeleteConstraints; from boltz/indexes.go, base.go, typed_bucket.go, store_crud.go)",
]


def nontrivial(case, impl):
    # non-trivial: some transaction of the history failed (error or panic reached the caller)
    if any(not r.startswith("ok") for r in flow.failure_kinds(impl)):
        return case
    return None


MATCHERS = {}

RULE = ("histories of 1-4 transactions (Db.Update / Db.Batch, fresh or reused MutateContext) over a parent store "
        "(unique index, set index, nullable fk index with restrict, tags map) and two child stores, listeners of every "
        "registration style on all three; (a) every body of one operation (25 operations: create/update/delete/"
        "deleteWhere through each store, incl. child data created over an existing parent entity and an entity with data "
        "in both child stores) x one "
        "failure of every kind (caller error, failing pre-commit action, duplicate, missing fk target, null name, "
        "empty role = bucket name required, 32768-byte role and 32769-byte name = key too large, blank id, existing "
        "id, missing id, referenced entity, veto by an untyped / typed entity constraint on the parent or the child "
        "flow as plain error or RecordNotFoundError, index-stage veto by a custom boltz.Constraint registered with "
        "AddConstraint on the parent or on the child store in ProcessBeforeUpdate / ProcessAfterUpdate / "
        "ProcessBeforeDelete as plain error or RecordNotFoundError, injected FillEntity / PersistEntity error at "
        "the n-th call, linked ids (SetLinkedIds) naming a target the linked store does not have, AddLinks / SetLinks "
        "of the transaction function with a missing target or on a missing entity, an error / entity-constraint veto that strikes only the first time the transaction function runs "
        "(a Db.Batch then commits on bbolt's re-run), a tags map value the typed-bucket setters reject - unsupported type at depth 0/1/2, []string in a "
        "list, empty / over-long key - with nothing injected, unparsable query) x Update and Batch, exhaustively; thorough tier also every body of two "
        "operations x every position x every kind; (b) sampled bodies of 2-5 operations with one failure at a "
        "random position; (c) random histories incl. nested Update calls, swallowed errors, reused contexts, up to "
        "2 custom index-stage constraints per store; (d) batch groups: 2-4 Db.Batch calls coalesced by bbolt into one batch "
        "(every member position x a fault on its 1st / 2nd / 3rd invocation, members that fail always / once / never, members "
        "working on the same entity, reused contexts, random groups among the other transaction modes). "
        "Non-trivial = at least one transaction of the history fails; "
        "distinct = distinct case line")


def run(ctx, replay_cases=None):
    ctx.assumptions += [
        "bbolt rolls a transaction back when its function returns an error and runs OnCommit handlers only after a successful commit, in registration order (modelled; the harness compares the full boltz.Traverse leaf dump before and after every failed transaction and the callback logs)",
        "bbolt Batch re-runs a failing function alone (modelled as a second attempt; observed through the body run counter)",
        "bbolt's DB.Batch with several queued calls (one shared transaction per round in arrival order, rollback + solo re-run of the failing call, re-run of the rest) is modelled literally from go.etcd.io/bbolt db.go, not verified; the order in which the solo re-runs and the rounds get the writer lock is observed in the implementation's run and handed to model and spec as the schedule (the theorems hold for every schedule)",
        "the entity table determines every index bucket (C03/C04); the harness compares the leaf dump of the real database with the rendering of the model's table after every committed transaction",
        "custom index-stage constraints only log their calls and call ctx.ErrHolder.SetError for the listed (stage, id) pairs; errorz.ErrorHolderImpl.SetError keeps the first error (library outside the repository, exercised by the correspondence)",
        "string pools are ASCII; long values are runs of one byte",
    ]
    return flow.run_flow(ctx, "c07", MODULE, THEOREMS, MATCHERS, nontrivial, RULE,
                         table_obligations=TABLE_OBLIGATIONS, replay_cases=replay_cases, events_on_commit=False)
