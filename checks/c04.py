"""C04 — foreign keys: targets exist, back-references exact, delete restricts or cascades.

Own flow (same observable contract as common.standard_flow): one case = one history of transactions;
the implementation line carries, per transaction, `<res>#<fine>#<coarse>`; the model prints the same,
the spec prints `<res>#*#<coarse>` (it has no notion of which empty back-reference buckets exist), so
implementation-vs-spec compares with the fine digest blanked.  Failing histories are shrunk
(truncate after the first differing transaction, then drop transactions / operations greedily) and
re-run in verbose mode so that the replay file shows the full observations.
"""
import re

from . import common
from . import universe

MODULE = "StorageModel.Properties.C04"
THEOREMS = [
    "fk_inv_reachable",
    "fk_inv_step",
    "fk_target_exists",
    "fk_write_requires_target",
    "null_rejected_when_not_nullable",
    "null_boss_enum",
    "restrict_refuses",
    "restrict_refuses_child",
    "restrict_never_orphans",
    "restrict_never_orphans_child",
    "delete_clears_all_backrefs",
    "cascade_terminates",
    "cascade_exact",
    "cascade_exact_of_success",
    "cascade_exact_B",
    "delete_A_errors",
    "protected_cascade_fails",
    "cascade_marks_balanced",
    "later_cascades_exact",
    "context_reuse_exact",
    "delete_outcomes",
    "refusal_has_reason",
    "child_create_backrefs_exact",
    "referrer_lookup_exact",
    "spec_closure_exact",
    "spec_agrees_on_success",
    "restrict_inside_cascade_refuses",
    "chain_delete_refused_or_exact",
    "chain_delete_item_refused_or_exact",
    "chain_targets_exist",
    "chain_targets_exist_step",
    "chain_spec_agrees",
    "gen_cascade_marks_balanced",
    "gen_delete_marks_balanced",
    "gen_context_reuse_exact",
    "gen_refused_changes_nothing",
    "gen_restrict_refuses",
    "gen_write_requires_target",
    "gen_fk_target_exists_write",
    "schemaChain_restrict_refuses",
    "schemaAB_restrict_refuses",
    "schemaAB_marks_balanced",
    "gen_delete_only_removes",
    "gen_delete_removes_target",
]

RULE = ("scripted families (every id of the hostile pool — quotes, backslashes, backslash-n, filter keywords, "
        "filter fragments such as `x\" or id != \"`, NUL / non-UTF-8 bytes, a 300-byte id — as the deleted target, "
        "unreferenced / referenced through owner, dep, boss chains, promoted through the child store with unchanged / "
        "changed / cleared references, deleted with child data, the same id in both stores; under all 8 schema variants; "
        "and, for every combination of which child store declares the mentor fk index / the guard fk constraint and both "
        "registration orders of the two sibling child stores: an entity holding data in both child stores that refers to "
        "a B entity through every child fk, deleted through A / C / C2, references moved and cleared through the child "
        "stores) "
        "plus seeded random histories of 6-31 transactions (1-3 operations each: create B, create A, create through the "
        "child store (fresh id / over an existing plain parent with equal, changed or cleared fk values / over existing "
        "child data), update A and update through the child store with a random field checker incl. re-parenting / "
        "null-out / empty string, delete A directly or through the child store, delete B) over 3-9 A ids and 2-3 B ids "
        "drawn from the pool (in half of the histories one id names an entity in both stores; in three quarters the "
        "schema additionally draws which of the two child stores declares a mentor fk index / a guard fk constraint and "
        "their registration order; creates and updates go through either child store, also over an entity that already "
        "holds data of the sibling; in half of the histories the fk fields have a symbol name, a stored key and a "
        "caller-side checker name that are not all the same, and patch updates list fields by any of the three; two in "
        "five histories run on ONE MutateContext object reused for every Db.Update; deletes under an entity constraint "
        "that protects a transitive referrer fail part-way and are followed by the delete of what the failed target "
        "refers to); after every transaction "
        "the canonicalised boltz.Traverse dump, the surviving ids, the stored fk values, GetRelatedEntitiesIdList of "
        "every back-reference field (things, minions, mentees1, mentees2), each child store's view of every entity and "
        "the error enum are compared. "
        "Round 9: a second family over a CHAIN of three stores owners <- items <- notes with an fk constraint on each "
        "link, all 16 combinations of restrict / cascade and nullable / not (kind `t`): scripted (every pool id as owner "
        "/ protected item / note, the same id in all three stores, references moved away or cleared before the delete) "
        "and random histories of 6-25 transactions (create / update / delete at every level, ids from the hostile pool, "
        "in half of them the same names at every level; a third forced to cascade-over-restrict); dump, ids, stored "
        "refs and error enum compared after every transaction. "
        "Round 14: a third family over RANDOM SCHEMAS (kind `g`): 2-4 root stores, 1-6 fk declarations of mixed kinds "
        "(fk index / fk constraint, nullable / not, restrict / cascade; self references, cycles of length 2-3 across "
        "stores, an fk index reached by a cascade, restrict into a self-referencing cascade, several declarations "
        "between the same two stores, shuffled registration order), wired on real stores; histories of 8-27 "
        "transactions of create / update / patch update / delete, two in five on ONE reused MutateContext; ids, stored fk "
        "values, GetRelatedEntitiesIdList of every fk index and the error enum compared with the schema-parametric model "
        "(exact next state) after every transaction. "
        "non-trivial = the history contains a refused delete (refexists), a cascading delete that removed >= 2 "
        "entities, or a rejected write (notfound / null-not-allowed); distinct = (variant, sequence of results and "
        "coarse digests)")


def _unhex(w):
    if w == "-":
        return ""
    try:
        return bytes.fromhex(w).decode("utf-8", "backslashreplace")
    except ValueError:
        return "?" + w


def _fv(w):
    return None if w == "~" else _unhex(w)


def pretty_op(op):
    f = op.split(":")
    try:
        if f[0] == "cb":
            return {"createB": _unhex(f[1])}
        if f[0] == "ca":
            return {"createA": _unhex(f[1]), "owner": _fv(f[2]), "boss": _unhex(f[3]), "dep": _fv(f[4])}
        if f[0] == "ua":
            m = int(f[2].split("/")[0])
            flds = ["owner", "boss", "dep"] if m >= 8 else [n for b, n in ((1, "owner"), (2, "boss"), (4, "dep")) if m & b]
            if "/" in f[2]:
                flds = {"checker_lists_by_caller_name/stored_key/symbol_name (bit masks)": f[2]}
            return {"updateA": _unhex(f[1]), "fields": flds, "owner": _fv(f[3]), "boss": _unhex(f[4]), "dep": _fv(f[5])}
        if f[0] in ("cc", "c2"):
            d = {"createThroughChildStore" + ("C2" if f[0] == "c2" else "C"): _unhex(f[1]), "owner": _fv(f[2]),
                 "boss": _unhex(f[3]), "dep": _fv(f[4]), "tag": _fv(f[5])}
            if len(f) >= 8:
                d.update({"mentor": _fv(f[6]), "guard": _fv(f[7])})
            return d
        if f[0] in ("uc", "u2"):
            m = int(f[2].split("/")[0])
            names = ((1, "owner"), (2, "boss"), (4, "dep"), (16, "tag"), (32, "mentor"), (64, "guard"))
            flds = [n for _, n in names] if m & 8 else [n for b, n in names if m & b]
            if "/" in f[2]:
                flds = {"checker_lists_by_caller_name/stored_key/symbol_name (bit masks)": f[2]}
            d = {"updateThroughChildStore" + ("C2" if f[0] == "u2" else "C"): _unhex(f[1]), "fields": flds,
                 "owner": _fv(f[3]), "boss": _unhex(f[4]), "dep": _fv(f[5]), "tag": _fv(f[6])}
            if len(f) >= 9:
                d.update({"mentor": _fv(f[7]), "guard": _fv(f[8])})
            return d
        if f[0] in ("dc", "d2"):
            return {"deleteThroughChildStore" + ("C2" if f[0] == "d2" else "C"): _unhex(f[1])}
        if f[0] in ("xa", "xb"):
            return {("deleteA" if f[0] == "xa" else "deleteB"): _unhex(f[1]),
                    "while_an_entity_constraint_refuses_the_delete_of_A_entity": _unhex(f[2])}
        if f[0] in ("n0", "n1", "n2", "m1", "m2", "r0", "r1", "r2"):
            store = ("owners", "items", "notes")[int(f[0][1])]
            verb = {"n": "create", "m": "update", "r": "delete"}[f[0][0]]
            d = {verb + "_in_" + store: _unhex(f[1])}
            if len(f) > 2:
                d["ref"] = _fv(f[2])
            return d
        if f[0] == "da":
            return {"deleteA": _unhex(f[1])}
        if f[0] == "db":
            return {"deleteB": _unhex(f[1])}
    except (IndexError, ValueError):
        pass
    return {"op": op}


def _verbose(case):
    """h -> v, k -> w (k / w: the history runs on ONE reused MutateContext)"""
    return {"h": "v", "k": "w", "t": "T", "g": "G"}.get(case[:1], case[:1]) + case[1:]


def pretty_gen_case(f):
    """kind g: a random schema over the schema-parametric model (harness/c04_gen.go)"""
    h = f[1].split(";")
    decls = []
    for k, w in enumerate(h[2:]):
        p = w.split(".")
        if len(p) != 5:
            decls.append({"decl": w})
            continue
        decls.append({"field": "g%s.f%d" % (p[0], k), "target_store": "g" + p[1],
                      "kind": "fk index (back-reference set b%d on the target)" % k if p[2] == "i" else "fk constraint",
                      "nullable": p[3] == "1" and not (p[2] == "i" and p[4] == "d"),
                      "on_delete_of_target": "cascade delete" if p[4] == "d" else "restrict (reference-exists)"})
    def op(o):
        g = o.split(":")
        try:
            verb = {"c": "create", "u": "update", "p": "patch_update", "d": "delete"}[g[0]]
            d = {verb: "g%s/%s" % (g[1], _unhex(g[2]))}
            if g[0] == "p":
                d["checker_lists_fields (mask over the store's fk fields)"] = g[3]
            if g[0] != "d":
                d["fk_values_in_declaration_order"] = [_fv(v) for v in g[-1].split("/")] if g[-1] != "_" else []
            return d
        except (IndexError, KeyError):
            return {"op": o}
    return {"schema": {"stores": ["g%d" % t for t in range(int(h[1]))] if h[1].isdigit() else h[1],
                       "fk_declarations_in_registration_order": decls},
            "mutate_context": "ONE MutateContext object reused for every Db.Update of the history" if h[0] == "1"
                              else "a fresh MutateContext per transaction",
            "transactions": [[op(o) for o in tx.split(",")] for tx in f[2:] if tx]}


def pretty_case(case):
    f = case.split(" ")
    if f[0] in ("g", "G") and len(f) > 1:
        return pretty_gen_case(f)
    v = int(f[1]) if len(f) > 1 and f[1].isdigit() else -1
    if f[0] in ("t", "T"):
        mode = lambda c: "CascadeDelete" if c else "CascadeNone (restrict)"
        return {"schema": {"stores": "owners <- items.ref <- notes.ref (three stores, an fk constraint on each link)",
                           "items.ref -> owners": mode(v & 1), "items.ref nullable": bool(v & 2),
                           "notes.ref -> items": mode(v & 4), "notes.ref nullable": bool(v & 8)},
                "mutate_context": "a fresh MutateContext per transaction",
                "transactions": [[pretty_op(o) for o in tx.split(",")] for tx in f[2:] if tx]}
    return {"schema": {"dep_cascade": bool(v & 1), "dep_nullable": bool(v & 2), "dep_registered_first": bool(v & 4),
                       "C_declares_mentor_fk_index": bool(v & 8), "C2_declares_mentor_fk_index": bool(v & 16),
                       "C_declares_guard_fk_constraint": bool(v & 32), "C2_declares_guard_fk_constraint": bool(v & 64),
                       "C2_registered_before_C": bool(v & 128),
                       "fk_field_naming": ["symbol = key = caller name", "key = caller name = fId (AddFkSymbolWithKey)",
                                           "key = fId, caller name = f (WithFieldOverrides)",
                                           "key = fId, caller name = fRef"][(v >> 8) & 3] if v >= 0 else None},
            "mutate_context": "ONE MutateContext object reused for every Db.Update of the history" if f[0] in ("k", "w")
                              else "a fresh MutateContext per transaction",
            "transactions": [[pretty_op(o) for o in tx.split(",")] for tx in f[2:] if tx]}


def blank_fine(line):
    """implementation/model line -> what the spec can be compared with"""
    if line is None:
        return None
    return " ".join(re.sub(r"^([^#]*)#[^#]*#", r"\1#*#", t) for t in line.split(" "))


def spec_match(a, s):
    """blanked implementation line vs spec line.  The spec of the random-schema family (kind g) is a relation: a token
    may list several allowed observations separated by `%%` (a delete whose only restrict referrers lie inside the
    cascade closure may be refused or remove the closure), `?` = undecided (too many live branches)."""
    if a == s:
        return True
    if a is None or s is None or ("%%" not in s and "?" not in s):
        return False
    ta, ts = a.split(" "), s.split(" ")
    return len(ta) == len(ts) and all(y == "?" or x in y.split("%%") for x, y in zip(ta, ts))


def first_spec_diff(a, s):
    ta, ts = (a or "").split(" "), (s or "").split(" ")
    for i in range(max(len(ta), len(ts))):
        x = ta[i] if i < len(ta) else None
        y = ts[i] if i < len(ts) else None
        if x != y and not (x is not None and y is not None and (y == "?" or x in y.split("%%"))):
            return i, x, y
    return None


def first_diff(a, b):
    ta, tb = (a or "").split(" "), (b or "").split(" ")
    for i in range(max(len(ta), len(tb))):
        x = ta[i] if i < len(ta) else None
        y = tb[i] if i < len(tb) else None
        if x != y:
            return i, x, y
    return None


def results(line):
    return [t.split("#")[0] for t in (line or "").split(" ")]


def nontrivial(case, impl):
    res = results(impl)
    interesting = any(r.endswith(("refexists", "notfound", "null-not-allowed", "veto")) for r in res)
    if not interesting:
        return None
    f = case.split(" ")
    return (f[1], tuple(t.split("#")[0] + t.split("#")[-1] for t in (impl or "").split(" ")))


def _ev(w):
    """wire fk value -> the value the indexes see (nil and empty are both "no reference")"""
    return "" if w in ("~", "-") else w


def situation_stats(case, impl, stats):
    """Replays the committed transactions of one history on a small table (ids and fk values as wire strings) to count
    which situations the generated histories actually reached (evidence only; verdicts never depend on it)."""
    f = case.split(" ")
    if f[0] in ("g", "G"):
        return gen_stats(f, impl, stats)
    try:
        variant = int(f[1])
    except (IndexError, ValueError):
        return
    if f[0] in ("t", "T"):
        return tier_stats(f, variant, impl, stats)
    A, B = {}, set()

    def bump(k):
        stats[k] = stats.get(k, 0) + 1

    def closure(seeds):
        gone = set(seeds)
        grew = True
        while grew:
            grew = False
            for k, e in A.items():
                if k not in gone and e["boss"] in gone:
                    gone.add(k)
                    grew = True
        return gone

    reused = f[0] in ("k", "w")
    vetoed = None
    for tx, tok in zip([t for t in f[2:] if t], (impl or "").split(" ")):
        if not tok.startswith("ok#"):
            r0 = tok.split("#")[0]
            if r0.endswith(":veto"):
                try:
                    fo = tx.split(",")[int(r0.split(":")[0])].split(":")
                except (ValueError, IndexError):
                    fo = []
                if fo and fo[0] in ("xa", "xb"):
                    bump("cascade failed part-way at a protected referrer (rolled back), "
                         + ("reused MutateContext" if reused else "fresh MutateContext per transaction"))
                    vetoed = fo[1] if fo[0] == "xa" else None
            continue
        for op in tx.split(","):
            g = op.split(":")
            k = g[0]
            if vetoed is not None and k in ("da", "dc", "d2", "xa") and vetoed in A and A[vetoed]["boss"] == g[1] \
                    and g[1] != vetoed:
                bump("a failed cascade at T followed by the delete of what T refers to, "
                     + ("on the SAME MutateContext (seeded C04-11)" if reused else "on a fresh MutateContext"))
                vetoed = None
            if k == "cb":
                B.add(g[1])
            elif k == "ca":
                A[g[1]] = {"owner": _ev(g[2]), "boss": g[3], "dep": _ev(g[4]), "ext": False, "x": {}}
            elif k in ("cc", "c2"):
                cur = A.get(g[1])
                ci = 1 if k == "c2" else 0
                new = {"owner": _ev(g[2]), "boss": g[3], "dep": _ev(g[4]), "ext": True,
                       "x": dict(cur["x"]) if cur else {}}
                new["x"][ci] = (_ev(g[6]) if len(g) > 6 else "", _ev(g[7]) if len(g) > 7 else "")
                if cur is not None and (1 - ci) in cur["x"]:
                    bump("child create over an entity holding data of the sibling child store")
                if cur is None:
                    bump("child create, fresh id")
                else:
                    same = [cur[x] == new[x] for x in ("owner", "boss", "dep")]
                    cleared = any(cur[x] != "" and new[x] == "" for x in ("owner", "dep"))
                    bump("child create over existing parent, " + ("every fk value unchanged" if all(same) else
                         "a reference cleared" if cleared else "a reference changed"))
                    if all(same) and (cur["owner"] or cur["dep"]):
                        bump("child create over existing parent, unchanged non-null owner/dep (seeded C04-4)")
                A[g[1]] = new
            elif k in ("ua", "uc", "u2"):
                cur = A.get(g[1])
                if cur is None:
                    continue
                mp = [int(z) for z in g[2].split("/")] + [0, 0]
                nv = (variant >> 8) & 3
                m = mp[0] & (8 | 16)
                for bit in (1, 2, 4, 32, 64):
                    c_, k_, y_ = mp[0] & bit, mp[1] & bit, mp[2] & bit
                    if c_ or (k_ and nv in (0, 1)) or (y_ and nv in (0, 2)):
                        m |= bit
                    if (k_ or y_) and not c_:
                        bump("patch update listing an fk field by its stored key / symbol name only (naming %d): %s"
                             % (nv, "selects it" if m & bit else "does not select it"))
                if nv and mp[0] & (1 | 2 | 4 | 32 | 64) and not mp[0] & 8:
                    bump("patch update of an fk field whose symbol name, stored key and caller-side name are not all the same")
                allf = mp[0] >= 8 if k == "ua" else bool(mp[0] & 8)
                if k != "ua":
                    ci = 1 if k == "u2" else 0
                    om, og = cur["x"].get(ci, ("", ""))
                    nm = _ev(g[7]) if (allf or m & 32) and len(g) > 7 else om
                    ng = _ev(g[8]) if (allf or m & 64) and len(g) > 8 else og
                    if (nm, ng) != (om, og) and variant & ((8 | 32) << ci):
                        bump("update through a child store changing a mentor / guard reference it declares")
                    cur["x"][ci] = (nm, ng)
                if cur["ext"]:
                    bump("update of an entity with child data through " + ("A (handed to the child store)" if k == "ua" else "the child store"))
                if allf or m & 1:
                    cur["owner"] = _ev(g[3])
                if allf or m & 2:
                    cur["boss"] = g[4]
                if allf or m & 4:
                    cur["dep"] = _ev(g[5])
            elif k in ("da", "dc", "d2", "xa"):
                if g[1] in A:
                    gone = closure([g[1]])
                    if len(A[g[1]]["x"]) == 2:
                        bump("delete of an entity holding data in both child stores")
                        later = 0 if variant & 128 else 1
                        if variant & (8 << later) and A[g[1]]["x"][later][0]:
                            bump("delete of an entity holding data in both child stores, the later registered one "
                                 "declaring a mentor index that lists it (seeded C04-8)")
                    if A[g[1]]["ext"]:
                        bump("delete of an entity with child data (two ProcessBeforeDelete rounds)" +
                             (", with referrers" if len(gone) > 1 else ""))
                    if A[g[1]]["ext"] and A[g[1]]["boss"] != g[1] and A[g[1]]["boss"] in gone:
                        bump("delete of an entity with child data whose boss refers back to it (repaired by 001d2d2)")
                    if any(A[x]["ext"] for x in gone if x != g[1]):
                        bump("cascade into an entity with child data")
                    for x in gone:
                        del A[x]
            elif k == "db":
                refs = [x for x, e in A.items() if e["dep"] == g[1]]
                if refs and variant & 1:
                    bump("cascade between the two stores (B delete removes dep referrers)")
                    if g[1] in refs:
                        bump("cascade between the two stores, a referrer's id equals the deleted B id (seeded C04-5)")
                    gone = closure(refs)
                    if any(A[x]["ext"] and A[x]["boss"] != x and A[x]["boss"] in gone for x in refs):
                        bump("B delete cascading into an entity with child data whose boss refers back to it (repaired by 001d2d2)")
                    for x in gone:
                        del A[x]
                B.discard(g[1])
        if any(e["owner"] and e["owner"] == x for x, e in A.items()) or any(e["dep"] and e["dep"] == x for x, e in A.items()):
            bump("state with an A entity referring to the B entity of the same id")


def gen_stats(f, impl, stats):
    """random schemas: which schema features and delete outcomes the histories reached"""
    def bump(k):
        stats[k] = stats.get(k, 0) + 1

    h = f[1].split(";")
    decls = [w.split(".") for w in h[2:]]
    bump("generic schema history" + (", reused MutateContext" if h[0] == "1" else ""))
    if any(d[0] == d[1] and d[4] == "d" for d in decls):
        bump("generic schema with a self-referencing cascade")
    casc_into = {d[1] for d in decls if d[4] == "d"}
    if any(d[4] == "r" and d[2] == "i" and d[0] in {c[0] for c in decls if c[4] == "d"} for d in decls):
        bump("generic schema: an fk index (restrict) on a store that a cascade reaches")
    if any(d[4] == "r" and d[1] in casc_into for d in decls):
        bump("generic schema: restrict and cascade declarations targeting the same store")
    for tx, tok in zip([t for t in f[2:] if t], (impl or "").split(" ")):
        ops = tx.split(",")
        if len(ops) == 1 and ops[0][:2] == "d:":
            bump("generic delete -> " + tok.split("#")[0].split(":")[-1])
        if any(o[:2] == "p:" for o in ops):
            bump("generic patch update -> " + tok.split("#")[0].split(":")[-1])


def tier_stats(f, variant, impl, stats):
    """the three-store chain: which delete situations the histories reached"""
    T = [set(), {}, {}]

    def bump(k):
        stats[k] = stats.get(k, 0) + 1

    bump("chain history")
    for tx, tok in zip([t for t in f[2:] if t], (impl or "").split(" ")):
        ops = tx.split(",")
        res = tok.split("#")[0]
        if len(ops) == 1 and ops[0][:2] == "r0":
            o = ops[0].split(":")[1]
            items = [i for i, r in T[1].items() if r == o and o not in ("~", "-")]
            notes = [n for n, r in T[2].items() if r in items and r not in ("~", "-")]
            if o in T[0] and items:
                mode = ("cascade" if variant & 1 else "restrict") + " over " + ("cascade" if variant & 4 else "restrict")
                bump("chain: delete of an owner with referring items, " + mode +
                     (", a reached item referenced by a note" if notes else ", no note on a reached item") + " -> " +
                     res.split(":")[-1])
        if res != "ok":
            continue
        for op in ops:
            g = op.split(":")
            lvl = int(g[0][1])
            if g[0][0] == "n":
                if lvl == 0:
                    T[0].add(g[1])
                else:
                    T[lvl][g[1]] = g[2]
            elif g[0][0] == "m":
                T[lvl][g[1]] = g[2]
            else:
                gone = [{g[1]} if lvl == 0 else set(), {g[1]} if lvl == 1 else set(), {g[1]} if lvl == 2 else set()]
                gone[1] |= {i for i, r in T[1].items() if r in gone[0]}
                gone[2] |= {n for n, r in T[2].items() if r in gone[1]}
                T[0] -= gone[0]
                for x in gone[1]:
                    T[1].pop(x, None)
                for x in gone[2]:
                    T[2].pop(x, None)


def describe(case, impl, model, spec):
    d = {"case": case, "history": pretty_case(case), "impl": impl, "model": model, "spec": spec}
    return d


# ------------------------------------------------------------------------------ known findings

# none registered.  (History: the cascade-cycle stack overflow was registered as `cascade_cycle_diverges` until /repo
# commit bda5470 repaired it — the harness still reports a non-returning delete as "diverge"; the not-found failure of
# a delete of an entity with child-store data on a reference cycle was registered as `ext_cycle_delete_notfound` until
# /repo commit 001d2d2 repaired it.)
MATCHERS = {}


# ------------------------------------------------------------------------------ shrinking

def _run(ctx, lines):
    impl, model, spec = common.run_cases(ctx, "c04", "\n".join(lines) + "\n")
    n = len(lines)
    if len(impl) != n or len(model) != n or len(spec) != n:
        return None
    return impl, model, spec


def _listed():
    return {name for name, _ in common.load_known("C04")}


def _fails(kind, a, m, s, case=None):
    if kind == "spec":
        if spec_match(blank_fine(a), s):
            return False
        info = {"impl": a, "model": m, "spec": s}
        return not any(fn(case, info) for name, fn in MATCHERS.items() if name in _listed())
    return a != m


def shrink(ctx, case, kind):
    """kind: 'spec' (impl != spec, unlisted) or 'model' (impl != model)"""
    f = case.split(" ")
    head, txs = f[:2], [t for t in f[2:] if t]
    r = _run(ctx, [case])
    if r is None or not _fails(kind, r[0][0], r[1][0], r[2][0], case):
        return case
    d = first_spec_diff(blank_fine(r[0][0]), r[2][0]) if kind == "spec" else first_diff(r[0][0], r[1][0])
    if d is not None and d[0] + 1 < len(txs):
        cut = txs[:d[0] + 1]
        rc = _run(ctx, [" ".join(head + cut)])
        if rc is not None and _fails(kind, rc[0][0], rc[1][0], rc[2][0], " ".join(head + cut)):
            txs = cut
    for _ in range(60):
        cands = []
        for i in range(len(txs)):
            if len(txs) > 1:
                cands.append(txs[:i] + txs[i + 1:])
            ops = txs[i].split(",")
            if len(ops) > 1:
                for j in range(len(ops)):
                    cands.append(txs[:i] + [",".join(ops[:j] + ops[j + 1:])] + txs[i + 1:])
        if not cands:
            break
        lines = [" ".join(head + c) for c in cands]
        r = _run(ctx, lines)
        if r is None:
            break
        nxt = None
        for i, c in enumerate(cands):
            if _fails(kind, r[0][i], r[1][i], r[2][i], lines[i]):
                nxt = c
                break
        if nxt is None:
            break
        txs = nxt
    return " ".join(head + txs)


def verbose_detail(ctx, case, a, m, s):
    vcase = _verbose(case)
    r = _run(ctx, [vcase])
    d = describe(case, a, m, s)
    if r is not None:
        d["verbose"] = {"impl": r[0][0].split(" "), "model": r[1][0].split(" "), "spec": r[2][0].split(" ")}
        fd = first_diff(r[0][0], r[1][0])
        if fd is not None:
            d["first_impl_vs_model_difference"] = {"transaction": fd[0], "impl": fd[1], "model": fd[2]}
        fs = first_spec_diff(blank_fine(r[0][0]), r[2][0])
        if fs is not None:
            d["first_impl_vs_spec_difference"] = {"transaction": fs[0], "impl": fs[1], "spec": fs[2]}
    return d


# ------------------------------------------------------------------------------ the check

def run(ctx, replay_cases=None):
    ctx.assumptions += [
        "bbolt: a bucket is a finite map with keys in bytes.Compare order, cursors walk it in that order, a failed "
        "transaction leaves no trace (rollback) — exercised on every run by the dump comparison after every transaction",
        "the cascade cursor (uniqueIndexScanner over the entities bucket, re-sought after every delete) yields exactly "
        "the still-existing, still-matching rows in key order (modelled as the sorted initial candidate list filtered "
        "at its turn; exercised by the correspondence)",
        "the three structural buckets u, u/things, u/owners are not compared (they appear with the first create)",
        "the ChildStoreUpdateHandler registered on store A by the harness hands an update of an entity with child data "
        "to the child store with the new parent values and the stored tag (user code of the wiring, not of /repo)",
        "a DeleteById that exceeds 4000 MutateContext.Tx() calls is cut off by the harness with a recoverable panic and "
        "reported as `diverge` (the model proves this never happens: cascade_terminates); without the cut-off the code "
        "before bda5470 ended in Go's fatal stack overflow (C04_NOGUARD=1 reproduces it on a reverted tree)",
    ]
    trusted = common.BASE_TRUST + [
        "Go runtime string/[]byte semantics, errors.As; bbolt (modelled, not verified)",
        "the model's reading of boltz/indexes.go and boltz/store_crud.go (re-validated against /repo's working tree by "
        "the correspondence on every run)",
    ]
    with common.Lock():
        common.build_tools(ctx)
        built = common.prove(ctx, MODULE, THEOREMS)
    if not (ctx.harness_ok and ctx.driver_ok):
        ctx.obligation("harness and model driver build against /repo", False,
                       (ctx.harness_log if not ctx.harness_ok else ctx.driver_log)[-400:])
        common.violation(ctx, "tie-broken", None,
                         {"reason": "harness or Lean driver does not build against the current tree",
                          "log": (ctx.harness_log if not ctx.harness_ok else ctx.driver_log)[-2000:]}, no_input=True)
        return common.finish(ctx, trusted_base=trusted)
    if replay_cases is not None:
        lines = list(replay_cases)
    else:
        lines = common.corpus_cases("c04") + [l for l in common.gen_cases(ctx, "c04").split("\n") if l]
    impl, model, spec = common.run_cases(ctx, "c04", "\n".join(lines) + "\n")
    n = len(lines)
    if len(impl) != n or len(model) != n or len(spec) != n:
        ctx.obligation("output streams aligned", False, f"cases {n} impl {len(impl)} model {len(model)} spec {len(spec)}")
        common.violation(ctx, "tie-broken", None,
                         {"reason": "output streams not aligned (crash?)", "cases": n, "impl": len(impl),
                          "model": len(model), "spec": len(spec), "impl_tail": impl[-2:], "model_tail": model[-2:]},
                         no_input=True)
        return common.finish(ctx, trusted_base=trusted)

    if replay_cases is not None:
        for c in lines:
            r = _run(ctx, [_verbose(c)])
            if r is not None:
                print("case:  " + c)
                print("impl:  " + r[0][0])
                print("model: " + r[1][0])
                print("spec:  " + r[2][0])
    spec_bad, corr_bad, keys = [], [], set()
    hist_ops, hist_res, ntx = {}, {}, 0
    removed_hist = {}
    situations = {}
    for i in range(n):
        c, a, m, s = lines[i], impl[i], model[i], spec[i]
        try:
            situation_stats(c, a, situations)
        except (IndexError, ValueError, KeyError):
            pass
        k = nontrivial(c, a)
        if k is not None:
            keys.add(k)
        txs = [t for t in c.split(" ")[2:] if t]
        ntx += len(txs)
        prev = (0, 0)
        for tx, tok in zip(txs, (a or "").split(" ")):
            mcnt = re.search(r"@(\d+),(\d+)$", tok)
            cur = (int(mcnt.group(1)), int(mcnt.group(2))) if mcnt else prev
            if tok.startswith("ok#") and len(tx.split(",")) == 1 and tx[:2] in ("da", "db", "dc", "d2"):
                gone = (prev[0] - cur[0]) + (prev[1] - cur[1])
                key = f"{tx[:2]} removed {gone if gone < 6 else '6+'}"
                removed_hist[key] = removed_hist.get(key, 0) + 1
            prev = cur
        for tx, r in zip(txs, results(a)):
            ops = tx.split(",")
            if r == "ok":
                for o in ops:
                    hist_ops[o[:2]] = hist_ops.get(o[:2], 0) + 1
                    hist_res[o[:2] + " ok"] = hist_res.get(o[:2] + " ok", 0) + 1
            else:
                try:
                    idx, e = r.split(":", 1)
                    o = ops[int(idx)]
                except (ValueError, IndexError):
                    o, e = "??", r
                hist_ops[o[:2]] = hist_ops.get(o[:2], 0) + 1
                hist_res[o[:2] + " " + e] = hist_res.get(o[:2] + " " + e, 0) + 1
        if not spec_match(blank_fine(a), s):
            spec_bad.append((c, a, m, s))
        if s and ("%%" in s or "?" in s):
            situations["generic: history with a delete for which the spec allows both outcomes"] = \
                situations.get("generic: history with a delete for which the spec allows both outcomes", 0) + 1
            if "?" in s.split(" "):
                situations["generic: spec undecided (more than 16 branches)"] = \
                    situations.get("generic: spec undecided (more than 16 branches)", 0) + 1
        if a != m:
            corr_bad.append((c, a, m, s))
    idxs = sorted(set([0, n // 3, n // 2, n - 1])) if n else []
    ctx.coverage.update({
        "evaluations": n,
        "transactions": ntx,
        "distinct_nontrivial": len(keys),
        "rule": RULE,
        "samples": [describe(lines[i], impl[i], model[i], spec[i]) for i in idxs],
        "impl_vs_spec_disagreements": len(spec_bad),
        "impl_vs_model_disagreements": len(corr_bad),
        "input_distribution": {"operations": hist_ops, "operation_results": hist_res,
                               "entities_removed_by_successful_single_delete": removed_hist,
                               "situations_reached": situations,
                               "schema_variants_low_bits": {str(v): sum(1 for l in lines if l.split(" ")[1:2] and l.split(" ")[1].isdigit() and int(l.split(" ")[1]) & 7 == v) for v in range(8)},
                               "schema_variants_child_fk_bits": {str(v): sum(1 for l in lines if l.split(" ")[1:2] and l.split(" ")[1].isdigit() and int(l.split(" ")[1]) >> 3 == v) for v in range(32)}},
    })
    ctx.obligation("correspondence: implementation output = model output on every generated history "
                   "(dump, survivors, related-id lists, error enum after every transaction)",
                   not corr_bad, f"{len(corr_bad)} disagreement(s)")
    universe.universe_stream(ctx, ["C04"])  # end of the generated-cases phase: the shared universe stream
    unknown = []
    for b in spec_bad:
        if common.classify(ctx, MATCHERS, b[0], {"impl": b[1], "model": b[2], "spec": b[3]}) is None:
            unknown.append(b)
    if unknown:
        c, a, m, s = common.shortest(unknown)
        small = shrink(ctx, c, "spec") if replay_cases is None else c
        r = _run(ctx, [small])
        if r is not None:
            a, m, s = r[0][0], r[1][0], r[2][0]
        common.violation(ctx, "property-fails-on-input", small,
                         dict(verbose_detail(ctx, small, a, m, s), unlisted_failing_cases=len(unknown),
                              original_case=c, more=[u[0] for u in sorted(unknown, key=lambda u: len(u[0]))[1:4]]))
    elif corr_bad:
        c, a, m, s = common.shortest(corr_bad)
        small = shrink(ctx, c, "model") if replay_cases is None else c
        r = _run(ctx, [small])
        if r is not None:
            a, m, s = r[0][0], r[1][0], r[2][0]
        if _fails("spec", a, m, s, small):
            # the shrunk history also violates the spec (it was masked by a known finding earlier in the original)
            common.violation(ctx, "property-fails-on-input", small,
                             dict(verbose_detail(ctx, small, a, m, s), disagreements=len(corr_bad), original_case=c))
        else:
            common.violation(ctx, "correspondence-broken", small,
                             dict(verbose_detail(ctx, small, a, m, s), disagreements=len(corr_bad), original_case=c,
                                  reason="implementation and Lean model disagree although the implementation still "
                                         "meets the spec on every explored input; the theorems no longer speak about "
                                         "this code"),
                             no_input=True)
    elif not built or ctx.broken:
        common.violation(ctx, "obligation-broken", None,
                         {"reason": "a proof obligation no longer checks; the search over the generated cases found no "
                                    "(unlisted) input on which the property fails",
                          "lean_errors": [l for l in getattr(ctx, "lean_log", "").splitlines() if "error" in l][:10]},
                         no_input=True)
    return common.finish(ctx, trusted_base=trusted)
