"""Decision procedure shared by C07 and C08 (one transaction / entity-event model, one harness
executor; the properties differ in theorems, generators and in what counts as non-trivial).

Case line:  E nP reg* nC reg* txl [I nIxP ixreg* nIxC ixreg*] [D nD reg* nIxD ixreg*] T ntx tx*   (see lean/StorageModel/Tx/Wire.lean)

Implementation output (per transaction):  r= same= runs= pre= pa= sync= async= ca= dump=
  * compared verbatim with the Lean engine model (run under the return table regenerated from
    boltz/store_crud.go / store.go)                                        -> correspondence
  * projected (error kind, in-transaction logs and delivery order across listeners dropped) and
    compared with the Lean spec                                             -> the property
A transaction the spec calls `unspecified` (the body went on after an operation was rejected in the
middle of its writes) ends the comparison with the spec for that case.
"""
import collections
import re

from . import common


# ------------------------------------------------------------------ case lines (for shrinking)

def parse_case(line):
    t = line.split(" ")
    pos = [0]

    def nxt():
        pos[0] += 1
        return t[pos[0] - 1]

    def reg():
        k = nxt()
        toks = [k, nxt()]
        n = int(nxt())
        items = []
        for _ in range(n):
            items.append([nxt()] if k == "l" else [nxt(), nxt()])
        return {"head": toks, "items": items}

    def fields():
        toks = [nxt()]
        n = int(nxt())
        toks.append(str(n))
        for _ in range(n):
            toks.append(nxt())
        toks.append(nxt())
        # optional blocks: G n (nseg seg* leaf)* — tags; K n id* — linked ids
        if pos[0] < len(t) and t[pos[0]] == "G":
            toks.append(nxt())
            n = int(nxt())
            toks.append(str(n))
            for _ in range(n):
                m = int(nxt())
                toks.append(str(m))
                for _ in range(m):
                    toks += [nxt(), nxt()]
                leaf = nxt()
                toks.append(leaf)
                if leaf == "s":
                    toks.append(nxt())
        if pos[0] < len(t) and t[pos[0]] == "K":
            toks.append(nxt())
            n = int(nxt())
            toks.append(str(n))
            for _ in range(n):
                toks.append(nxt())
        return toks

    def step():
        k = nxt()
        toks = [k]
        if k == "op":
            toks += [nxt(), nxt()]
            o = nxt()
            toks += [o, nxt()]
            if o in ("cr", "up"):
                toks.append(nxt())
                toks += fields()
                toks.append(nxt())
            elif o == "de":
                toks.append(nxt())
            elif o == "dw":
                q = nxt()
                toks.append(q)
                if q == "name":
                    toks.append(nxt())
        elif k in ("fail", "fail1", "ac"):
            toks.append(nxt())
        elif k == "lk":
            toks += [nxt(), nxt()]
            n = int(nxt())
            toks.append(str(n))
            for _ in range(n):
                toks.append(nxt())
        elif k == "ap":
            toks += [nxt(), nxt()]
        return toks

    def ixreg():
        # custom index-stage constraint: nveto (stage id)*
        return {"head": [], "items": [[nxt(), nxt()] for _ in range(int(nxt()))]}

    assert nxt() == "E"
    shared = False
    if t[pos[0]] == "S":
        nxt()
        shared = True
    regs_p = [reg() for _ in range(int(nxt()))]
    regs_c = [reg() for _ in range(int(nxt()))]
    txl = int(nxt())
    ix_p, ix_c = [], []
    t0 = nxt()
    if t0 == "I":
        ix_p = [ixreg() for _ in range(int(nxt()))]
        ix_c = [ixreg() for _ in range(int(nxt()))]
        t0 = nxt()
    regs_d, ix_d = [], []
    if t0 == "D":
        regs_d = [reg() for _ in range(int(nxt()))]
        ix_d = [ixreg() for _ in range(int(nxt()))]
        t0 = nxt()
    assert t0 == "T"
    txs = []
    for _ in range(int(nxt())):
        assert nxt() == "tx"
        mode, reuse = nxt(), nxt()
        if mode == "g" or mode.startswith("g:"):
            # a batch group; an observed schedule ("g:R.S1.R") is dropped: it is observed again on every run
            members = []
            for _ in range(int(nxt())):
                assert nxt() == "mb"
                fi, fp = nxt(), nxt()
                members.append({"fi": fi, "fp": fp, "steps": [step() for _ in range(int(nxt()))]})
            txs.append({"mode": "g", "reuse": reuse, "steps": [], "members": members})
            continue
        steps = [step() for _ in range(int(nxt()))]
        txs.append({"mode": mode, "reuse": reuse, "steps": steps})
    assert pos[0] == len(t)
    return {"regsP": regs_p, "regsC": regs_c, "txl": txl, "ixP": ix_p, "ixC": ix_c, "regsD": regs_d, "ixD": ix_d, "txs": txs,
            "shared": shared}


def unparse_case(c):
    out = ["E"] + (["S"] if c.get("shared") else [])
    for regs in (c["regsP"], c["regsC"]):
        out.append(str(len(regs)))
        for r in regs:
            out += r["head"] + [str(len(r["items"]))]
            for it in r["items"]:
                out += it
    out.append(str(c["txl"]))
    if c.get("ixP") or c.get("ixC"):
        out.append("I")
        for regs in (c.get("ixP", []), c.get("ixC", [])):
            out.append(str(len(regs)))
            for r in regs:
                out.append(str(len(r["items"])))
                for it in r["items"]:
                    out += it
    if c.get("regsD") or c.get("ixD"):
        out += ["D", str(len(c.get("regsD", [])))]
        for r in c.get("regsD", []):
            out += r["head"] + [str(len(r["items"]))]
            for it in r["items"]:
                out += it
        out.append(str(len(c.get("ixD", []))))
        for r in c.get("ixD", []):
            out.append(str(len(r["items"])))
            for it in r["items"]:
                out += it
    out += ["T", str(len(c["txs"]))]
    for tx in c["txs"]:
        if tx["mode"] == "g":
            out += ["tx", "g", tx["reuse"], str(len(tx["members"]))]
            for m in tx["members"]:
                out += ["mb", m["fi"], m["fp"], str(len(m["steps"]))]
                for s in m["steps"]:
                    out += s
            continue
        out += ["tx", tx["mode"], tx["reuse"], str(len(tx["steps"]))]
        for s in tx["steps"]:
            out += s
    return " ".join(out)


def shrink_candidates(c):
    import copy
    for i in range(len(c["txs"])):
        if len(c["txs"]) > 1:
            d = copy.deepcopy(c)
            del d["txs"][i]
            yield d
    for i, tx in enumerate(c["txs"]):
        for j in range(len(tx["steps"])):
            d = copy.deepcopy(c)
            del d["txs"][i]["steps"][j]
            yield d
    for i, tx in enumerate(c["txs"]):
        for k, m in enumerate(tx.get("members", [])):
            if len(tx["members"]) > 1:
                d = copy.deepcopy(c)
                del d["txs"][i]["members"][k]
                yield d
            for j in range(len(m["steps"])):
                d = copy.deepcopy(c)
                del d["txs"][i]["members"][k]["steps"][j]
                if int(m["fp"]) > j:
                    d["txs"][i]["members"][k]["fp"] = str(int(m["fp"]) - 1)
                yield d
            if m["fi"] != "0":
                d = copy.deepcopy(c)
                d["txs"][i]["members"][k]["fi"] = "0"
                d["txs"][i]["members"][k]["fp"] = "0"
                yield d
                if int(m["fi"]) > 1:
                    d = copy.deepcopy(c)
                    d["txs"][i]["members"][k]["fi"] = str(int(m["fi"]) - 1)
                    yield d
    for key in ("regsP", "regsC", "regsD", "ixP", "ixC", "ixD"):
        for i in range(len(c.get(key, []))):
            d = copy.deepcopy(c)
            del d[key][i]
            yield d
        for i, r in enumerate(c.get(key, [])):
            for j in range(len(r["items"])):
                if r["head"] and r["head"][0] == "l" and len(r["items"]) == 1:
                    continue
                d = copy.deepcopy(c)
                del d[key][i]["items"][j]
                yield d
    if c["txl"] > 0:
        d = copy.deepcopy(c)
        d["txl"] = 0
        yield d
    if c.get("shared"):
        d = copy.deepcopy(c)
        d["shared"] = False
        yield d
    for i, tx in enumerate(c["txs"]):
        for j, st in enumerate(tx["steps"]):
            if st[0] == "op" and st[2] != "-":
                d = copy.deepcopy(c)
                d["txs"][i]["steps"][j][2] = "-"
                yield d
            if st[0] == "op" and st[1] == "1":
                d = copy.deepcopy(c)
                d["txs"][i]["steps"][j][1] = "0"
                yield d
    for i, tx in enumerate(c["txs"]):
        if tx["mode"] == "b":
            d = copy.deepcopy(c)
            d["txs"][i]["mode"] = "u"
            yield d
        if tx["reuse"] == "1":
            d = copy.deepcopy(c)
            d["txs"][i]["reuse"] = "0"
            yield d


# ------------------------------------------------------------------ projections

def tx_fields(rec):
    return dict(f.split("=", 1) for f in rec.split(" ") if "=" in f)


def sort_list(v):
    if not (v.startswith("[") and v.endswith("]")):
        return v
    inner = v[1:-1]
    return "[" + ",".join(sorted(inner.split(","))) + "]" if inner else "[]"


def list_items(v):
    if not (v.startswith("[") and v.endswith("]")) or len(v) == 2:
        return []
    return v[1:-1].split(",")


def surplus(impl_rec, spec_rec):
    """callbacks (listener deliveries, constraint post-commits, tx-complete calls, commit-action runs) of a
    committed transaction that the spec does not attribute to it: since the spec lists exactly what the
    accepted changes of THIS transaction announce, anything beyond that comes from work that was undone
    (a rolled-back earlier transaction of the same context, a failed first attempt of a Batch)"""
    fa, fs = tx_fields(impl_rec), tx_fields(spec_rec)
    # as multisets, regardless of the goroutine an entry ran on
    have = collections.Counter(list_items(fa.get("sync", "[]")) + list_items(fa.get("async", "[]")))
    want = collections.Counter(list_items(fs.get("sync", "[]")) + list_items(fs.get("async", "[]")))
    return sorted((have - want).elements())


def project_tx(rec, events_on_commit=True):
    """what the properties speak about: outcome without error kind, database, deliveries as
    multisets, commit actions, tx-complete calls.  With events_on_commit=False (C07) the callbacks
    of a committed transaction are not compared (C07 only demands that a failed one runs none)."""
    f = tx_fields(rec)
    # a batch group reports one result per member: ok+err:…+ok
    r = "+".join("ok" if x == "ok" else ("err" if x.startswith("err") else x) for x in f.get("r", "?").split("+"))
    extra = " goroutines-still-running" if rec.endswith("goroutines-still-running") else ""
    if "g" in f and not events_on_commit:
        # C07 on a batch group: every call's outcome and the database; what the committed transactions deliver is
        # C08's subject (C07 only demands that nothing is delivered beyond it, see `surplus`)
        return "g=%s r=%s same=%s dump=%s%s" % (f.get("g"), r, f.get("same"), f.get("dump"), extra)
    # the property does not say on which goroutine commit actions run
    ca = sort_list(re.sub(r"(?<=[\[,])S\.", "A.", f.get("ca", "")))
    if r == "ok" and not events_on_commit:
        return "r=ok same=%s dump=%s%s" % (f.get("same"), f.get("dump"), extra)
    return "%sr=%s same=%s sync=%s async=%s ca=%s dump=%s%s" % (
        ("g=%s " % f.get("g")) if "g" in f else "", r, f.get("same"), sort_list(f.get("sync", "")), sort_list(f.get("async", "")), ca, f.get("dump"), extra)


def tx_disagreements(impl_line, spec_line, events_on_commit=True):
    """indexes of the transactions on which implementation and spec disagree (up to the first
    transaction the spec leaves unspecified); -1 for a different number of transactions"""
    a = impl_line.split(" | ")
    s = spec_line.split(" | ")
    if len(a) != len(s):
        return [-1], 0
    bad, n = [], 0
    for i, (x, y) in enumerate(zip(a, s)):
        if y == "unspecified":
            break
        n += 1
        if project_tx(x, events_on_commit) != project_tx(y, events_on_commit):
            bad.append(i)
        elif not events_on_commit and (tx_fields(x).get("r") == "ok" or "g" in tx_fields(x)) and surplus(x, y):
            # C07: "no commit action or listener runs" for failed work — a committed transaction must not
            # deliver anything that is not its own
            bad.append(i)
    return bad, n


def spec_agrees(impl_line, spec_line, events_on_commit=True):
    """-> (agrees, index of first disagreeing transaction or None, compared transactions)"""
    bad, n = tx_disagreements(impl_line, spec_line, events_on_commit)
    return (not bad), (bad[0] if bad else None), n


def drop_tx_complete(v):
    if not (v.startswith("[") and v.endswith("]")):
        return v
    return "[" + ",".join(x for x in v[1:-1].split(",") if x and not x.startswith("X.")) + "]"


def matcher_batch_no_tx_complete(case, info):
    """known finding: Db.Batch does not run the tx-complete listeners.  Matches iff EVERY disagreeing
    transaction of the case is a committed Db.Batch transaction whose only difference to the spec is
    the missing X.* (tx-complete) entries."""
    try:
        c = parse_case(case)
    except Exception:
        return False
    bad, _n = tx_disagreements(info["impl"], info["spec"], True)
    if not bad or -1 in bad or c["txl"] == 0:
        return False
    a = info["impl"].split(" | ")
    s = info["spec"].split(" | ")
    for i in bad:
        if i >= len(c["txs"]) or c["txs"][i]["mode"] != "b":
            return False
        fa, fs = tx_fields(project_tx(a[i])), tx_fields(project_tx(s[i]))
        if fa.get("r") != "ok" or fs.get("r") != "ok":
            return False
        for k in ("r", "same", "async", "ca", "dump"):
            if fa.get(k) != fs.get(k):
                return False
        if fa.get("sync") != drop_tx_complete(fs.get("sync", "")) or fs.get("sync") == fa.get("sync"):
            return False
    return True


def model_agrees(impl_line, model_line):
    """verbatim, except that a transaction the model marks `dump=inexact` (it committed after an
    operation was rejected in the middle of its writes; the entity table no longer determines the
    bucket tree) is compared without its dump and ends the comparison for that case"""
    if impl_line == model_line:
        return True
    if "dump=inexact" not in model_line:
        return False
    a = impl_line.split(" | ")
    m = model_line.split(" | ")
    if len(a) != len(m):
        return False
    for x, y in zip(a, m):
        if y.endswith("dump=inexact"):
            fx, fy = tx_fields(x), tx_fields(y)
            return all(fx.get(k) == fy.get(k) for k in ("g", "r", "runs", "seq", "pre", "pa", "sync", "async", "ca"))
        if x != y:
            return False
    return True


def failure_kinds(impl_line):
    """one outcome per transaction; a batch group contributes one per member call"""
    return [r for rec in impl_line.split(" | ") for r in tx_fields(rec).get("r", "?").split("+")]


# ------------------------------------------------------------------ batch groups: the observed schedule

def observed_schedule(rec):
    """seq=[R0.1-,S1+,R0+] of a group record -> "R.S1.R" (the order of the group's bbolt transactions)"""
    seq = tx_fields(rec).get("seq")
    if not seq or not (seq.startswith("[") and seq.endswith("]")) or len(seq) == 2:
        return None
    toks = []
    for x in seq[1:-1].split(","):
        x = x.rstrip("+-")
        if x.startswith("R"):
            toks.append("R")
        elif re.fullmatch(r"S[0-9]+", x):
            toks.append(x)
        else:
            return None
    return ".".join(toks)


def with_schedule(case_line, impl_line):
    """the case line as model and spec get it: every batch group ("tx g …") carries the order in which the
    implementation ran its bbolt transactions ("tx g:R.S1.R …") — after a failed round of a batch the solo re-run of the
    failing member and the next round compete for bbolt's writer lock; model and spec judge everything else"""
    if " tx g " not in case_line or impl_line is None:
        return case_line
    recs = impl_line.split(" | ")
    toks = case_line.split(" ")
    j = -1
    for i, t in enumerate(toks):
        if t == "tx":
            j += 1
            if i + 1 < len(toks) and toks[i + 1] == "g" and j < len(recs):
                sched = observed_schedule(recs[j])
                if sched:
                    toks[i + 1] = "g:" + sched
    return " ".join(toks)


def run_cases(ctx, prop, cases_text, timeout=3600):
    """common.run_cases, with the schedule of every batch group taken from the implementation's run"""
    lines = [l for l in cases_text.split("\n") if l]
    if not any(" tx g " in l for l in lines):
        return common.run_cases(ctx, prop, cases_text, timeout=timeout)
    impl_l = common.run_impl(ctx, prop, lines, timeout=timeout)
    aug = [with_schedule(l, impl_l[k] if k < len(impl_l) else None) for k, l in enumerate(lines)]
    data = ("\n".join(aug) + "\n").encode()
    outs = []
    for args in ([common.DRIVER], [common.DRIVER, "spec"]):
        rc, out = common.sh(args, inp=data, timeout=timeout)
        if rc != 0:
            ctx.log(f"driver exited {rc}: {out[-500:]}")
        ls = out.split("\n")
        if ls and ls[-1] == "":
            ls.pop()
        outs.append(ls)
    model_l, spec_l = outs
    impl_l = [model_l[k] if a == common.SKIPPED and k < len(model_l) else a for k, a in enumerate(impl_l)]
    return impl_l, model_l, spec_l


# ------------------------------------------------------------------ the flow

def run_flow(ctx, prop_lc, module, theorems, matchers, nontrivial, rule, table_obligations=(),
             replay_cases=None, trusted=None, events_on_commit=True):
    trusted = trusted or common.BASE_TRUST
    with common.Lock():
        common.build_tools(ctx)
        built = common.prove(ctx, module, theorems, table_obligations)
    if not (ctx.harness_ok and ctx.driver_ok):
        ctx.obligation("harness and model driver build against /repo", False,
                       (ctx.harness_log if not ctx.harness_ok else ctx.driver_log)[-400:])
        common.violation(ctx, "tie-broken", None,
                         {"reason": "harness or Lean driver does not build against the current tree",
                          "log": (ctx.harness_log if not ctx.harness_ok else ctx.driver_log)[-2000:]}, no_input=True)
        return common.finish(ctx, trusted_base=trusted)
    if replay_cases is not None:
        lines = replay_cases
    else:
        lines = common.corpus_cases(prop_lc) + [l for l in common.gen_cases(ctx, prop_lc).split("\n") if l]
    impl, model, spec = run_cases(ctx, prop_lc, "\n".join(lines) + "\n")
    n = len(lines)
    if len(impl) != n or len(model) != n or len(spec) != n:
        ctx.obligation("output streams aligned", False, f"cases {n} impl {len(impl)} model {len(model)} spec {len(spec)}")
        common.violation(ctx, "tie-broken", None,
                         {"reason": "output streams not aligned (crash?)", "cases": n, "impl": len(impl),
                          "model": len(model), "impl_tail": impl[-2:], "model_tail": model[-2:]}, no_input=True)
        return common.finish(ctx, trusted_base=trusted)

    if replay_cases is not None:
        for i in range(n):
            print("case :", lines[i])
            for name, out in (("impl ", impl[i]), ("model", model[i]), ("spec ", spec[i])):
                for j, rec in enumerate(out.split(" | ")):
                    print(f"{name} tx{j}: {rec}")
    spec_bad, corr_bad = [], []
    keys = set()
    hist = collections.Counter()
    txs = compared = unspecified = inexact = 0
    for i in range(n):
        c, a, m, s = lines[i], impl[i], model[i], spec[i]
        k = nontrivial(c, a)
        if k is not None:
            keys.add(k)
        for r in failure_kinds(a):
            hist[re.sub(r"[:.][0-9A-Z.]+$", "", r)] += 1
            txs += 1
        ok, where, cmpd = spec_agrees(a, s, events_on_commit)
        compared += cmpd
        if "unspecified" in s:
            unspecified += 1
        if "dump=inexact" in m:
            inexact += 1
        if not ok:
            spec_bad.append((c, a, m, s, where))
        elif not model_agrees(a, m):
            corr_bad.append((c, a, m, s, None))

    def describe(c, a, m, s, where=None):
        d = {"case": c, "impl": a.split(" | "), "model": m.split(" | "), "spec": s.split(" | ")}
        if with_schedule(c, a) != c:
            d["case_as_given_to_model_and_spec"] = with_schedule(c, a)
        if where is not None:
            d["first_disagreeing_transaction"] = where
            recs = a.split(" | ")
            if where < len(recs):
                d["impl_projected"] = project_tx(recs[where], events_on_commit)
                d["spec_projected"] = project_tx(s.split(" | ")[where], events_on_commit)
                if not events_on_commit:
                    d["callbacks_not_attributable_to_this_transaction"] = surplus(recs[where], s.split(" | ")[where])
        return d

    ctx.coverage.update({
        "evaluations": n,
        "transactions": txs,
        "transactions_compared_with_spec": compared,
        "cases_with_unspecified_tail": unspecified,
        "cases_with_inexact_model_tail": inexact,
        "distinct_nontrivial": len(keys),
        "rule": rule,
        "samples": [describe(lines[i], impl[i], model[i], spec[i]) for i in sorted(set([0, n // 3, n // 2, n - 1])) if 0 <= i < n],
        "outcome_histogram": dict(hist),
        "impl_vs_spec_disagreements": len(spec_bad),
        "impl_vs_model_disagreements": len(corr_bad) + len([b for b in spec_bad if not model_agrees(b[1], b[2])]),
    })
    ctx.obligation("correspondence: implementation output = model output on every generated case",
                   not corr_bad and not [b for b in spec_bad if not model_agrees(b[1], b[2])],
                   f"{len(corr_bad) + len([b for b in spec_bad if not model_agrees(b[1], b[2])])} disagreement(s)")

    unknown = []
    for b in spec_bad:
        if common.classify(ctx, matchers, b[0], {"impl": b[1], "model": b[2], "spec": b[3], "tx": b[4]}) is None:
            unknown.append(b)
    if unknown:
        c, a, m, s, where = min(unknown, key=lambda u: (len(u[0]), u[0]))
        shrunk = shrink(ctx, prop_lc, c, matchers, events_on_commit) if replay_cases is None else c
        if shrunk != c:
            a2, m2, s2 = run_cases(ctx, prop_lc, shrunk + "\n")
            ok, where2, _ = spec_agrees(a2[0], s2[0], events_on_commit)
            if not ok:
                c, a, m, s, where = shrunk, a2[0], m2[0], s2[0], where2
        common.violation(ctx, "property-fails-on-input", c,
                         dict(describe(c, a, m, s, where), unlisted_failing_cases=len(unknown),
                              more=[u[0] for u in sorted(unknown, key=lambda u: len(u[0]))[1:4]]))
    elif corr_bad:
        c, a, m, s, _ = min(corr_bad, key=lambda u: (len(u[0]), u[0]))
        common.violation(ctx, "correspondence-broken", c,
                         dict(describe(c, a, m, s), disagreements=len(corr_bad),
                              reason="implementation and Lean model disagree although the implementation still meets the spec on every explored input; the theorems no longer speak about this code"),
                         no_input=True)
    elif not built or ctx.broken:
        common.violation(ctx, "obligation-broken", None,
                         {"reason": "a proof obligation no longer checks; the search over the generated cases found no (unlisted) input on which the property fails",
                          "lean_errors": [l for l in getattr(ctx, "lean_log", "").splitlines() if "error" in l][:10]},
                         no_input=True)
    return common.finish(ctx, trusted_base=trusted)


def shrink(ctx, prop_lc, line, matchers=None, events_on_commit=True, budget=250):
    """greedy delta debugging on transactions, steps, registrations; keeps `implementation != spec`
    (and does not shrink into a case that a known finding explains)"""
    try:
        cur = parse_case(line)
    except Exception:
        return line

    def fails(cand_line):
        a, _m, s = run_cases(ctx, prop_lc, cand_line + "\n")
        if len(a) != 1 or len(s) != 1 or a[0].startswith("panic") or s[0] == "bad-case":
            return False
        ok, _w, _n = spec_agrees(a[0], s[0], events_on_commit)
        if ok:
            return False
        for name, _text in common.load_known(ctx.prop):
            fn = (matchers or {}).get(name)
            if fn is not None and fn(cand_line, {"impl": a[0], "model": _m[0] if _m else "", "spec": s[0]}):
                return False
        return True

    used = 0
    progress = True
    while progress and used < budget:
        progress = False
        for cand in shrink_candidates(cur):
            used += 1
            if used > budget:
                break
            cl = unparse_case(cand)
            if fails(cl):
                cur = cand
                progress = True
                break
    return unparse_case(cur)
