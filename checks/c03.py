"""C03 — unique and set indexes mirror entity state; uniqueness is enforced."""
from . import common
from . import c03_c06_lib as lib
from . import universe

MODULE = "StorageModel.Properties.C03"
THEOREMS = ["inv_init", "inv_step", "inv_tx", "inv_reachable", "unique_index_exact", "nullable_unique_index_exact",
            "set_index_exact", "no_empty_keys", "child_data_inside_entity", "registered_values", "indexed_values_fit",
            "oversize_rejected", "index_paths_distinct",
            "schema_index_paths_distinct", "index_paths_off_entities", "uniq_injective", "unique_holder", "dup_rejected",
            "empty_rejected", "error_changes_nothing", "step_refines_spec", "render_eq_spec", "no_panic",
            # store chains of any depth (lean/StorageModel/C03/Chain.lean, ChainInv.lean)
            "chain_inv_init", "chain_inv_step", "chain_inv_tx", "chain_inv_reachable", "chain_delete_cleans_root_and_child",
            "chain_delete_partial", "chain_unique_index_exact", "chain_set_index_exact", "chain_no_empty_keys",
            "chain_dup_rejected", "chain_empty_rejected", "chain_update_dup_rejected", "chain_error_changes_nothing",
            "deep_delete_leaves_entries", "uncovered_create_breaks_root"]

PLAIN_SCHEMA = "6e616d65+6e616d65+6e616d65+616c696173+616c696173+616c696173+726f6c6573+726f6c6573+726f6c6573+746167+746167"


def _ops(case):
    return [op for tx in case.split(" ")[-1].split("|") for op in tx.split(",")]


def chain_stats(case, impl):
    """`k` lines: three-level store chain (harness/c03_chain.go)"""
    st = {}

    def inc(k, v=1):
        st[k] = st.get(k, 0) + v

    txs = case.split(" ")[-1].split("|")
    inc("histories")
    inc("chain_histories")
    inc("transactions", len(txs))
    deep = set()
    for op in _ops(case):
        f = op.split(":")
        if f[0] == "c":
            lvl = (len(f) - 2) // 2 - 1
            inc("chain_op_create_through_level_%d" % lvl)
            if lvl == 2:
                deep.add(f[1])
        elif f[0] == "u":
            inc("chain_op_%s_through_level_%d" % ("update_full" if f[2] == "*" else "patch", (len(f) - 3) // 2 - 1))
        else:
            inc("chain_op_delete_through_level_%s" % f[2])
            if f[1] in deep:
                inc("chain_op_delete_of_id_created_through_grandchild_store")
    for r in lib.parse_records(impl) or []:
        inc("res_" + r["res"].split("@")[0].replace(":", "_"))
    return st


def stats_of(case, impl):
    if case.startswith("k "):
        return chain_stats(case, impl)
    st = {}

    def inc(k, v=1):
        st[k] = st.get(k, 0) + v

    txs = case.split(" ")[-1].split("|")
    inc("histories")
    inc("transactions", len(txs))
    inc("multi_op_transactions", sum(1 for t in txs if "," in t))
    head = case.split(" ")
    if len(head) == 4:
        parts = head[2].split(";")
        n = parts[0].split("+")
        if parts[0] != PLAIN_SCHEMA:
            inc("histories_schema_names_differ")
            if n[0] != n[1] or n[3] != n[4]:
                inc("histories_symbol_name_differs_from_key")
            if n[1] != n[2] or n[4] != n[5] or n[7] != n[8]:
                inc("histories_checker_name_differs_from_key")
        base = parts[1].split("+") if len(parts) > 1 and parts[1] != "." else (["75"] if len(parts) <= 1 else [])
        inc("histories_base_path_len_%d" % len(base))
        if len(parts) > 3 and parts[3] != "0":
            inc("histories_base_path_slice_with_spare_capacity")
        order = parts[2] if len(parts) > 2 else "nar"
        regs = [c for c in order if c in "nar"]
        inc("histories_indexes_registered_%d" % len(regs))
        if len(regs) == 3 and order != "nar":
            inc("histories_all_indexes_other_registration_order")
    structured = False
    for op in _ops(case):
        for w in op.split(":")[2:5]:
            for x in w.split("+"):
                if x not in ("~", ".", "-", "*") and all(c in "0123456789abcdef" for c in x) and len(x) % 2 == 0:
                    b = bytes.fromhex(x)
                    if any(c in b for c in b",;|+ /\x00:=#[]\"'\x05\x07") or b in (b"indexes", b"things", b"ext", b"name", b"alias", b"roles", b"tag"):
                        structured = True
    if structured:
        inc("histories_with_structured_values")
    has_ext = set()
    for op in _ops(case):
        f = op.split(":")
        k = f[0]
        if k == "c":
            inc("op_create")
        elif k == "C":
            inc("op_create_via_child")
            has_ext.add(f[1])
        elif k in "dD":
            inc("op_delete" if k == "d" else "op_delete_via_child")
            if f[1] in has_ext:
                inc("op_delete_of_entity_created_with_child_data")
        else:
            chk = f[5] if k == "u" else f[6]
            inc(("op_update_full" if chk == "*" else "op_patch") + ("_via_child" if k == "U" else ""))
            if k == "u" and f[1] in has_ext:
                inc("op_update_via_parent_of_entity_created_with_child_data")
            if chk != "*" and "n" not in chk:
                inc("op_patch_omitting_name")
            if chk != "*" and "r" not in chk:
                inc("op_patch_omitting_roles")
            if chk != "*" and any(c in chk for c in "NARTxyz"):
                inc("op_patch_naming_a_key_or_symbol_name")
    recs = lib.parse_records(impl) or []
    owner = {}        # (index, value) -> ids seen over time
    deleted_then_back = 0
    prev_ids = set()
    ever_deleted = set()
    for r in recs:
        inc("res_" + r["res"].split("@")[0].replace(":", "_"))
        ids = set()
        for item in r["reads"].split(";"):
            if item[:2] in ("n:", "a:") and not item.endswith("=~"):
                k, v = item.split("=")
                owner.setdefault(k, [])
                if not owner[k] or owner[k][-1] != v:
                    owner[k].append(v)
        for l in r["dump"]:
            p = l[2:].split("=")[0].split("/")
            if l.startswith("B:") and len(p) == 3 and p[1] == "7468696e6773":
                ids.add(p[2])
        ever_deleted |= (prev_ids - ids)
        deleted_then_back += len((ids - prev_ids) & ever_deleted)
        prev_ids = ids
    hand = sum(1 for v in owner.values() if len(set(v)) > 1)
    inc("unique_values_handed_over_between_entities", hand)
    inc("ids_recreated_after_delete", deleted_then_back)
    return st


def nontrivial(case, impl, st):
    """at least two committed transactions and (a rejected dup/null write or a value hand-over or a re-creation)"""
    if case.startswith("k "):
        return st.get("res_ok", 0) >= 2 and st.get("res_err_dup", 0) + st.get("res_err_null", 0) > 0
    return st.get("res_ok", 0) >= 2 and (st.get("res_err_dup", 0) + st.get("res_err_null", 0) > 0
                                         or st.get("unique_values_handed_over_between_entities", 0) > 0
                                         or st.get("ids_recreated_after_delete", 0) > 0)


DEEP_INDEX_PREFIXES = tuple(k + ":75/696e6465786573/7468696e6773/" + sym for k in ("B", "K") for sym in ("7532", "7332"))


def deep_level_index_entries_survive_delete(case, info):
    """a `k` history whose FIRST disagreement with the spec is: a committed transaction containing a delete,
    after which the real database holds exactly the spec's lines plus entries of the indexes u2 / s2 —
    the indexes declared by the store at depth 2 (BaseStore.DeleteById visits the constraints of the
    root and of the stores registered with it only)"""
    if not case.startswith("k "):
        return False
    ri, rs = lib.parse_records(info["impl"]), lib.parse_records(info["spec"])
    if ri is None or rs is None or len(ri) != len(rs):
        return False
    txs = case.split(" ")[-1].split("|")
    for t, (a, b) in enumerate(zip(ri, rs)):
        if lib.res_ok(a["res"], b["res"]) and set(a["dump"]) == set(b["dump"]) and a["reads"] == b["reads"]:
            continue
        if a["res"] != "ok" or b["res"] != "ok" or not any(o.startswith("d:") for o in txs[t].split(",")):
            return False
        extra, missing = set(a["dump"]) - set(b["dump"]), set(b["dump"]) - set(a["dump"])
        return bool(extra) and not missing and all(l.startswith(DEEP_INDEX_PREFIXES) for l in extra)
    return False


MATCHERS = {"deep_level_index_entries_survive_delete": deep_level_index_entries_survive_delete}

RULE = ("random histories (seeded) of 5-24 (quick) / 5-40 (thorough) transactions with 1-4 operations each over 3-4 ids, "
        "3 unique-index values (shared by name and alias) + empty/nil, 3 role values (+ rarely the empty role, rarely the blank id): "
        "create / full update / patch with every checker subset (incl. ones omitting the indexed field) / delete, a quarter "
        "of the written names deliberately taken by another entity; one third of the histories use the indexed store alone "
        "under the one-name schema, two thirds add the plain child store (creates through it, half of them over an existing "
        "plain parent entity; updates through it and through the parent; deletes through either store, half of them aimed at "
        "entities with child data) under a schema drawn from: six name variants (symbol name / stored key / caller-side checker "
        "name equal, overridden, re-keyed, both, crossed overrides, crossed keys) x base path of 1-5 elements (a sixth with a "
        "repeated element, a quarter handed to NewBaseStore as a slice with 1-3 spare capacity) x registered indexes (half "
        "name,alias,roles; a quarter all three in another order; a quarter a proper subset in some order, incl. none), a "
        "sixth of their patches naming a key or symbol name instead of the caller-side name; a third of all random histories draw "
        "their unique-index and role values (a quarter of them also the ids) from one of 16 families of structured values (a composite "
        "next to its parts: a b a,b b,a / ab ba / a;b a|b a+b 'a b' a/b a\\0b a:b a=b a#b; , a, ,a; brackets, quotes; the typed-value "
        "prefixes 0x05 0x07; the bucket and field names indexes things ext u name alias roles tag), a third of their role updates "
        "splitting a composite into its parts, merging the set into one composite or re-ordering it; every tier adds, per family, all "
        "(old set -> new set) pairs over its first 3 (quick) / 4 (thorough) members on one entity (patch / full update / through the "
        "child store) next to a second holder, and all ordered hand-overs of two members between two entities' name and alias; and 13 key-size histories: name / alias of "
        "32767, 32768, 32769 bytes (bbolt MaxKeySize = 32768) on create, update, child create, with a second entity asking for the "
        "same value afterwards, and a role of 32767 bytes; thorough adds all 111,150 histories of length <= 4 over 2 ids x 2 values with an "
        "18-letter operation alphabet and all 69,904 histories of length <= 4 over 2 ids with a 16-letter alphabet of parent / "
        "child operations under the all-names-differ schema with a three-element base path and registration order "
        "roles,alias,name; a history is non-trivial when it has >= 2 committed "
        "transactions and a rejected duplicate/empty write, a unique value handed over between entities, or an id "
        "re-created after delete; distinct = distinct case line")

ASSUMPTIONS = [
    "bbolt: a bucket is a finite map with keys in byte order, a transaction applies all of its writes or none (rollback is modelled, not verified)",
    "the entity strategy of the harness store writes name via SetString, alias via SetStringP, roles via SetStringList (after WithFieldOverrides where the schema says so) and raises no error of its own; the child strategy persists the parent's fields through GetParentContext, then its own field",
    "the schema's symbol names are pairwise distinct, as are its stored keys (the model keeps one map per index whatever the names; index_paths_distinct then makes the index bucket paths pairwise distinct)",
    "the whole-database dump is a raw recursion over the bbolt buckets with every path element encoded on its own (ids and values may contain any byte, also '/'); schema names and base path elements are letters",
    "the parent store's child-store strategy maps an entity with child data to its stored child entity with the shared fields replaced (boltz/manager_store_test.go)",
]


def run(ctx, replay_cases=None):
    return lib.history_flow(ctx, "c03", MODULE, THEOREMS, MATCHERS, RULE, stats_of, nontrivial, ASSUMPTIONS,
                            common.BASE_TRUST + ["bbolt (ordered buckets, atomic commit/rollback) — modelled, exercised by the dump comparison after every transaction"],
                            replay_cases=replay_cases,
                            post_cases=lambda c: universe.universe_stream(c, ["C03"]))
