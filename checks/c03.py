"""C03 — unique and set indexes mirror entity state; uniqueness is enforced."""
from . import common
from . import c03_c06_lib as lib

MODULE = "StorageModel.Properties.C03"
THEOREMS = ["inv_init", "inv_step", "inv_tx", "inv_reachable", "unique_index_exact", "nullable_unique_index_exact",
            "set_index_exact", "no_empty_keys", "uniq_injective", "unique_holder", "dup_rejected", "empty_rejected",
            "error_changes_nothing", "step_refines_spec", "render_eq_spec", "no_panic"]


def _ops(case):
    return [op for tx in case.split(" ")[-1].split("|") for op in tx.split(",")]


def stats_of(case, impl):
    st = {}

    def inc(k, v=1):
        st[k] = st.get(k, 0) + v

    txs = case.split(" ")[-1].split("|")
    inc("histories")
    inc("transactions", len(txs))
    inc("multi_op_transactions", sum(1 for t in txs if "," in t))
    for op in _ops(case):
        f = op.split(":")
        if f[0] == "c":
            inc("op_create")
        elif f[0] == "d":
            inc("op_delete")
        else:
            inc("op_update_full" if f[5] == "*" else "op_patch")
            if f[5] != "*" and "n" not in f[5]:
                inc("op_patch_omitting_name")
            if f[5] != "*" and "r" not in f[5]:
                inc("op_patch_omitting_roles")
    recs = lib.parse_records(impl) or []
    owner = {}        # (index, value) -> ids seen over time
    deleted_then_back = 0
    prev_ids = set()
    ever_deleted = set()
    for r in recs:
        inc("res_" + r["res"].split("@")[0].replace(":", "_"))
        ids = set()
        for item in r["reads"].split(";"):
            if item[:2] in ("n:", "a:") and not item.endswith("=~"):
                k, v = item.split("=")
                owner.setdefault(k, [])
                if not owner[k] or owner[k][-1] != v:
                    owner[k].append(v)
        for l in r["dump"]:
            p = l[2:].split("=")[0].split("/")
            if l.startswith("B:") and len(p) == 3 and p[1] == "7468696e6773":
                ids.add(p[2])
        ever_deleted |= (prev_ids - ids)
        deleted_then_back += len((ids - prev_ids) & ever_deleted)
        prev_ids = ids
    hand = sum(1 for v in owner.values() if len(set(v)) > 1)
    inc("unique_values_handed_over_between_entities", hand)
    inc("ids_recreated_after_delete", deleted_then_back)
    return st


def nontrivial(case, impl, st):
    """at least two committed transactions and (a rejected dup/null write or a value hand-over or a re-creation)"""
    return st.get("res_ok", 0) >= 2 and (st.get("res_err_dup", 0) + st.get("res_err_null", 0) > 0
                                         or st.get("unique_values_handed_over_between_entities", 0) > 0
                                         or st.get("ids_recreated_after_delete", 0) > 0)


MATCHERS = {}

RULE = ("random histories (seeded) of 5-24 (quick) / 5-40 (thorough) transactions with 1-4 operations each over 3-4 ids, "
        "3 unique-index values (shared by name and alias) + empty/nil, 3 role values (+ rarely the empty role, rarely the blank id): "
        "create / full update / patch with every checker subset (incl. ones omitting the indexed field) / delete, a quarter "
        "of the written names deliberately taken by another entity; thorough adds all 111,150 histories of length <= 4 over "
        "2 ids x 2 values with an 18-letter operation alphabet; a history is non-trivial when it has >= 2 committed "
        "transactions and a rejected duplicate/empty write, a unique value handed over between entities, or an id "
        "re-created after delete; distinct = distinct case line")

ASSUMPTIONS = [
    "bbolt: a bucket is a finite map with keys in byte order, a transaction applies all of its writes or none (rollback is modelled, not verified)",
    "the entity strategy of the harness store writes name via SetString, alias via SetStringP, roles via SetStringList and raises no error of its own",
    "ids, values and bucket names of the universe contain no '/' (boltz.Traverse builds paths by string concatenation)",
]


def run(ctx, replay_cases=None):
    return lib.history_flow(ctx, "c03", MODULE, THEOREMS, MATCHERS, RULE, stats_of, nontrivial, ASSUMPTIONS,
                            common.BASE_TRUST + ["bbolt (ordered buckets, atomic commit/rollback) — modelled, exercised by the dump comparison after every transaction"],
                            replay_cases=replay_cases)
