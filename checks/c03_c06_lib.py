"""Shared flow of the C03 / C06 checks: histories of transactions against real stores.

A case is one line  `h <vals> <tx>|<tx>|...`; implementation, model and spec each answer with one
line of `|`-separated per-transaction records `<res>#<dump>#<reads>#<extra>` (see harness/c03.go,
harness/c06.go).  Records are compared field by field after canonicalisation (dump lines sorted,
`=` expanded), so a disagreement is reported with the transaction, the field and the first bucket
line that differs.
"""
import os
import subprocess
import time
from concurrent.futures import ThreadPoolExecutor

from . import common


# ------------------------------------------------------------------------------ running

def _env():
    env = dict(os.environ, GOMEMLIMIT="8GiB")
    # bbolt fsyncs on every commit; durability is not under test, so use tmpfs when there is one
    if "VERIF_TMPDIR" in os.environ:
        env["TMPDIR"] = os.environ["VERIF_TMPDIR"]
    elif os.path.isdir("/dev/shm") and os.access("/dev/shm", os.W_OK):
        env["TMPDIR"] = "/dev/shm"
    return env


def _run(cmd, data, env=None, timeout=3600):
    p = subprocess.run(cmd, input=data, stdout=subprocess.PIPE, stderr=subprocess.PIPE, env=env, timeout=timeout)
    out = p.stdout.decode("utf-8", "replace").split("\n")
    if out and out[-1] == "":
        out.pop()
    return p.returncode, out, p.stderr.decode("utf-8", "replace")


def _chunks(lines, k):
    k = max(1, min(k, len(lines)))
    size = (len(lines) + k - 1) // k
    return [lines[i:i + size] for i in range(0, len(lines), size)] or [[]]


def run_all(ctx, prop_lc, lines, workers=4):
    """-> (impl, model, spec) lists aligned with lines (None when a stream broke)"""
    if not lines:
        return [], [], []
    env = _env()

    def job(cmd, chunk, e):
        data = ("\n".join(chunk) + "\n").encode()
        rc, out, err = _run(cmd, data, env=e)
        if rc != 0 or len(out) != len(chunk):
            ctx.log(f"{' '.join(cmd[-2:])} exited {rc}, {len(out)}/{len(chunk)} lines: {err[-400:]}")
            return None
        return out

    cs = _chunks(lines, workers if len(lines) >= 64 else 1)
    with ThreadPoolExecutor(max_workers=3 * len(cs)) as ex:
        fi = [ex.submit(job, [common.HARNESS, prop_lc, "exec"], c, env) for c in cs]
        fm = [ex.submit(job, [common.DRIVER], c, None) for c in cs]
        fs = [ex.submit(job, [common.DRIVER, "spec"], c, None) for c in cs]
        res = []
        for fl in (fi, fm, fs):
            parts = [f.result() for f in fl]
            res.append(None if any(p is None for p in parts) else [l for p in parts for l in p])
    return res


# -------------------------------------------------------------------------- record parsing

def parse_records(line):
    """-> list of dicts res/dump(list, sorted)/reads/extra; `=` dumps expanded"""
    recs = []
    prev = []
    for r in line.split("|"):
        f = r.split("#")
        if len(f) < 4:
            return None
        if f[1] == "=":
            dump = prev
        elif f[1] == ".":
            dump = []
        else:
            dump = sorted(f[1].split(","))
        prev = dump
        recs.append({"res": f[0], "dump": dump, "reads": f[2], "extra": f[3:]})
    return recs


def unhex(w):
    if w in ("-", ""):
        return b""
    try:
        return bytes.fromhex(w)
    except ValueError:
        return w.encode()


def pretty_line(l):
    """B:75/74... -> readable path"""
    kind, rest = l[:2], l[2:]
    val = None
    if "=" in rest:
        rest, val = rest.split("=", 1)
    path = "/".join(unhex(p).decode("latin-1").replace("\x05", "<str>").replace("\x07", "<nil>") for p in rest.split("/"))
    if val is None:
        return kind + path
    return kind + path + " = " + unhex(val).decode("latin-1").replace("\x05", "<str>").replace("\x07", "<nil>")


def diff_dump(a, b, na="impl", nb="model"):
    sa, sb = set(a), set(b)
    only_a = sorted(sa - sb)
    only_b = sorted(sb - sa)
    d = {}
    if only_a:
        d[f"only_in_{na}"] = [pretty_line(x) for x in only_a[:6]]
    if only_b:
        d[f"only_in_{nb}"] = [pretty_line(x) for x in only_b[:6]]
    if not d and a != b:
        d["multiplicity"] = "same line set, different multiplicities"
    return d


def res_ok(impl_res, spec_res):
    """spec result is `ok` or `err:<k1>/<k2>...@i`: any listed kind is acceptable"""
    if spec_res == "ok" or impl_res == "ok":
        return spec_res == impl_res
    if not (impl_res.startswith("err:") and spec_res.startswith("err:")):
        return False
    ik, ii = impl_res[4:].rsplit("@", 1)
    sk, si = spec_res[4:].rsplit("@", 1)
    return ii == si and ik in sk.split("/")


def compare(impl, other, spec_mode, extra_cmp=None):
    """first disagreement between the implementation's records and the model's / spec's"""
    ri, ro = parse_records(impl), parse_records(other)
    who = "spec" if spec_mode else "model"
    if ri is None or ro is None:
        return {"field": "format", "impl": impl[:300], who: other[:300]}
    if len(ri) != len(ro):
        return {"field": "record-count", "impl": len(ri), who: len(ro)}
    for t, (a, b) in enumerate(zip(ri, ro)):
        # a spec may leave a field unspecified ("-")
        if spec_mode and b["res"] == "-":
            pass
        elif (not res_ok(a["res"], b["res"])) if spec_mode else (a["res"] != b["res"]):
            return {"tx": t, "field": "result", "impl": a["res"], who: b["res"]}
        same = (set(a["dump"]) == set(b["dump"]) and len(a["dump"]) == len(set(a["dump"]))) if spec_mode else (a["dump"] == b["dump"])
        if spec_mode and b["dump"] == ["-"]:
            same = True
        if not same:
            return dict({"tx": t, "field": "dump"}, **diff_dump(a["dump"], b["dump"], "impl", who))
        if spec_mode and b["reads"] == "-":
            pass
        elif a["reads"] != b["reads"]:
            x, y = a["reads"].split(";"), b["reads"].split(";")
            dd = [(p, q) for p, q in zip(x, y) if p != q][:4]
            return {"tx": t, "field": "reads", "impl_vs_" + who: dd}
        if extra_cmp is not None:
            d = extra_cmp(a["extra"], b["extra"], spec_mode)
            if d:
                return dict({"tx": t, "field": "extra"}, **d)
        elif not spec_mode and a["extra"] != b["extra"]:
            return {"tx": t, "field": "log", "impl": a["extra"], who: b["extra"]}
    return None


# ------------------------------------------------------------------------------- shrinking

def split_case(case):
    f = case.split(" ")
    return f[:-1], [tx.split(",") for tx in f[-1].split("|")]


def join_case(head, txs):
    return " ".join(head + ["|".join(",".join(tx) for tx in txs)])


def shrink(ctx, prop_lc, case, still_bad, rounds=40):
    """greedy delta debugging over transactions and operations; still_bad(case, impl, model, spec) -> bool"""
    head, txs = split_case(case)
    for _ in range(rounds):
        cands = []
        # drop a transaction (also a suffix), drop one operation
        for i in range(len(txs)):
            cands.append(txs[:i] + txs[i + 1:])
        for i in range(1, len(txs)):
            cands.append(txs[:i])
        for i, tx in enumerate(txs):
            if len(tx) > 1:
                for j in range(len(tx)):
                    cands.append(txs[:i] + [tx[:j] + tx[j + 1:]] + txs[i + 1:])
        # split a multi-op transaction into single-op transactions
        for i, tx in enumerate(txs):
            if len(tx) > 1:
                cands.append(txs[:i] + [[o] for o in tx] + txs[i + 1:])
        cands = [c for c in cands if c]
        if not cands:
            break
        lines = [join_case(head, c) for c in cands]
        impl, model, spec = run_all(ctx, prop_lc, lines, workers=2)
        if impl is None or model is None or spec is None:
            break
        best = None
        for c, l, a, m, s in zip(cands, lines, impl, model, spec):
            if still_bad(l, a, m, s):
                if best is None or len(l) < len(best[1]):
                    best = (c, l)
        if best is None:
            break
        txs = best[0]
    return join_case(head, txs)


# ------------------------------------------------------------------------------ main flow

def history_flow(ctx, prop_lc, module, theorems, matchers, rule, stats_of, nontrivial, assumptions, trusted,
                 extra_cmp=None, extra_gen=(), replay_cases=None, workers=4, post_cases=None):
    ctx.assumptions += assumptions
    with common.Lock():
        common.build_tools(ctx)
        built = common.prove(ctx, module, theorems)
    if not (ctx.harness_ok and ctx.driver_ok):
        ctx.obligation("harness and model driver build against /repo", False,
                       (ctx.harness_log if not ctx.harness_ok else ctx.driver_log)[-400:])
        common.violation(ctx, "tie-broken", None,
                         {"reason": "harness or Lean driver does not build against the current tree",
                          "log": (ctx.harness_log if not ctx.harness_ok else ctx.driver_log)[-2000:]}, no_input=True)
        return common.finish(ctx, trusted_base=trusted)
    if replay_cases is not None:
        lines = replay_cases
    else:
        lines = common.corpus_cases(prop_lc) + [l for l in common.gen_cases(ctx, prop_lc, extra_gen).split("\n") if l]
    t0 = time.time()
    impl, model, spec = run_all(ctx, prop_lc, lines, workers=workers)
    if impl is None or model is None or spec is None:
        ctx.obligation("output streams aligned", False, "a stream broke")
        common.violation(ctx, "tie-broken", None, {"reason": "implementation, model or spec stream broke (crash?)"}, no_input=True)
        return common.finish(ctx, trusted_base=trusted)
    n = len(lines)
    spec_bad, corr_bad = [], []
    keys = set()
    hist = {}
    for i in range(n):
        c, a, m, s = lines[i], impl[i], model[i], spec[i]
        st = stats_of(c, a)
        for k, v in st.items():
            hist[k] = hist.get(k, 0) + v
        if nontrivial(c, a, st):
            keys.add(c)
        ds = compare(a, s, True, extra_cmp)
        dm = compare(a, m, False, extra_cmp)
        if ds is not None:
            spec_bad.append((c, a, m, s, ds, dm))
        elif dm is not None:
            corr_bad.append((c, a, m, s, ds, dm))
    ctx.notes.append(f"correspondence run: {round(time.time() - t0, 1)}s for {n} histories")

    def sample(i):
        recs = parse_records(impl[i]) or []
        return {"case": lines[i], "transactions": len(recs), "results": [r["res"] for r in recs][:40],
                "final_dump_lines": len(recs[-1]["dump"]) if recs else 0}

    ctx.coverage.update({
        "evaluations": n,
        "distinct_nontrivial": len(keys),
        "rule": rule,
        "samples": [sample(i) for i in sorted(set([0, n // 3, n // 2, n - 1])) if 0 <= i < n],
        "input_distribution": hist,
        "impl_vs_spec_disagreements": len(spec_bad),
        "impl_vs_model_disagreements": len(corr_bad) + len([b for b in spec_bad if b[5] is not None]),
    })
    if post_cases is not None:
        post_cases(ctx)  # end of the generated-cases phase: further streams of cases (checks/universe.py)
    ctx.obligation("correspondence: implementation = model on every transaction of every generated history "
                   "(result enum, whole-database dump bucket by bucket, index reads, listener log)",
                   not corr_bad and not [b for b in spec_bad if b[5] is not None],
                   f"{len(corr_bad) + len([b for b in spec_bad if b[5] is not None])} disagreement(s)")
    unknown = []
    for b in spec_bad:
        if common.classify(ctx, matchers, b[0], {"impl": b[1], "model": b[2], "spec": b[3], "diff": b[4]}) is None:
            unknown.append(b)
    if unknown:
        c0 = common.shortest(unknown)[0]
        def listed(l, a, m, s):
            for name, _text in common.load_known(ctx.prop):
                fn = matchers.get(name)
                if fn is not None and fn(l, {"impl": a, "model": m, "spec": s, "diff": compare(a, s, True, extra_cmp)}):
                    return True
            return False

        small = c0 if ctx.replay_mode else shrink(
            ctx, prop_lc, c0,
            lambda l, a, m, s: compare(a, s, True, extra_cmp) is not None and not listed(l, a, m, s))
        a, m, s = [x[0] for x in run_all(ctx, prop_lc, [small], workers=1)]
        common.violation(ctx, "property-fails-on-input", small,
                         {"impl_vs_spec": compare(a, s, True, extra_cmp), "impl_vs_model": compare(a, m, False, extra_cmp),
                          "impl": a[:4000], "model": m[:4000], "spec": s[:4000],
                          "unshrunk": c0, "unlisted_failing_cases": len(unknown),
                          "more": [u[0] for u in sorted(unknown, key=lambda u: len(u[0]))[1:4]]})
    elif corr_bad:
        c0 = common.shortest(corr_bad)[0]
        small = c0 if ctx.replay_mode else shrink(ctx, prop_lc, c0, lambda l, a, m, s: compare(a, m, False, extra_cmp) is not None)
        a, m, s = [x[0] for x in run_all(ctx, prop_lc, [small], workers=1)]
        common.violation(ctx, "correspondence-broken", small,
                         {"impl_vs_model": compare(a, m, False, extra_cmp), "impl": a[:4000], "model": m[:4000],
                          "unshrunk": c0, "disagreements": len(corr_bad),
                          "reason": "implementation and Lean model disagree although the implementation still meets the "
                                    "spec on every explored input; the theorems no longer speak about this code"},
                         no_input=True)
    elif not built or ctx.broken:
        common.violation(ctx, "obligation-broken", None,
                         {"reason": "a proof obligation no longer checks; the search over the generated histories found "
                                    "no (unlisted) input on which the property fails",
                          "lean_errors": [l for l in getattr(ctx, "lean_log", "").splitlines() if "error" in l][:10]},
                         no_input=True)
    return common.finish(ctx, trusted_base=trusted)
