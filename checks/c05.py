"""C05 — link collections stay symmetric; ref-counted links agree on both sides."""
from . import c05_c16_flow as flow
from . import universe

MODULE = "StorageModel.Properties.C05"
THEOREMS = ["links_symmetric", "links_point_to_existing", "link_buckets_sorted", "setlinks_exact",
            "setlinks_exact_lists", "setlinks_exact_reachable", "dedup_sort_is_the_set", "setlinks_missing",
            "addlinks_missing", "addlink_missing", "increment_missing", "setcount_missing",
            "failed_tx_changes_nothing", "rc_agree", "rc_zero_removes", "rc_set_both_sides",
            "rc_increment_both_sides", "delete_unlinks", "delete_unlinks_reachable", "model_refines_spec",
            "self_links_symmetric", "self_setlinks_exact", "self_setlinks_missing", "self_delete_unlinks",
            "self_delete_unlinks_reachable",
            # every schema (C05/Schema.lean): which stores declare which collections, child stores included
            "schema_collection_is_two_store_model", "schema_collection_refines_spec", "schema_self_collection_is_self_model", "schema_coherent",
            "schema_links_symmetric", "schema_self_links_symmetric", "schema_links_point_to_existing",
            "schema_rc_agree", "schema_setlinks_exact", "schema_setlinks_missing", "schema_delete_unlinks",
            "schema_delete_unlinks_rc", "schema_delete_succeeds_iff", "schema_delete_failure_changes_nothing",
            "schema_naming_irrelevant", "keysize_small_ids_unchanged",
            # refused deletes tolerated inside a committing transaction, restricting fk, creates through a child
            # store that persist the parent's link field (C05/Restrict.lean)
            "refused_delete_changes_no_links", "restricted_delete_refused", "tolerated_refusal_changes_nothing",
            "restrict_coherent", "restrict_collection_is_two_store_model", "restrict_links_symmetric",
            "restrict_self_links_symmetric", "restrict_rc_agree"]

LIST_FIELDS = {"cl": [3], "u": [3], "al": [3], "rl": [3], "sl": [3]}
G_LIST_FIELDS = {"cl": [4], "u": [4], "al": [4], "rl": [4], "sl": [4], "crl": [5], "cp": [4]}
G_STORE_OPS = ("c", "cl", "u", "d", "cr", "crl", "cp", "dt")


def _is_g(case):
    """schema-parametrised case lines: G, and R (G plus a restricting fk / tolerated refused deletes)"""
    return case.startswith("G ") or case.startswith("R ")


def _unhex(w):
    try:
        return "" if w == "-" else bytes.fromhex(w).decode("latin-1")
    except ValueError:
        return w


def normalise(impl):
    """what the spec speaks about: a failing call only *fails* (`!`), an uncommitted partial state
    is not described (`*`)"""
    out = []
    for tx in impl.split(" "):
        p = tx.split("|")
        if len(p) != 3:
            return impl
        res = ["!" if "!" in r else r for r in p[0].split(";")]
        out.append(";".join(res) + "|" + ("*" if p[1] else "") + "|" + p[2])
    return " ".join(out)


def nontrivial(case, impl):
    # non-trivial: some committed state of the history holds at least one link or count
    if _is_g(case):
        for tx in impl.split(" "):
            p = tx.split("|")
            if len(p) == 3 and "#D" in p[2] and "^" in p[2].split("#D", 1)[1]:
                return case
        return None
    empty = "[]" if case.startswith("S ") else "[][]"
    for tx in impl.split(" "):
        p = tx.split("|")
        if len(p) == 3 and "#" in p[2]:
            dump = p[2].split("#", 1)[1]
            if any(seg and not seg.endswith(empty) for seg in dump.split(";")):
                return case
    return None


def _head(case):
    """number of leading fields before the transactions: kind + pools"""
    return 2 if case.startswith("S ") else 4 if _is_g(case) else 3


def histogram(case, impl, h):
    f = case.split(" ")
    h["kind:" + f[0]] = h.get("kind:" + f[0], 0) + 1
    if f[0] in ("G", "R"):
        if "~" in f[1]:
            t = "schema:restricting-fk" if f[1].split("~", 1)[1] in ("AB", "BA") else "schema:no-fk"
            h[t] = h.get(t, 0) + 1
            f = [f[0], f[1].split("~", 1)[0]] + f[2:]
        colls = [] if f[1].split("@")[0] in ("-", "") else f[1].split("@")[0].split(",")
        if "@" in f[1]:
            h["schema:extended-child-store"] = h.get("schema:extended-child-store", 0) + 1
        if any("." in c and c.split(".", 1)[1].strip("0") for c in colls):
            h["schema:symbol-key-or-path-differs-from-name"] = h.get("schema:symbol-key-or-path-differs-from-name", 0) + 1
        h[f"schema-collections:{min(len(colls), 5)}"] = h.get(f"schema-collections:{min(len(colls), 5)}", 0) + 1
        kinds = {c[0] for c in colls}
        tags = []
        # per store (A, B roots; a, b child stores): which registries are filled
        plain, rc = set(), set()
        for c in colls:
            if c[0] == "s":
                plain.add((c[1].lower() if c[2] == "1" else c[1]))
            else:
                ends = ("a" if c[1] == "1" else "A", "b" if c[2] == "1" else "B")
                (plain if c[0] == "p" else rc).update(ends)
        if rc - plain:
            tags.append("schema:a-store-has-ref-counted-but-no-plain-collection")
        if plain - rc:
            tags.append("schema:a-store-has-plain-but-no-ref-counted-collection")
        if plain & rc:
            tags.append("schema:a-store-has-both-kinds")
        if any((c[0] in "pr" and "1" in c[1:]) or (c[0] == "s" and c[2] == "1") for c in colls):
            tags.append("schema:collection-on-a-child-store")
        if "s" in kinds:
            tags.append("schema:self-referential-collection")
        if len([c for c in colls if c[0] == "p"]) > 1 or len([c for c in colls if c[0] == "r"]) > 1:
            tags.append("schema:several-collections-of-one-kind")
        for t in tags:
            h[t] = h.get(t, 0) + 1
    ntx = len(f) - _head(case)
    h[f"transactions:{min(ntx, 9)}"] = h.get(f"transactions:{min(ntx, 9)}", 0) + 1
    for tx in f[_head(case):]:
        for op in tx.split(";"):
            k = "op:" + op.split(":")[0]
            h[k] = h.get(k, 0) + 1
    if f[0] == "R":
        for ctx_, itx in zip(f[_head(case):], impl.split(" ")):
            for o, r in zip(ctx_.split(";"), itx.split("|")[0].split(";")):
                if o.startswith("dt:") and "!" in r:
                    h["refused-delete-tolerated:" + r.split("!", 1)[1]] = h.get("refused-delete-tolerated:" + r.split("!", 1)[1], 0) + 1
    for tx in impl.split(" "):
        p = tx.split("|")
        for r in p[0].split(";"):
            if "!" in r:
                k = "error:" + r.split("!", 1)[1].split("(")[0]
                h[k] = h.get(k, 0) + 1
        if len(p) == 3 and p[1]:
            h["transactions-rolled-back"] = h.get("transactions-rolled-back", 0) + 1


def describe(case, impl, model, spec):
    f = case.split(" ")
    hd = _head(case)

    def op(o):
        x = o.split(":")
        out = [x[0]]
        for i, y in enumerate(x[1:], 1):
            if y in ("A", "B") and i == 1 and hd == 3:
                out.append(y)
            elif hd == 4 and (i == 1 or (x[0] not in G_STORE_OPS and i == 2) or (x[0] in ("cl", "u", "cp") and i == 3) or (x[0] == "crl" and i == 4)):
                out.append(y)
            elif hd != 4 and (x[0] == "set" and i == 4 or x[0] == "u" and i == 4):
                out.append(y)
            elif hd == 4 and (x[0] == "set" and i == 5 or x[0] == "u" and i == 5):
                out.append(y)
            else:
                out.append(",".join(_unhex(k) for k in y.split(",")) if y else "")
        return ":".join(out)
    kind = {"G": "history over the schema " + (f[1] if len(f) > 1 else "") +
                 " (p/r<ca><cb>: plain / ref-counted collection between store A or its child a and store B or its child b; s<F><c>: self-referential collection)",
            "R": "history over the schema " + (f[1] if len(f) > 1 else "") +
                 " (as G; ~AB / ~BA: restricting fk A.ref -> B / B.ref -> A; dt = DeleteById whose refusal the caller tolerates, cr/crl = Create with the fk field, cp = Create through a child store persisting the parent's link field)",
            "H": "history (two stores A <-> B)", "X": "history outside the vocabulary (two stores; compared with the model only)",
            "S": "history (one store linked with itself through the same set symbol)"}.get(f[0], f[0])
    d = {"kind": kind, "transactions": [[op(o) for o in tx.split(";")] for tx in f[hd:]],
         "impl": impl, "model": model, "spec": spec, "case": case}
    if hd == 4:
        d["schema"] = f[1]
        d["poolA"] = [_unhex(k) for k in f[2].split(",")] if f[2] else []
        d["poolB"] = [_unhex(k) for k in f[3].split(",")] if f[3] else []
    elif hd == 3:
        d["poolA"] = [_unhex(k) for k in f[1].split(",")] if f[1] else []
        d["poolB"] = [_unhex(k) for k in f[2].split(",")] if f[2] else []
    else:
        d["pool"] = [_unhex(k) for k in f[1].split(",")] if f[1] else []
    return d


MATCHERS = {}

RULE = ("each case is a history of Db.Update transactions over two real stores wired with AddLinkCollection and "
        "AddRefCountedLinkCollection on a fresh bolt file. (1) SetLinks stream: every (cur, req) with cur a subset (<=4) "
        "of the 5-symbol alphabet {a ab b ba c} and req any sequence with duplicates of length <=3 (quick) / <=5 "
        "(thorough, all 31 x 3906 pairs), entered through SetLinks or Update->SetLinkedIds, plus requests naming "
        "never-created entities; (2) random histories (2-7 transactions of 1-4 operations) of "
        "Create/Create-with-links/Update/DeleteById/AddLinks/RemoveLinks/SetLinks/AddLink/RemoveLink/Increment/"
        "Decrement/SetLinkCount/GetLinks/IsLinked/GetLinkCounts from either side over pools of 2-4 ids per side "
        "(prefix-related ids, ids with NUL, 0xff, separators; some ids never created); SetLinkCount arguments are "
        ">= 0 (the property's vocabulary is positive counts); (3) histories outside the vocabulary (negative "
        "counts, counts >= 2^31, 2^31 increments' worth of weight) are compared with the model only; (4) S-cases: "
        "ONE store whose set symbol is linked with itself (AddLinkCollection(peers, peers)), pools of 2-5 ids, "
        "random Create/Create-with-links/DeleteById/AddLinks/RemoveLinks/SetLinks/AddLink/RemoveLink/GetLinks with "
        "self links, several operations per transaction (400 quick / 8000 thorough); (5) G-cases: the SCHEMA is part "
        "of the case - two root stores A, B and a child store of each (a, b); any list of declared collections, each "
        "registered on both of its stores: plain (AddLinkCollection) or ref-counted (AddRefCountedLinkCollection) between "
        "A-or-a and B-or-b, or self-referential on any of the four stores - so a store may have no collection, only plain, "
        "only ref-counted, both, several, on the root or on the child store. Delete stream, bounded-exhaustive over "
        "the schemas: every multiset of <= 2 (quick, 90) / <= 3 (thorough, 454) of the 12 collection kinds x DeleteById "
        "through each of the 4 stores, after every collection got links / counts (incl. a self link), then re-creation; "
        "random histories (Create / Create-with-SetLinkedIds / Update / DeleteById through root or child stores, all "
        "collection operations on any declared collection) per small schema (1 quick / 12 thorough each); SIZE "
        "KEY-SIZE boundary of ids: an entity whose id has 32767 / 32768 bytes (thorough: 32766..32769) on either side "
        "of a plain / ref-counted collection, every link operation in its own transaction (a link key = type byte + id "
        "beyond bbolt's MaxKeySize is refused: the operation must fail, or succeed symmetrically), delete of the long "
        "entity; boundaries of link sets: one entity linked with n peers in a plain / ref-counted / self collection (links made from "
        "its side, or one by one from the peers' side), SetLinks from n links to a 3/5 subset plus new peers, delete of a peer "
        "and of the hub, re-creation - quick: n = 1001 (3 cases), thorough: 255/256/257/1000/1001 (7 cases each), 2048/2049 "
        "(4 each), 4097 (2); plus random "
        "schemas; NAMING of the set symbols is part of the schema: each collection end is declared with AddFkSetSymbol(name), "
        "AddFkSymbolWithKey(name, otherKey), under a path prefix (refs/name) or both (refs/deep/otherKey) - every "
        "single-collection schema in all 16 (self: 4) namings through the delete stream, a random naming for half of the "
        "collections elsewhere; the dump prints the real bucket paths; random "
        "schemas of 1-5 collections (700 / 4000); compared per transaction: presence in all four stores, the read API "
        "of both ends of every collection, the schema-aware dump. After every "
        "transaction GetLinks/IterateLinks/IsLinked/GetLinkCount(s)/rc IterateLinks (both directions) for every pool "
        "entity on both sides and the canonicalised boltz.Traverse dump are compared; after a failing operation "
        "the same view of the uncommitted state is compared with the model. (6) R-cases: G-cases plus a restricting fk "
        "between the root stores (AddNullableFkIndex, A->B or B->A), DeleteById whose refusal the caller tolerates (dt: the "
        "transaction carries on and commits), Create with the fk field set, Create through a child store whose entity "
        "strategy persists the parent's link field on GetParentContext(): refused stream (12 collection kinds x 2 fk "
        "directions x delete through root / child store of a referenced entity with links or counts, then more operations "
        "and a commit), cp stream (every subset of 3 current links x every request of <= 2 keys, 6 collection/store pairs; "
        "quick: a third), 400 / 6000 random histories; the fk field values and back-reference sets are part of the dump. "
        "non-trivial = some committed state "
        "holds a link or a count; distinct = distinct case lines")


def _g_coll_field(op):
    """index of the ':'-field of a G-case operation that names a collection, or None"""
    x = op.split(":")
    if x[0] in ("cl", "u", "cp"):
        return 3
    if x[0] == "crl":
        return 4
    if x[0] in ("c", "d", "cr", "dt"):
        return None
    return 1


def g_candidates(case):
    """G-cases: transactions / operations / keys / pool ids as usual (the schema field is kept), plus
    dropping a declared collection that no operation uses (later collections are renumbered)"""
    f = case.split(" ")
    out = [c for c in flow.history_candidates(case, lambda opc: G_LIST_FIELDS.get(opc, []), head_len=4)
           if c.split(" ")[1] == f[1] and c.split(" ")[2] and c.split(" ")[3]]
    fk = ""
    if "~" in f[1]:
        # R-cases: the fk suffix is kept on every schema variant; without fk is a candidate too
        fk = "~" + f[1].split("~", 1)[1]
        f = [f[0], f[1].split("~", 1)[0]] + f[2:]
        # (not when the history sets the fk field: cr / crl are only defined for a schema that declares the fk)
        if fk != "~-" and not any(o.split(":")[0] in ("cr", "crl") for tx in f[4:] for o in tx.split(";")):
            out.append(" ".join([f[0], f[1] + "~-"] + f[2:]))
    colls = [] if f[1] == "-" else f[1].split(",")
    ops = [o for tx in f[4:] for o in tx.split(";")]
    used = set()
    for o in ops:
        i = _g_coll_field(o)
        if i is not None:
            used.add(int(o.split(":")[i]))
    flags = ""
    if "@" in f[1]:
        flags = "@" + f[1].split("@", 1)[1]
        colls = [] if f[1].split("@", 1)[0] in ("-", "") else f[1].split("@", 1)[0].split(",")
    for j in range(len(colls)):
        # a simpler naming of collection j: plain set symbols, or one end plain
        if "." in colls[j]:
            base, v = colls[j].split(".", 1)
            alts = [base] + ([base + "." + v[0] + "0", base + ".0" + v[1]] if len(v) == 2 and "0" not in v else [])
            for alt in alts:
                out.append(" ".join([f[0], ",".join(colls[:j] + [alt] + colls[j + 1:]) + flags + fk, f[2], f[3]] + f[4:]))
    if flags:
        out.append(" ".join([f[0], (",".join(colls) if colls else "-") + fk, f[2], f[3]] + f[4:]))
    for j in range(len(colls)):
        if j in used:
            continue
        rest = colls[:j] + colls[j + 1:]

        def renum(o):
            i = _g_coll_field(o)
            if i is None:
                return o
            x = o.split(":")
            if int(x[i]) > j:
                x[i] = str(int(x[i]) - 1)
            return ":".join(x)
        txs = [";".join(renum(o) for o in tx.split(";")) for tx in f[4:]]
        out.append(" ".join([f[0], (",".join(rest) if rest else "-") + flags + fk, f[2], f[3]] + txs))
    return out


def g_large_candidates(case):
    """G-cases with very long lines (size-boundary cases: an entity with a thousand links): coarse
    candidates only, so that one shrinking round costs a handful of runs - drop a transaction, drop
    one operation of a short transaction, and for the two longest lists of the case (operations of a
    transaction, keys of an operation) keep a prefix of 1/2, 3/4, ..., 255/256 of its length or all
    but one.  Greedy descent over these reaches the smallest failing link count in a few rounds
    (e.g. 2050 -> 1025 -> 1008 -> 1004 -> 1003 -> 1002 -> 1001 behind a batch size of 1000)."""
    f = case.split(" ")
    head, txs = f[:4], f[4:]
    out = []
    for i in range(len(txs)):
        if len(txs) > 1:
            out.append(" ".join(head + txs[:i] + txs[i + 1:]))

    def cuts(n):
        return sorted({n - (n >> k) for k in range(1, 9)} | {n - 1}) if n > 1 else []
    longs = []  # (length, tx index, op index or None, field index)
    for i, tx in enumerate(txs):
        ops = tx.split(";")
        if len(ops) > 8:
            longs.append((len(ops), i, None, None))
        elif len(ops) > 1:
            for j in range(len(ops)):
                out.append(" ".join(head + txs[:i] + [";".join(ops[:j] + ops[j + 1:])] + txs[i + 1:]))
        for j, op in enumerate(ops if len(ops) <= 8 else []):
            flds = op.split(":")
            for li in G_LIST_FIELDS.get(flds[0], []):
                if li < len(flds) and flds[li].count(",") >= 8:
                    longs.append((flds[li].count(",") + 1, i, j, li))
    for n, i, j, li in sorted(longs, reverse=True)[:2]:
        ops = txs[i].split(";")
        for k in cuts(n):
            if k < 1 or k >= n:
                continue
            if j is None:
                out.append(" ".join(head + txs[:i] + [";".join(ops[:k])] + txs[i + 1:]))
            else:
                flds = ops[j].split(":")
                nf = flds[:li] + [",".join(flds[li].split(",")[:k])] + flds[li + 1:]
                out.append(" ".join(head + txs[:i] + [";".join(ops[:j] + [":".join(nf)] + ops[j + 1:])] + txs[i + 1:]))
    return out


def candidates(case):
    if case.startswith("G ") and len(case) > 3000:
        return g_large_candidates(case)
    if _is_g(case):
        return g_candidates(case)
    if case.startswith("S "):
        # one pool, no side field: key lists sit one field earlier
        return flow.history_candidates(case, lambda opc: [2] if opc in ("cl", "al", "rl", "sl") else [], head_len=2)
    return flow.history_candidates(case, lambda opc: LIST_FIELDS.get(opc, []))


def run(ctx, replay_cases=None):
    ctx.assumptions += [
        "bbolt: a bucket is a set of keys in bytes.Compare order; Db.Update commits iff the body returns nil, otherwise nothing is written (exercised by the correspondence on every run)",
        "Go string comparison and sort.Strings are the byte-wise lexicographic order (KOrd Bytes instance, proved)",
        "whether an empty link field bucket exists is not modelled (empty buckets are dropped from the dump)",
        "SetLinkCount arguments are >= 0 and the sum of SetLinkCount arguments and increments stays < 2^31 in the property's vocabulary (hypothesis InVocab of rc_agree); histories outside are compared with the model (Int32 wrap) only",
        "failing operations are followed by a rollback of their transaction (Db.Update); the model also reproduces the uncommitted partial writes",
        "extended child stores (fix c784f90): EntityDeleted returns nil when the collection's store has no entity bucket, so no modelled function depends on the Extended() flag; the harness wires it and the correspondence checks that",
        "schema-parametrised cases (G-cases): modelled by C05/Schema.lean (entity buckets of four stores, one slot of the two-store / self model per declared collection, Create/Update/DeleteById/cleanupLinks over the registries); its spec is C05/SchemaSpec.lean (one relation / count map per collection, delete removes every pair mentioning the id from every collection of the family); child stores are plain (non-extended) with a ChildStoreUpdateHandler whose mapper declines updates; G histories stay inside the count vocabulary",
        "R-cases (C05/Restrict.lean): one nullable restricting fk between the root stores (A->B or B->A, never both, no self-referring fk: then no store carries both an fkIndex and an fkDeleteConstraint and a refused delete is preceded by no write); the only failure a history carries on after is a refused DeleteById (dt); failures with partial link writes (missing link target, missing fk target) always roll back; fk targets are never the empty key",
        "self-referential wiring (S-cases, one store linked with itself through the same set symbol): modelled by C05/SelfW.lean (same state and bucket primitives, one side; EntityDeleted = fold over the collected keys, as repaired in b23d525); its spec line is the same proved model in the spec's normalised form; ref-counted self-referential collections are not in the harness universe",
    ]
    return flow.flow(ctx, "c05", MODULE, THEOREMS, MATCHERS, normalise=normalise, nontrivial=nontrivial,
                     describe=describe, rule=RULE, histogram=histogram, candidates=candidates,
                     replay_cases=replay_cases, workers=4,
                     post_cases=lambda c: universe.universe_stream(c, ["C05"]))
