"""C05 — link collections stay symmetric; ref-counted links agree on both sides."""
from . import c05_c16_flow as flow

MODULE = "StorageModel.Properties.C05"
THEOREMS = ["links_symmetric", "links_point_to_existing", "link_buckets_sorted", "setlinks_exact",
            "setlinks_exact_lists", "setlinks_exact_reachable", "dedup_sort_is_the_set", "setlinks_missing",
            "addlinks_missing", "addlink_missing", "increment_missing", "setcount_missing",
            "failed_tx_changes_nothing", "rc_agree", "rc_zero_removes", "rc_set_both_sides",
            "rc_increment_both_sides", "delete_unlinks", "delete_unlinks_reachable", "model_refines_spec",
            "self_links_symmetric", "self_setlinks_exact", "self_setlinks_missing", "self_delete_unlinks",
            "self_delete_unlinks_reachable"]

LIST_FIELDS = {"cl": [3], "u": [3], "al": [3], "rl": [3], "sl": [3]}


def _unhex(w):
    return "" if w == "-" else bytes.fromhex(w).decode("latin-1")


def normalise(impl):
    """what the spec speaks about: a failing call only *fails* (`!`), an uncommitted partial state
    is not described (`*`)"""
    out = []
    for tx in impl.split(" "):
        p = tx.split("|")
        if len(p) != 3:
            return impl
        res = ["!" if "!" in r else r for r in p[0].split(";")]
        out.append(";".join(res) + "|" + ("*" if p[1] else "") + "|" + p[2])
    return " ".join(out)


def nontrivial(case, impl):
    # non-trivial: some committed state of the history holds at least one link or count
    empty = "[]" if case.startswith("S ") else "[][]"
    for tx in impl.split(" "):
        p = tx.split("|")
        if len(p) == 3 and "#" in p[2]:
            dump = p[2].split("#", 1)[1]
            if any(seg and not seg.endswith(empty) for seg in dump.split(";")):
                return case
    return None


def _head(case):
    """number of leading fields before the transactions: kind + pools"""
    return 2 if case.startswith("S ") else 3


def histogram(case, impl, h):
    f = case.split(" ")
    h["kind:" + f[0]] = h.get("kind:" + f[0], 0) + 1
    ntx = len(f) - _head(case)
    h[f"transactions:{min(ntx, 9)}"] = h.get(f"transactions:{min(ntx, 9)}", 0) + 1
    for tx in f[_head(case):]:
        for op in tx.split(";"):
            k = "op:" + op.split(":")[0]
            h[k] = h.get(k, 0) + 1
    for tx in impl.split(" "):
        p = tx.split("|")
        for r in p[0].split(";"):
            if "!" in r:
                k = "error:" + r.split("!", 1)[1].split("(")[0]
                h[k] = h.get(k, 0) + 1
        if len(p) == 3 and p[1]:
            h["transactions-rolled-back"] = h.get("transactions-rolled-back", 0) + 1


def describe(case, impl, model, spec):
    f = case.split(" ")
    hd = _head(case)

    def op(o):
        x = o.split(":")
        out = [x[0]]
        for i, y in enumerate(x[1:], 1):
            if y in ("A", "B") and i == 1 and hd == 3:
                out.append(y)
            elif x[0] == "set" and i == 4 or x[0] == "u" and i == 4:
                out.append(y)
            else:
                out.append(",".join(_unhex(k) for k in y.split(",")) if y else "")
        return ":".join(out)
    kind = {"H": "history (two stores A <-> B)", "X": "history outside the vocabulary (two stores; compared with the model only)",
            "S": "history (one store linked with itself through the same set symbol)"}.get(f[0], f[0])
    d = {"kind": kind, "transactions": [[op(o) for o in tx.split(";")] for tx in f[hd:]],
         "impl": impl, "model": model, "spec": spec, "case": case}
    if hd == 3:
        d["poolA"] = [_unhex(k) for k in f[1].split(",")] if f[1] else []
        d["poolB"] = [_unhex(k) for k in f[2].split(",")] if f[2] else []
    else:
        d["pool"] = [_unhex(k) for k in f[1].split(",")] if f[1] else []
    return d


MATCHERS = {}

RULE = ("each case is a history of Db.Update transactions over two real stores wired with AddLinkCollection and "
        "AddRefCountedLinkCollection on a fresh bolt file. (1) SetLinks stream: every (cur, req) with cur a subset (<=4) "
        "of the 5-symbol alphabet {a ab b ba c} and req any sequence with duplicates of length <=3 (quick) / <=5 "
        "(thorough, all 31 x 3906 pairs), entered through SetLinks or Update->SetLinkedIds, plus requests naming "
        "never-created entities; (2) random histories (2-7 transactions of 1-4 operations) of "
        "Create/Create-with-links/Update/DeleteById/AddLinks/RemoveLinks/SetLinks/AddLink/RemoveLink/Increment/"
        "Decrement/SetLinkCount/GetLinks/IsLinked/GetLinkCounts from either side over pools of 2-4 ids per side "
        "(prefix-related ids, ids with NUL, 0xff, separators; some ids never created); SetLinkCount arguments are "
        ">= 0 (the property's vocabulary is positive counts); (3) histories outside the vocabulary (negative "
        "counts, counts >= 2^31, 2^31 increments' worth of weight) are compared with the model only; (4) S-cases: "
        "ONE store whose set symbol is linked with itself (AddLinkCollection(peers, peers)), pools of 2-5 ids, "
        "random Create/Create-with-links/DeleteById/AddLinks/RemoveLinks/SetLinks/AddLink/RemoveLink/GetLinks with "
        "self links, several operations per transaction (400 quick / 8000 thorough). After every "
        "transaction GetLinks/IterateLinks/IsLinked/GetLinkCount(s)/rc IterateLinks (both directions) for every pool "
        "entity on both sides and the canonicalised boltz.Traverse dump are compared; after a failing operation "
        "the same view of the uncommitted state is compared with the model. non-trivial = some committed state "
        "holds a link or a count; distinct = distinct case lines")


def candidates(case):
    if case.startswith("S "):
        # one pool, no side field: key lists sit one field earlier
        return flow.history_candidates(case, lambda opc: [2] if opc in ("cl", "al", "rl", "sl") else [], head_len=2)
    return flow.history_candidates(case, lambda opc: LIST_FIELDS.get(opc, []))


def run(ctx, replay_cases=None):
    ctx.assumptions += [
        "bbolt: a bucket is a set of keys in bytes.Compare order; Db.Update commits iff the body returns nil, otherwise nothing is written (exercised by the correspondence on every run)",
        "Go string comparison and sort.Strings are the byte-wise lexicographic order (KOrd Bytes instance, proved)",
        "whether an empty link field bucket exists is not modelled (empty buckets are dropped from the dump)",
        "SetLinkCount arguments are >= 0 and the sum of SetLinkCount arguments and increments stays < 2^31 in the property's vocabulary (hypothesis InVocab of rc_agree); histories outside are compared with the model (Int32 wrap) only",
        "failing operations are followed by a rollback of their transaction (Db.Update); the model also reproduces the uncommitted partial writes",
        "self-referential wiring (S-cases, one store linked with itself through the same set symbol): modelled by C05/SelfW.lean (same state and bucket primitives, one side; EntityDeleted = fold over the collected keys, as repaired in b23d525); its spec line is the same proved model in the spec's normalised form; ref-counted self-referential collections are not in the harness universe",
    ]
    return flow.flow(ctx, "c05", MODULE, THEOREMS, MATCHERS, normalise=normalise, nontrivial=nontrivial,
                     describe=describe, rule=RULE, histogram=histogram, candidates=candidates,
                     replay_cases=replay_cases, workers=4)
