"""Universe stream — a generic net underneath the store-level properties (C03 C04 C05 C06 C15 C09).

One shared stream of cases: the harness (`harness/shared_universe.go`, sub-command `universe gen|exec`, compiled
into every property's harness binary) draws a RANDOM MAXIMAL SCHEMA and a random history per case, wires the
schema on real stores through the exported API, and dumps the whole database after every committed transaction;
the Lean oracle `driver_universe` (`lean/StorageModel/Universe/`) decides, on schema + dump, the state predicates
that the properties' theorems establish for every reachable state; the real `CheckIntegrity(fix=false)` of every
store must agree with `C09.inconsistencies` of the dump and must not change it.  A violated predicate is a concrete
failing history; it is attributed to the owning properties (classes C03 C04 C05 C06 C15 C09, and C16 for the
system-entity predicate) and the check of an
owning property reports it, shrunk, as `property-fails-on-input`.

    universe_stream(ctx, props)      the one entry point used by checks/c03.py … c09.py

Stand-alone (used to measure what the stream finds on its own, and to replay):

    python3 checks/universe.py [--repo DIR] [--tier quick|thorough] [--seed N] [--n N]
    python3 checks/universe.py --replay FILE|CASE [--repo DIR]

Documentation: notes/UNIVERSE.md.
"""
import json
import os
import re
import shutil
import subprocess
import sys
import time
from concurrent.futures import ThreadPoolExecutor

if __package__ in (None, ""):
    sys.path.insert(0, os.path.dirname(os.path.dirname(os.path.abspath(__file__))))
    from checks import common  # noqa: E402
else:
    from . import common

CLASSES = ["C03", "C04", "C05", "C06", "C15", "C09", "C16"]
WORKERS = 4

PREDICATES = {
    "uniqueExact": "C03 unique_index_exact / nullable_unique_index_exact",
    "notNull": "C03 empty_rejected, C04 null_rejected_when_not_nullable",
    "setExact": "C03 set_index_exact",
    "noEmptyKeys": "C03 no_empty_keys",
    "fkExact": "C04 fk_inv_reachable, fk_target_exists",
    "linksSymmetric": "C05 schema_links_symmetric, schema_links_point_to_existing",
    "rcAgree": "C05 schema_rc_agree",
    "noTrace": "C06 tx_removed_no_trace, absent_no_trace",
    "explained": "C06 absent_no_trace (Render is the whole dump), C15 parent_and_child_parts_disjoint",
    "parentCovers": "C15 parent_constraints_apply_to_child_entities, invariant_for_every_path",
    "noSystem": "C16 ordinary_history_preserves_system",
    "integrityAgrees": "C09 check_sound, check_complete, check_readonly, layered_check_sound",
}


# --------------------------------------------------------------------------------------------- plumbing

def _build_driver(ctx):
    """lake build driver_universe under the lock; the binary is copied next to the run's harness"""
    with common.Lock():
        rc, out = common.sh(["lake", "build", "driver_universe"], cwd=common.LEAN)
        if rc != 0:
            return None, out
        dst = os.path.join(getattr(ctx, "run_dir", None) or common.BUILD, "driver_universe")
        shutil.copy2(os.path.join(common.LEAN, ".lake", "build", "bin", "driver_universe"), dst)
    return dst, ""


def _exec_chunk(harness, lines):
    """run `harness universe exec` over the lines; a case on which the process dies or hangs gets the outcome
    `crash …` / `hang` and the harness is started again behind it"""
    out, i = [], 0
    env = dict(os.environ, GOMEMLIMIT="4GiB", VERIF_CASE_TIMEOUT=os.environ.get("VERIF_CASE_TIMEOUT", "20"))
    while i < len(lines):
        data = ("\n".join(lines[i:]) + "\n").encode()
        try:
            p = subprocess.run([harness, "universe", "exec"], input=data, stdout=subprocess.PIPE, stderr=subprocess.PIPE,
                               timeout=1800, env=env)
            rc, text, err = p.returncode, p.stdout.decode("utf-8", "replace"), p.stderr.decode("utf-8", "replace")
        except subprocess.TimeoutExpired as e:
            rc, text, err = -9, (e.stdout or b"").decode("utf-8", "replace"), "runner timeout"
        ls = text.split("\n")
        if ls and ls[-1] == "":
            ls.pop()
        if rc == 0 and len(ls) == len(lines) - i:
            out += ls
            break
        if ls and ls[-1] == "hang" and rc == 3:
            done = ls
        else:
            ls = ls[:len(lines) - i - 1] if len(ls) >= len(lines) - i else ls
            first = next((l for l in err.splitlines() if l.startswith(("fatal error", "panic:", "runtime:"))), "")
            done = ls + ["crash " + (first or (err.strip().splitlines()[-1] if err.strip() else f"exit status {rc}"))[:200]]
        out += done
        i += len(done)
    return out


def _parallel(fn, items, workers=WORKERS):
    if not items:
        return []
    n = max(1, min(workers, len(items) // 8 or 1))
    size = (len(items) + n - 1) // n
    chunks = [items[k:k + size] for k in range(0, len(items), size)]
    with ThreadPoolExecutor(max_workers=n) as ex:
        res = list(ex.map(fn, chunks))
    return [x for r in res for x in r]


def _oracle_chunk(driver, lines):
    p = subprocess.run([driver], input=("\n".join(lines) + "\n").encode(), stdout=subprocess.PIPE, stderr=subprocess.PIPE)
    ls = p.stdout.decode("utf-8", "replace").split("\n")
    if ls and ls[-1] == "":
        ls.pop()
    if p.returncode != 0 or len(ls) != len(lines):
        ls = (ls + ["oracle-died"] * len(lines))[:len(lines)]
    return ls


def schema_of(case):
    return case.split(" @H")[0][len("U @S "):].strip()


def split_case(case):
    head, _, hist = case.partition(" @H")
    return head[len("U @S "):].split(), [tx.split(";") for tx in hist.split()]


def join_case(tokens, txs):
    return "U @S " + " ".join(tokens) + " @H " + " ".join(";".join(tx) for tx in txs if tx)


def judge_cases(harness, driver, cases):
    """-> one record per case: {results, states: [{tx, reports, same, first, verdict, classes, why}], classes, why}"""
    impl = _parallel(lambda ch: _exec_chunk(harness, ch), cases)
    recs, olines, oidx = [], [], []
    for ci, (case, out) in enumerate(zip(cases, impl)):
        rec = {"results": [], "states": [], "classes": set(), "why": []}
        recs.append(rec)
        if not out.startswith("R"):
            # panic / crash / hang / an executor complaint: no state predicate, the history itself fails
            rec["outcome"] = out[:300]
            if out.startswith(("bad-schema", "bad-case")):
                rec["invalid"] = True
            else:
                rec["classes"] = set(CLASSES)
                rec["why"].append("the history does not complete: " + out[:200])
            continue
        segs = out.split(" ;; ")
        rec["results"] = segs[0].split()[1:]
        sch = schema_of(case)
        for seg in segs[1:]:
            head, _, dump = seg.partition(" @D ")
            k, integ = head.split()[:2]
            m = re.match(r"I(\d+):(same|changed):(\S+)", integ)
            st = {"tx": int(k[1:]), "reports": int(m.group(1)), "same": m.group(2) == "same", "first": m.group(3)}
            rec["states"].append(st)
            olines.append(sch + " @D " + dump)
            oidx.append((ci, len(rec["states"]) - 1))
    verdicts = _parallel(lambda ch: _oracle_chunk(driver, ch), olines)
    for (ci, si), v in zip(oidx, verdicts):
        rec, st = recs[ci], recs[ci]["states"][si]
        st["verdict"] = v
        classes, why = set(), []
        m = re.match(r"(ok|FAIL) inc=(\d+)", v)
        if not m:
            classes, why = set(CLASSES), ["oracle: " + v[:200]]
            inc = 0
        else:
            inc = int(m.group(2))
            if m.group(1) == "FAIL":
                for item in v.split(" | ")[1:]:
                    cl, _, rest = item.partition(" ")
                    classes |= set(cl.split(","))
                    why.append(item)
        # the real integrity checker against the specification of C09 on the same dump
        first = "" if st["first"] == "-" else bytes.fromhex(st["first"]).decode("utf-8", "replace")
        if not st["same"]:
            classes.add("C09")
            why.append("C09 integrityAgrees CheckIntegrity(fix=false) changed the database")
        if st["reports"] > 0 and inc == 0:
            classes.add("C09")
            why.append(f"C09 integrityAgrees CheckIntegrity(fix=false) reports {st['reports']} error(s) on a state without "
                       f"inconsistencies, first: {first}")
        if st["reports"] == 0 and inc > 0:
            classes.add("C09")
            why.append(f"C09 integrityAgrees the state has {inc} inconsistencies, CheckIntegrity(fix=false) reports none")
        st["classes"], st["why"] = classes, why
        if classes and not rec["classes"]:
            rec["first_bad_tx"] = st["tx"]
        if classes:
            rec["why"] += [f"after tx {st['tx']}: {w}" for w in why[:6]]
        rec["classes"] |= classes
    return recs


# --------------------------------------------------------------------------------------------- shrinking

def _tokens_about(tokens, name):
    return [t for t in tokens if name in t.split(":")[1:]]


def candidates(tokens, txs):
    out = []
    for i in range(len(txs)):
        out.append((tokens, txs[:i] + txs[i + 1:]))
    for i, tx in enumerate(txs):
        if len(tx) > 1:
            for j in range(len(tx)):
                out.append((tokens, txs[:i] + [tx[:j] + tx[j + 1:]] + txs[i + 1:]))
            out.append((tokens, txs[:i] + [[o] for o in tx] + txs[i + 1:]))
    # schema elements: a store with everything that mentions it, a link collection, a constraint, a field
    stores = [t.split(":")[1] for t in tokens if t.startswith("st:")]
    for s in stores:
        rest = [t for t in tokens if s not in t.split(":")[1:]]
        if any(t.startswith("st:") for t in rest):
            out.append((rest, txs))
    for i, t in enumerate(tokens):
        f = t.split(":")
        if f[0] in ("lk", "ux", "sx", "bk", "f", "sy"):
            out.append((tokens[:i] + tokens[i + 1:], txs))
        elif f[0] in ("fi", "fc"):
            # a reference goes together with its field (and back-reference symbol): a linked field without its
            # constraint may dangle by construction, and the candidate would fail on ANY tree
            gone = {t, next((x for x in tokens if x.startswith(f"f:{f[1]}:{f[2]}:")), None)}
            if f[0] == "fi":
                gone.add(next((x for x in tokens if x.startswith(f"bk:{f[5]}:{f[6]}:")), None))
            out.append(([x for x in tokens if x not in gone], txs))
        if t == "cx:1":
            out.append((tokens[:i] + ["cx:0"] + tokens[i + 1:], txs))
    # a field in its plain naming: key = checker name = symbol name, no prefix
    for i, t in enumerate(tokens):
        f = t.split(":")
        if f[0] == "f" and (f[3] != f[2] or f[4] != "-" or f[5] != f[2]) and f[6] == "s":
            out.append((tokens[:i] + [":".join(f[:3] + [f[2], "-", f[2]] + f[6:])] + tokens[i + 1:], txs))
    return [(tk, [tx for tx in tx_ if tx]) for tk, tx_ in out]


def shrink(harness, driver, case, cls, budget=900, seconds=45):
    """greedy: drop transactions / operations / schema elements while a predicate of class `cls` still fails
    (bounded by the number of candidates tried and by wall time: a candidate that crashes the executor is slow)"""
    t_end = time.time() + seconds
    tokens, txs = split_case(case)
    rec = judge_cases(harness, driver, [case])[0]
    if cls not in rec["classes"]:
        return case, rec
    if "first_bad_tx" in rec and rec["states"]:
        bad = next((s["tx"] for s in rec["states"] if cls in s["classes"]), None)
        if bad is not None:
            txs = txs[:bad + 1]
    best = rec
    used = 0
    crashing = "outcome" in rec
    progress = True
    while progress and used < budget and time.time() < t_end:
        progress = False
        cands = [c for c in candidates(tokens, txs) if c[1]]
        # a failing candidate of a history that crashes the executor costs a restart: few at a time, first hit wins
        step = 16 if crashing else len(cands) or 1
        for k in range(0, len(cands), step):
            if used >= budget or time.time() >= t_end:
                break
            part = cands[k:k + step]
            lines = [join_case(*c) for c in part]
            recs = judge_cases(harness, driver, lines)
            used += len(lines)
            ok = [(len(l), i) for i, (l, r) in enumerate(zip(lines, recs)) if cls in r["classes"] and not r.get("invalid")]
            if ok:
                _, i = min(ok)
                tokens, txs = part[i]
                best = recs[i]
                progress = True
                break
    # drop the assignments that speak about fields the shrunk schema no longer has (the executor ignores them)
    names = {"!sys"}
    for t in tokens:
        f = t.split(":")
        if f[0] == "f":
            names.add(f[2])
        elif f[0] == "lk":
            names |= {"@" + f[4], "@" + f[8]}
    tidy = []
    for tx in txs:
        ntx = []
        for o in tx:
            f = o.split(":")
            if f[0] in ("c", "u", "p"):
                k = 4 if f[0] == "p" else 3
                if len(f) > k:
                    keep = [a for a in f[k].split(",") if a.split("=")[0] in names]
                    f[k] = ",".join(keep) or "-"
                o = ":".join(f)
            ntx.append(o)
        tidy.append(ntx)
    if tidy != txs:
        r = judge_cases(harness, driver, [join_case(tokens, tidy)])[0]
        if cls in r["classes"] and not r.get("invalid"):
            txs, best = tidy, r
    return join_case(tokens, txs), best


# --------------------------------------------------------------------------------------------- statistics

def stats(cases, recs):
    h = {"histories": len(cases), "transactions": 0, "committed_transactions": 0, "states_judged": 0, "operations": 0,
         "operations_refused": 0, "histories_reusing_one_mutate_context": 0}
    feat, ops, preds = {}, {}, {}

    def inc(d, k, v=1):
        d[k] = d.get(k, 0) + v

    for case, rec in zip(cases, recs):
        tokens, txs = split_case(case)
        kinds = [t.split(":") for t in tokens]
        roots = [k for k in kinds if k[0] == "st" and k[3] == "-"]
        childs = [k for k in kinds if k[0] == "st" and k[3] != "-"]
        inc(feat, f"root_stores_{len(roots)}")
        for k in roots:
            inc(feat, f"base_path_segments_{len(k[5].split('.'))}")
            inc(feat, f"child_stores_per_root_{sum(1 for c in childs if c[3] == k[1])}")
        for c in childs:
            inc(feat, "child_store_extended" if c[4] == "1" else "child_store_plain")
            inc(feat, f"child_data_path_segments_{len(c[5].split('.'))}")
            if c[6] == "1":
                inc(feat, "child_store_update_delegation")
        child_names = {c[1] for c in childs}
        for k in kinds:
            if k[0] == "f":
                if k[3] != k[2]:
                    inc(feat, "symbol_key_differs_from_name")
                if k[4] != "-":
                    inc(feat, "symbol_with_path_prefix")
                if k[5] != k[3]:
                    inc(feat, "checker_name_differs_from_key")
            elif k[0] == "ux":
                inc(feat, "unique_index_nullable" if k[3] == "1" else "unique_index_non_nullable")
            elif k[0] == "sx":
                inc(feat, "set_index")
            elif k[0] == "fi":
                inc(feat, "fk_index_cascade" if k[4] == "1" else ("fk_index_nullable" if k[3] == "1" else "fk_index_non_nullable"))
                if k[1] == k[5]:
                    inc(feat, "fk_self_reference")
            elif k[0] == "fc":
                inc(feat, ("fk_constraint_cascade_delete" if k[4] == "d" else "fk_constraint_cascade_none")
                    + ("_nullable" if k[3] == "1" else ""))
                if k[1] == k[5]:
                    inc(feat, "fk_self_reference")
            elif k[0] == "lk":
                inc(feat, "link_collection_ref_counted" if k[2] == "r" else "link_collection_plain")
                if k[3] == k[7]:
                    inc(feat, "link_collection_self_one_symbol" if k[4] == k[8] else "link_collection_self_two_symbols")
                if k[3] in child_names or k[7] in child_names:
                    inc(feat, "link_collection_on_child_store")
                if k[5] != k[4] or k[6] != "-" or k[9] != k[8] or k[10] != "-":
                    inc(feat, "link_symbol_key_or_prefix_variant")
            elif k[0] == "sy":
                inc(feat, "system_entity_constraint")
            if k[0] in ("ux", "sx", "fi", "fc") and k[1] in child_names:
                inc(feat, "constraint_declared_on_child_store")
            if k[0] in ("fi", "fc") and k[5] in child_names:
                inc(feat, "fk_target_is_child_store")
        if "cx:1" in tokens:
            h["histories_reusing_one_mutate_context"] += 1
        h["transactions"] += len(txs)
        for tx in txs:
            seen = {}
            for o in tx:
                f = o.split(":")
                inc(ops, f[0] + ("_via_child_store" if f[0] in "cupdw" and len(f) > 1 and f[1] in child_names else ""))
                if f[0] in ("c", "d"):
                    seen.setdefault(f[2], []).append(f[0])
            if any("".join(v).count("dc") for v in seen.values()):
                inc(ops, "tx_delete_then_recreate_same_id")
            if any("dcd" in "".join(v) for v in seen.values()):
                inc(ops, "tx_delete_recreate_delete_same_id")
        for r in rec["results"]:
            _, flag, res = r.split(":")
            if flag == "c":
                h["committed_transactions"] += 1
            for x in res.split(","):
                h["operations"] += 1
                if x not in ("ok", "skip"):
                    h["operations_refused"] += 1
                    inc(ops, "refused_" + x)
        n_states = len(rec["states"])
        h["states_judged"] += n_states
        n = {k0: sum(1 for k in kinds if k[0] == k0) for k0 in ("ux", "sx", "fi", "fc", "st")}
        n_lkp = sum(1 for k in kinds if k[0] == "lk" and k[2] == "p")
        n_lkr = sum(1 for k in kinds if k[0] == "lk" and k[2] == "r")
        for name, per in (("uniqueExact", n["ux"]), ("setExact", n["sx"]), ("noEmptyKeys", n["sx"]), ("fkExact", n["fi"] + n["fc"]),
                          ("notNull", sum(1 for k in kinds if k[0] in ("ux", "fi", "fc") and k[3] == "0")),
                          ("linksSymmetric", n_lkp), ("rcAgree", n_lkr), ("noTrace", 1), ("explained", 1),
                          ("noSystem", sum(1 for k in kinds if k[0] == "sy")),
                          ("parentCovers", len(childs)), ("integrityAgrees", n["st"])):
            inc(preds, name, per * n_states)
    return h, feat, ops, preds


# --------------------------------------------------------------------------------------------- entry points

def _gen(harness, tier, seed, n=None):
    env = dict(os.environ)
    if n:
        env["VERIF_UNIVERSE_N"] = str(n)
    p = subprocess.run([harness, "universe", "gen", "-tier", tier, "-seed", str(seed)], stdout=subprocess.PIPE,
                       stderr=subprocess.PIPE, env=env)
    if p.returncode != 0:
        raise SystemExit("harness universe gen failed: " + p.stderr.decode()[-2000:])
    return [l for l in p.stdout.decode().split("\n") if l]


def run_stream(harness, driver, tier, seed, n=None, log=print):
    t0 = time.time()
    cases = _gen(harness, tier, seed, n)
    recs = judge_cases(harness, driver, cases)
    h, feat, ops, preds = stats(cases, recs)
    failing = [(c, r) for c, r in zip(cases, recs) if r["classes"]]
    by_class = {cl: sum(1 for _, r in failing if cl in r["classes"]) for cl in CLASSES}
    block = dict(h, schema_features=feat, operation_kinds=ops, predicates_evaluated=preds,
                 predicate_theorems=PREDICATES, failing_histories=len(failing), failing_histories_by_class=by_class,
                 wall_s=round(time.time() - t0, 2))
    return cases, recs, failing, block


def universe_stream(ctx, props):
    """run the shared universe stream inside the check of a property; report what belongs to `props`"""
    if ctx.replay_mode or not getattr(ctx, "harness_ok", False):
        return
    t0 = time.time()
    driver, log = _build_driver(ctx)
    if driver is None:
        ctx.obligation("universe stream: the oracle driver builds", False, log[-400:])
        ctx.coverage["universe_stream"] = {"error": "driver_universe does not build"}
        return
    harness = common.HARNESS
    try:
        cases, recs, failing, block = run_stream(harness, driver, ctx.tier, ctx.seed)
    except SystemExit as e:
        ctx.obligation("universe stream: the generator runs", False, str(e)[-400:])
        ctx.coverage["universe_stream"] = {"error": str(e)[-400:]}
        return
    block["classes_reported_by_this_check"] = list(props)
    if cases:
        block["sample"] = cases[len(cases) // 2][:1500]
    ctx.coverage["universe_stream"] = block
    for cl in props:
        mine = [(c, r) for c, r in failing if cl in r["classes"]]
        if not mine:
            continue
        c0, r0 = min(mine, key=lambda cr: (len(cr[0]), cr[0]))
        small, rec = shrink(harness, driver, c0, cl)
        common.violation(ctx, "property-fails-on-input", small, {
            "stream": "universe", "class": cl, "failed_predicates": rec["why"][:12],
            "transaction_results": rec["results"], "outcome": rec.get("outcome"),
            "states": [{"after_tx": s["tx"], "verdict": s.get("verdict", "")[:1500], "integrity_reports": s["reports"],
                        "integrity_first_report": "" if s["first"] == "-" else bytes.fromhex(s["first"]).decode("utf-8", "replace"),
                        "check_only_left_database_unchanged": s["same"]} for s in rec["states"] if s["classes"]][:3],
            "unshrunk": c0, "failing_histories_of_this_class": len(mine),
            "replay_universe": f"python3 {os.path.abspath(__file__)} --replay <this file>"
                               + (f" --repo {common.REPO}" if os.path.realpath(common.REPO) != "/repo" else ""),
        })
    block["wall_s_with_shrinking"] = round(time.time() - t0, 2)
    ctx.notes.append(f"universe stream: {block['histories']} histories, {block['states_judged']} states judged, "
                     f"{block['failing_histories']} failing, {block['wall_s_with_shrinking']}s")


def _standalone_build(repo):
    """harness from the shared files only, against `repo`"""
    run_dir = os.path.join(common.BUILD, f"run-universe-{os.getpid()}")
    os.makedirs(run_dir, exist_ok=True)
    hdir = os.path.join(common.VERIF, "harness")
    modfile = os.path.join(run_dir, "go.mod")
    open(modfile, "w").write(open(os.path.join(hdir, "go.mod")).read().replace("=> /repo", "=> " + os.path.realpath(repo)))
    shutil.copy(os.path.join(repo, "go.sum"), os.path.join(run_dir, "go.sum"))
    harness = os.path.join(run_dir, "harness")
    files = [f for f in common.harness_files("universe")]
    rc, out = common.sh(["go", "build", "-modfile", modfile, "-tags", "verif", "-o", harness, *files], cwd=hdir, env=common.GOENV)
    if rc != 0:
        shutil.rmtree(run_dir, ignore_errors=True)
        raise SystemExit("harness does not build:\n" + out[-3000:])
    return run_dir, harness


def main():
    import argparse
    ap = argparse.ArgumentParser()
    ap.add_argument("--repo", default=os.environ.get("VERIF_REPO", "/repo"))
    ap.add_argument("--tier", default="quick", choices=["quick", "thorough"])
    ap.add_argument("--seed", type=int, default=int(os.environ.get("VERIF_SEED", "1") or "1"))
    ap.add_argument("--n", type=int)
    ap.add_argument("--replay")
    ap.add_argument("--no-shrink", action="store_true")
    a = ap.parse_args()

    class C:
        run_dir = None
    with common.Lock():
        run_dir, harness = _standalone_build(a.repo)
    C.run_dir = run_dir
    try:
        driver, log = _build_driver(C)
        if driver is None:
            raise SystemExit("driver_universe does not build:\n" + log[-3000:])
        if a.replay:
            case = a.replay
            if os.path.exists(case):
                case = json.load(open(case))["case"]
            rec = judge_cases(harness, driver, [case])[0]
            print("results:", " ".join(rec["results"]), rec.get("outcome", ""))
            for s in rec["states"]:
                print(f"after tx {s['tx']}: integrity reports {s['reports']} {'same' if s['same'] else 'CHANGED'}; {s.get('verdict', '')[:2000]}")
            print("classes:", sorted(rec["classes"]))
            for w in rec["why"]:
                print("  ", w)
            return 1 if rec["classes"] else 0
        cases, recs, failing, block = run_stream(harness, driver, a.tier, a.seed, a.n)
        print(json.dumps({k: v for k, v in block.items() if k not in ("predicate_theorems",)}, indent=1, sort_keys=True))
        memo = {}
        for cl in CLASSES:
            mine = [(c, r) for c, r in failing if cl in r["classes"]]
            if not mine:
                continue
            c0, r0 = min(mine, key=lambda cr: (len(cr[0]), cr[0]))
            if c0 in memo and cl in memo[c0][1]["classes"]:
                small, rec = memo[c0]
            else:
                small, rec = (c0, r0) if a.no_shrink else shrink(harness, driver, c0, cl)
                memo[c0] = (small, rec)
            print(f"UNIVERSE-FAIL class={cl} histories={len(mine)}")
            print("  case:", small)
            for w in rec["why"][:5]:
                print("   ", w)
        return 1 if failing else 0
    finally:
        shutil.rmtree(run_dir, ignore_errors=True)


if __name__ == "__main__":
    sys.exit(main())
