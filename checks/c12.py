"""C12 — boolean connectives group as written: parentheses, precedence, case, spacing.

The model follows the code after fix c2dd0be (listener re-association); the obligations
`parser_numbers_match_grammar`, `parser_is_greedy`, `listener_is_repaired`, `transform_is_plain`,
`keywords_are_expected` pin what /verif/extract regenerates from zitiql_parser.go, ZitiQl.g4,
ast/bolt_listener.go and the typing / evaluation functions of package ast (node_convert.go, node_expr.go,
helper.go, node_query.go).

Own flow (composed from the pieces of common.py): the implementation line `ok <typed tree> <truth
values>` is compared *whole* with the model of the generated parser + listener (correspondence: the
tree shape must agree, not only the truth table) and by status + truth values only with the spec
(the property is about results; the intended reading does not prescribe how a chain is nested).
"""
import re

from . import common

MODULE = "StorageModel.Properties.C12"
THEOREMS = [
    # regenerated-data obligations
    "parser_numbers_match_grammar", "parser_is_greedy", "listener_is_repaired", "transform_is_plain",
    "keywords_are_expected",
    # the model on every token list
    "parse_render", "parse_sound", "stack_discipline", "pipeline_reads", "typed_pipeline_reads",
    # the typed tree (after TypeTransformBool): a bracketing of the written text, both operands kept
    "typed_tree_is_a_bracketing", "regrouped_operands_both_kept", "typed_not_negates",
    # round 8: the typed class of the operand where not / and / or meet it (regenerated class table of package ast)
    "operand_classes_are_bool_nodes", "operand_classes_complete", "connective_classes_are_bool_nodes",
    "declared_type_is_not_the_criterion", "typedC_eq", "operand_accepted_iff_bool_node",
    "typed_not_negates_any_operand_class", "connectives_accept_every_bool_operand_class",
    "declared_type_check_rejects_a_bool_node",
    # the property, clause by clause
    "and_over_or", "and_over_or_both_orders", "paren_groups", "paren_content_only_by_value", "chain_assoc",
    "not_paren_negates", "redundant_parens", "redundant_parens_same_tree", "respell_invariant",
    "respelled_query_same_result",
    # the spec itself, and the executable reader used by the driver
    "spec_is_dnf", "readTokens_render", "accept_agree",
    # the listener of the pinned tree: what was wrong before fix c2dd0be
    "pinned_listener_violates", "pinned_listener_exact", "pinned_listener_fails_exactly",
]
TABLE_OBLIGATIONS = [
    "parser_numbers_match_grammar (Generated/Grammar.lean: Precpred / boolExpr(k) numbers of zitiql_parser.go vs. "
    "ANTLR's numbering of the boolExpr alternatives of ZitiQl.g4)",
    "parser_is_greedy (every level at which boolExpr is entered is <= both operator precedences)",
    "listener_is_repaired (Generated/Grammar.lean: bodies of ToBoltListener.ExitAndExpr / ExitOrExpr / ExitNotExpr / "
    "ExitGroup in ast/bolt_listener.go are the forms the model interprets; `.grouped` is mentioned exactly twice)",
    "transform_is_plain (Generated/Grammar.lean: signature + body of BooleanLogicExprNode.TypeTransformBool, "
    "UntypedNotExprNode.TypeTransformBool, AndExprNode / OrExprNode / NotExprNode.EvalBool, transformTypes, "
    "transformBools, PostProcess, untypedQueryNode.TypeTransformBool in package ast are the forms `transform` / "
    "`T.eval` follow: one typed node per untyped node, no rewrite of the tree)",
    "keywords_are_expected (AND OR NOT TRUE FALSE are the case-insensitive letter fragments)",
    "operand_classes_are_bool_nodes / operand_classes_complete / connective_classes_are_bool_nodes / "
    "declared_type_is_not_the_criterion (Generated/C10Classes.lean, regenerated from ast/*.go: the structs a typed "
    "operand of not / and / or can be are exactly the non-transitory structs implementing BoolNode; "
    "BinaryFloat64ExprNode is one of them and is the only one whose GetType() is not bool / any)",
]


# ----------------------------------------------------------------------------- skeleton helpers

def _unhex(w):
    return b"" if w == "-" else bytes.fromhex(w)


_WORD = re.compile(r"[A-Za-z][A-Za-z_]*")


def spelled_skeleton(text):
    """compact skeleton of a spelled r-case text (placeholders x<letter>_<variant>)"""
    out, i = [], 0
    while i < len(text):
        c = text[i]
        if c in " \t\r\n":
            i += 1
        elif c in "()":
            out.append(c)
            i += 1
        else:
            m = _WORD.match(text, i)
            if not m:
                return None
            w = m.group(0)
            lw = w.lower()
            if lw == "and":
                out.append("&")
            elif lw == "or":
                out.append("|")
            elif lw == "not":
                out.append("!")
            elif lw == "true":
                out.append("T")
            elif lw == "false":
                out.append("F")
            elif len(w) == 4 and w[0] == "x" and w[2] == "_":
                out.append(w[1])
            else:
                return None
            i = m.end()
    return "".join(out)


def inner_case(case):
    """`D <case>`: the case run under ast.EnableQueryDebug = true"""
    return case[2:] if case.startswith("D ") else case


def case_skeleton(case):
    f = inner_case(case).split(" ")
    if f[0] == "k":
        return f[2]
    if f[0] == "r":
        return spelled_skeleton(_unhex(f[2]).decode("latin-1"))
    if f[0] == "x":
        return spelled_skeleton(_unhex(f[1]).decode("latin-1"))
    return None  # c-cases (typed class of an atom) have no skeleton


def and_then_or(sk):
    """has an `and` with an unparenthesised `or` to its right on the same level (a `not` starts a
    new level: it takes the rest)?  Mirrors `W.ordered` of StorageModel/C12/Spec.lean (negated)."""
    if sk is None:
        return False
    stack = [False]
    for c in sk:
        if c == "(":
            stack.append(False)
        elif c == ")":
            if len(stack) > 1:
                stack.pop()
        elif c == "!":
            stack[-1] = False
        elif c == "&":
            stack[-1] = True
        elif c == "|":
            if stack[-1]:
                return True
    return False


def canonical(sk):
    names = {"&": "and", "|": "or", "!": "not", "T": "true", "F": "false", "z": "strz"}
    out = []
    for i, c in enumerate(sk):
        tok = c if c in "()" else names.get(c, "p" + c)
        if i > 0 and c != ")" and sk[i - 1] != "(":
            out.append(" ")
        out.append(tok)
    return "".join(out)


def result_only(line):
    """status + truth values (drops the tree)"""
    if line is None:
        return None
    f = line.split(" ")
    if f[0] == "ok" and len(f) == 3:
        return "ok " + f[2]
    return line


# ----------------------------------------------------------------------------- check interface

# no finding is listed for C12 any more (fixed by c2dd0be); `and_then_or` is kept for the input histogram
MATCHERS = {}


def nontrivial(case, impl):
    sk = case_skeleton(case)
    if sk is None or not impl.startswith("ok"):
        return None
    kinds = sum(1 for k in "&|!(" if k in sk)
    if kinds >= 2:
        f = inner_case(case).split(" ")
        return (("D" if case.startswith("D ") else "") + f[0], sk if f[0] == "k" else f[2])
    return None


def real_text(spelled_hex):
    """the query text the executor parses for a spelled case (placeholders replaced by the atom spellings)"""
    try:
        rc, out = common.sh([common.HARNESS, "c12", "exec"], inp=("S " + spelled_hex + "\n").encode(), timeout=60)
        f = out.strip().split(" ")
        if rc == 0 and len(f) == 2 and f[0] == "text":
            return _unhex(f[1]).decode("latin-1")
    except Exception:
        pass
    return None


def describe(case, impl, model, spec):
    f = inner_case(case).split(" ")
    d = {"case": case, "impl": impl, "model": model, "spec": spec}
    if case.startswith("D "):
        d["configuration"] = "executed with ast.EnableQueryDebug.Store(true); must answer as with the switch off"
    if f[0] == "k":
        d.update(kind="skeleton: ast.Parse + typed tree (Visitor) + EvalBool over all assignments",
                 query=canonical(f[2]), atoms=int(f[1]))
    elif f[0] == "c":
        d.update(kind="typed class of an operation atom: Go struct of the typed predicate + constant its GetType() reports, "
                      "compared with the class table of the Lean driver / the regenerated class table (model only)",
                 atom=f[1])
    elif f[0] == "x":
        d.update(kind="damaged spelling: accept/reject + EvalBool over the row table, model only",
                 text_with_placeholders=_unhex(f[1]).decode("latin-1"), query=real_text(f[1]), atom_truth=f[2])
    elif f[0] == "r":
        d.update(kind="re-spelling: ast.Parse + EvalBool over the row table (14 rows; rows 9-14 have NULL / absent "
                      "fields: 9 n; 10 s; 11 n,s,flag,g; 12 flag; 13 g; 14 n,s; `tags` is empty on rows 3,6,8,10,11,13)",
                 base_skeleton=f[1], spelled_with_placeholders=_unhex(f[2]).decode("latin-1"), query=real_text(f[2]),
                 placeholders="x<letter>_<v>: spelling v (a canonical, b compact + upper case, c one blank in every gap, "
                              "d tab/CR/LF in every gap, e..z random whitespace / keyword case in every place the grammar "
                              "has WS* / WS+) of operation atom <letter>, see harness/c12_atoms.go (c12SpellAtom)",
                 spelled_skeleton=spelled_skeleton(_unhex(f[2]).decode("latin-1")), atom_truth=f[3])
    return d


RULE = ("k: every token sequence over {atom ( ) and or not} up to length 5 (quick) / 7 (thorough); every "
        "well-formed skeleton with (atoms, <=parens, <=nots) in {(1,2,2),(2,2,2),(3,2,2),(4,2,1)} (quick; of the 4-atom "
        "skeletons those with two pairs of parentheses and a not are sampled 1 in 3) / "
        "{(1,3,3),(2,3,3),(3,3,3),(4,2,2),(5,2,1)} (thorough), atoms distinct, all 2^n assignments; constants, a "
        "string-typed symbol, repeated atoms; 200 / 5000 random skeletons with 5-8 atoms; large skeletons (49 / ~250 "
        "cases, atom occurrence i = symbol i mod m or a neutral constant except at marked positions, m <= 8, all 2^m "
        "assignments): chains of one connective with 33, 34, 40 (quick) / 33..66, 129 (thorough) operands on one level, "
        "each operand bare / in redundant parentheses / `(not x)`; alternating and/or chains of 16 / 18-22 operands; "
        "the same spines of 65, 130 / 33..400 operands written with explicit right or left nesting; bushy trees with "
        "2-8 operands per level and up to 256 / 512 parenthesised leaves; 33, 65, 129 / 32..400 pairs of redundant "
        "parentheses, also with `not` in front of every (second) pair, around an atom / and / or / mixed core and as an "
        "operand; right- and left-nested alternating and/or trees of 33, 100, 130 / 33..400 atoms; related operands: every "
        "ordered pair of bracketings of one sequence of 3..4 (quick) / 3..5 (thorough) atoms x every connective "
        "sequence x {and, or} (3 atoms: also negated / with parentheses left out), constants next to a string-typed "
        "symbol, 900 / 8000 random members with 3-8 atoms per operand (the same sequence grouped in two ways, "
        "identical, mirrored, distant, part-whole, one atom or connective different, under not, nested, constants / "
        "string-typed symbol inside, some parentheses left out), all 2^n assignments of the distinct atoms; 200 / "
        "1500 of that family over operation atoms as r-cases.  r: operation atoms (bool symbols, =, !=, <, <=, >, >= on "
        "int / string / bool / datetime fields, = / != null, in, between, contains, icontains and their not-forms over "
        "numbers, strings and datetime(...) literals, anyOf / allOf / count / isEmpty on a set field, count / isEmpty of a "
        "sub-query `from kids where ...`; round 8: comparisons typed as float64 - a float64 field against a decimal / "
        "an integer literal (>, <=, !=, =), an int64 field against a literal with a decimal point (=, <, >=) - float "
        "between / not between / in; 49 atoms covering every struct a typed operand can be except AnyTypeSymbolNode "
        "(c-cases: the struct and GetType() of each atom's typed node), each a template over the places where ZitiQl.g4 has WS* / WS+ / one "
        "WS and over its case-insensitive keywords, 26 spellings each: canonical, compact + upper case, a blank in every "
        "gap, tab/CR/LF in every gap, 22 random - inside `datetime( ... )`, between `not` and in/between/contains, around "
        "commas and brackets, inside `anyOf( x )`, `count( from x where ... )`, around comparison operators; every "
        "placeholder of every r / x case takes a random spelling) over a 14-row table in which every scalar field is present-true, "
        "present-false and NULL / absent on some row and the set is empty on some rows; atom truth computed by the "
        "generator from the row (null operand: comparison false, != / not contains true); negated atoms: every atom in "
        "21 shapes (a, not a, not (a), (not (a)), not not a, not (not (a)), not ((a)), b and not a, a or (not (a)), "
        "not (a and b), not a and b, (not (a)) and (not (b)), ...) x 1 / 8 rounds of spellings; 1800 / 46000 random "
        "re-spellings (keyword case, blanks/tabs/CR/LF, 0-3 redundant pairs of parentheses, operator-case and "
        "spacing variants inside the atoms) of random mixed queries with 1-5 operation atoms.  "
        "D: 234 / 2524 of the k and r cases executed a second time with ast.EnableQueryDebug = true (process-wide "
        "configuration; stderr / log to /dev/null; same outcome required).  "
        "c: the 49 atoms, typed class observed by reflection.  "
        "x: 1500 / 40000 damaged spellings (required blank removed, word split/glued, parenthesis dropped/doubled, "
        "reserved or keyword-like word as atom, `not` + blank + in…/contains…) compared with the lexer model only.  "
        "non-trivial = accepted and mixes at least two of {and, or, not, parentheses}; distinct = (kind, skeleton "
        "/ spelled text)")

TRUSTED = common.BASE_TRUST + [
    "the ANTLR runtime and the generated lexer/parser are represented by the precedence-climbing model "
    "(StorageModel/C12/Skel.lean) and the lexer fragment (StorageModel/C12/Lex.lean): agreement is checked on "
    "every run (typed tree + truth table), not proved",
    "extract/grammar.go's reading of ZitiQl.g4, of boolExpr(_p int) in zitiql_parser.go, of the listener methods and "
    "of the typing / evaluation functions of package ast (text comparison with the forms the model interprets)",
]


def run(ctx, replay_cases=None):
    ctx.assumptions += [
        "atoms are opaque: an operation (`n = 3`, `s contains \"x\"`) behaves like a boolean symbol with respect to "
        "the surrounding connectives (both are primary alternatives of boolExpr); exercised by the r-cases, in which "
        "the atom values per row come from the generator's own reading of the row (incl. NULL fields and empty sets), "
        "so `not (P)` is checked against whatever P evaluates to, not against a complementary operator",
        "the generated parser hands every operator the rest of its level as right operand; the grouping is restored "
        "by the listener (ExitGroup marks parenthesised nodes, ExitAndExpr re-associates) - both parts are modelled",
        "where not / and / or meet an operand the code decides by the interface assertion operand.(BoolNode) on the "
        "TYPED operand (bodies pinned); the model takes the struct of every typed atom as a parameter and reads "
        "BoolNode membership / GetType() from the class table regenerated from ast/*.go; the struct the driver assumes "
        "for each atom of the r-cases is compared with the real typed node on every run (c-cases)",
        "after the listener the tree is only typed node by node (BooleanLogicExprNode / UntypedNotExprNode "
        "TypeTransformBool: one And/Or/Not node per untyped node); the bodies are pinned by the extractor",
        "the prefix `not` is the loosest operator (last alternative of boolExpr: its operand is the rest of its "
        "level); the property text only fixes `not (P)` on its own",
        "input is within the lexical fragment of Lex.lean (letters, underscore, blanks, tab, CR, LF, parentheses) "
        "for the lexer-level theorem; other characters are C10's / C11's subject",
    ]
    with common.Lock():
        common.build_tools(ctx)
        built = common.prove(ctx, MODULE, THEOREMS, TABLE_OBLIGATIONS)
    if not (ctx.harness_ok and ctx.driver_ok):
        ctx.obligation("harness and model driver build against /repo", False,
                       (ctx.harness_log if not ctx.harness_ok else ctx.driver_log)[-400:])
        common.violation(ctx, "tie-broken", None,
                         {"reason": "harness or Lean driver does not build against the current tree",
                          "log": (ctx.harness_log if not ctx.harness_ok else ctx.driver_log)[-2000:]},
                         no_input=True)
        return common.finish(ctx, trusted_base=TRUSTED)
    if replay_cases is not None:
        lines = replay_cases
    else:
        lines = common.corpus_cases("c12") + [l for l in common.gen_cases(ctx, "c12").split("\n") if l]
    impl, model, spec = common.run_cases(ctx, "c12", "\n".join(lines) + "\n")
    n = len(lines)
    if len(impl) != n or len(model) != n or len(spec) != n:
        ctx.obligation("output streams aligned", False, f"cases {n} impl {len(impl)} model {len(model)} spec {len(spec)}")
        common.violation(ctx, "tie-broken", None,
                         {"reason": "output streams not aligned (crash?)", "cases": n, "impl": len(impl),
                          "model": len(model), "impl_tail": impl[-3:], "model_tail": model[-3:]}, no_input=True)
        return common.finish(ctx, trusted_base=TRUSTED)

    spec_bad, corr_bad, keys = [], [], set()
    hist = {"k_cases": 0, "r_cases": 0, "x_cases": 0, "D_cases": 0, "c_cases": 0, "other_error": 0, "accepted": 0, "parse_error": 0, "type_error": 0,
            "accepted_with_and_then_or": 0, "by_atoms": {}, "model_vs_spec_differ": 0}
    for i in range(n):
        c, a, m, s = lines[i], impl[i], model[i], spec[i]
        k = nontrivial(c, a)
        if k is not None:
            keys.add(k)
        f = c.split(" ")
        hist[f[0] + "_cases"] += 1
        if a.startswith("ok"):
            hist["accepted"] += 1
            if and_then_or(case_skeleton(c)):
                hist["accepted_with_and_then_or"] += 1
            if f[0] == "k":
                hist["by_atoms"][f[1]] = hist["by_atoms"].get(f[1], 0) + 1
        elif a == "parse-error":
            hist["parse_error"] += 1
        elif a == "type-error":
            hist["type_error"] += 1
        else:
            hist["other_error"] += 1
        if s != "any" and result_only(m) != result_only(s):
            hist["model_vs_spec_differ"] += 1
        if s != "any" and result_only(a) != result_only(s):
            spec_bad.append((c, a, m, s))
        elif a != m:
            corr_bad.append((c, a, m, s))
    # sanity of the driver with respect to theorem `pipeline_reads` (model = spec on every skeleton)
    ms_bad = [lines[i] for i in range(n) if spec[i] != "any" and result_only(model[i]) != result_only(spec[i])]
    ctx.obligation("driver: model result = spec result on every generated case (theorem pipeline_reads, executed)",
                   not ms_bad, f"{len(ms_bad)} exception(s) {ms_bad[:3]}")
    ncorr = len(corr_bad) + len([b for b in spec_bad if b[1] != b[2]])
    ctx.coverage.update({
        "evaluations": n,
        "distinct_nontrivial": len(keys),
        "rule": RULE,
        "samples": [describe(lines[i], impl[i], model[i], spec[i]) for i in sorted(set([0, n // 3, n // 2, n - 1])) if 0 <= i < n],
        "impl_vs_spec_disagreements": len(spec_bad),
        "impl_vs_model_disagreements": ncorr,
        "input_distribution": hist,
    })
    ctx.obligation("correspondence: implementation output (typed tree + truth values) = model output on every generated case",
                   ncorr == 0, f"{ncorr} disagreement(s)")
    unknown = []
    for b in spec_bad:
        if common.classify(ctx, MATCHERS, b[0], {"impl": b[1], "model": b[2], "spec": b[3]}) is None:
            unknown.append(b)
    listed = [t for _, t in common.load_known(ctx.prop)]
    for t in listed:
        if t not in ctx.known_hits and replay_cases is None:
            ctx.notes.append(f"listed finding did not reproduce in this run (candidate for `fixed:`): {t}")
    if unknown:
        c, a, m, s = min(unknown, key=lambda u: (len(case_skeleton(u[0]) or u[0]), len(u[0]), u[0]))
        common.violation(ctx, "property-fails-on-input", c,
                         dict(describe(c, a, m, s), unlisted_failing_cases=len(unknown),
                              more=[u[0] for u in sorted(unknown, key=lambda u: len(u[0]))[1:6]]))
    elif corr_bad:
        c, a, m, s = min(corr_bad, key=lambda u: (len(case_skeleton(u[0]) or u[0]), len(u[0]), u[0]))
        common.violation(ctx, "correspondence-broken", c,
                         dict(describe(c, a, m, s), disagreements=len(corr_bad),
                              reason="implementation and Lean model disagree (tree shape or acceptance) although the "
                                     "implementation still meets the spec on every explored input; the theorems no "
                                     "longer speak about this code"),
                         no_input=True)
    elif not built or ctx.broken:
        common.violation(ctx, "obligation-broken", None,
                         {"reason": "a proof obligation no longer checks; the search over the generated cases found "
                                    "no (unlisted) input on which the property fails",
                          "lean_errors": [l for l in getattr(ctx, "lean_log", "").splitlines() if "error" in l][:10]},
                         no_input=True)
    return common.finish(ctx, trusted_base=TRUSTED)
