"""C06 — a committed delete leaves no trace of the entity's id."""
from . import common
from . import c03_c06_lib as lib
from . import universe

MODULE = "StorageModel.Properties.C06"
THEOREMS = ["inv_init", "inv_step", "inv_tx", "inv_reachable", "absent_no_trace", "delete_no_trace",
            "delete_no_trace_owner", "cascade_no_trace", "boss_cascade_no_trace", "tx_removed_no_trace", "delete_terminates", "restrict_refuses", "no_fk_names_absent", "delete_forgets", "recreate_fresh", "recreate_accepted_iff", "recreate_absent_accepted_iff",
            "recreate_as_if_never_existed", "child_create_over_parent_reindexes", "child_create_over_parent_no_trace",
            "child_create_empty_name_rejected", "rc_and_child_links_no_trace", "cascade_witness", "cycle_witness", "extended_child_witness", "self_link_witness", "naming_variant_witness", "chief_witness",
            "alias_index_key_is_stored_bytes", "code_index_key_is_stored_bytes", "typed_variant_witness",
            "delete_no_trace_partial", "grandchild_delete_leaves_trace", "recreate_fresh_partial", "grandchild_recreate_meets_stale_entry"]

A_IDS = {"61", "62", "63", "64", "65"}


def _txs(case):
    return [tx.split(",") for tx in case.split(" ")[-1].split("|")]


def stats_of(case, impl):
    st = {}

    def inc(k, v=1):
        st[k] = st.get(k, 0) + v

    txs = _txs(case)
    if case.startswith("g "):
        inc("g_histories")
        inc("g_cfg_reg_" + (case.split(" ")[1].split("/")[4].replace(".", "none")))
        for tx in txs:
            for op in tx:
                inc("g_op_" + op[:2])
    inc("histories")
    inc("transactions", len(txs))
    inc("multi_op_transactions", sum(1 for t in txs if len(t) > 1))
    for tx in txs:
        for op in tx:
            f = op.split(":")
            inc("op_" + f[0])
            if f[0] == "ua" and f[8] != "*":
                inc("op_ua_patch")
            if f[0] == "cc" and f[9] != ".":
                inc("op_cc_with_child_owned_links")
            if f[0] in ("ca", "ua", "cc", "c2", "u2") and f[6] not in ("~", "-"):
                inc("op_with_dep")
            if f[0] == "u2" and f[9] != "*":
                inc("op_u2_patch")
            nb = {"ca": 8, "ua": 9, "cc": 10, "c2": 9, "u2": 10}.get(f[0])
            if nb is not None and len(f) > nb and f[nb] not in ("~", "-"):
                inc("op_with_boss")
                if f[nb] == f[1]:
                    inc("op_with_boss_self")
    recs = lib.parse_records(impl) or []
    live = set()
    ever_deleted = set()
    for tx, r in zip(txs, recs):
        inc("res_" + r["res"].split("@")[0].replace(":", "_"))
        if len(tx) == 1 and tx[0][:2] in ("c2", "u2", "d2", "cc", "dc"):
            inc("single_" + tx[0][:2] + "_" + r["res"].split("@")[0].replace(":", "_"))
        d = r["extra"][0] if r["extra"] else "."
        if d != ".":
            for item in d.split(","):
                inc("deletes_validated")
                inc("verdict_" + item.split("=")[1].replace("/", "_"))
            gone_a = [item for item in d.split(",") if item.split("=")[0] in A_IDS]
            if len(tx) == 1 and tx[0][:3] in ("da:", "dc:", "d2:") and len(gone_a) > 1:
                inc("boss_cascades")
                inc("boss_cascade_victims_%d" % (len(gone_a) - 1))
        ids = set()
        for l in r["dump"]:
            p = l[2:].split("=")[0].split("/")
            if l.startswith("B:") and len(p) == 3 and p[1] in ("7468696e6773", "6f776e657273"):
                ids.add(p[2])
        gone = live - ids
        ever_deleted |= gone
        inc("ids_recreated_after_delete", len((ids - live) & ever_deleted))
        # what the deleted entity was entangled in just before (previous dump)
        live = ids
    return st


def nontrivial(case, impl, st):
    """at least one committed delete was validated after at least three other committed transactions"""
    return st.get("deletes_validated", 0) >= 1 and st.get("res_ok", 0) >= 4


def _g_leftovers_ok(case, info):
    """three-level chain, G not registered with the root: after a committed delete the only lines that still mention the
    id are entries of indexes / link sets / back-reference sets DECLARED BY G (level 2); implementation = model"""
    f = case.split(" ")
    if len(f) != 3 or f[0] != "g":
        return False
    cfg = f[1].split("/")
    if len(cfg) != 5 or "r" in cfg[4]:
        return False          # G reachable from the root: nothing may stay
    if lib.compare(info["impl"], info["model"], False, extra_cmp) is not None:
        return False
    recs = lib.parse_records(info["impl"])
    if not recs:
        return False
    allowed = ("K:75/696e6465786573/6e6f646573/7532/", "K:75/696e6465786573/6e6f646573/7332/")
    seen = False
    for r in recs:
        d = r["extra"][0] if r["extra"] else "."
        if d == ".":
            continue
        for item in d.split(","):
            idw, verdict = item.split("=")
            if verdict == "ok/clean":
                continue
            hits = 0
            for l in r["dump"]:
                body, _, val = l[2:].partition("=")
                elems = body.split("/")
                if not (idw in elems or "05" + idw in elems or val in (idw, "05" + idw)):
                    continue
                ok = l.startswith(allowed) or (l.startswith("K:75/6f776e657273/") and len(elems) == 5 and elems[3] in ("6d32", "7232"))
                if not ok:
                    return False      # a trace outside G's own declarations: a violation
                hits += 1
            if hits == 0:
                return False
            seen = True
    return seen


MATCHERS = {"grandchild-delete-fanout": _g_leftovers_ok}


def extra_cmp(a, b, spec_mode):
    if a != b:
        return {"deleted_ids_impl": a, ("deleted_ids_spec" if spec_mode else "deleted_ids_model"): b}
    return None


RULE = ("random histories (seeded) of 6-25 (quick) / 6-41 (thorough) transactions with 1-4 operations each over stores "
        "A (3-6 ids, one of them byte-equal to an id of B), its plain child store A1, its EXTENDED child store A2 and B "
        "(3 ids); every third history under the naming variant of the schema (case prefix h1: symbol name, stored key and "
        "caller-side checker name of name / alias differ, roles and colour have their own checker names; patches name fields "
        "by the caller-side names), every sixth under the TYPED variant (case prefix h2: the unique indexes are over non-string symbols - "
        "alias int64, code int32, colour float64, label int32; a value v is stored as the number with the little-endian digits v, "
        "the index reads go through the 8- / 4-byte encodings; an empty v is the number 0 and is indexed): create A / create through A1 with 0-2 child-owned links / create through A2 with a colour (a fifth resp. "
        "a quarter of the child-store creates over an existing parent) / update and patch through A (23 checker subsets of "
        "name, alias, roles, owner, dep, groups, boss, chief) and through A2 (12 subsets incl. colour; a tenth without ext2 data) / "
        "delete through A, A1 or A2 / boss self references: half of the written entities name a boss (an existing entity, "
        "itself, rarely a missing one), so chains, self loops and longer cycles arise and deletes cascade over them; a quarter "
        "name a chief (restricting self reference: another entity sorting before or after, or the entity itself), so deletes "
        "are refused while referenced and after the chief fields are patched away they pass; "
        "1 transaction in 16 is 'delete x, create x again under boss y, delete y' / ref-counted link increments, "
        "decrements and SetLinkCount 0-3 (10 % of the operations) / AddLinks, RemoveLinks, SetLinks on A.peers (A linked "
        "with itself through one symbol; a third of the key lists contain the entity itself) and SetLinks on A.mentors (two "
        "symbols) (6 %); 1 transaction in 12 writes the self-link buckets of x once or twice and deletes x / create, update, delete B (restricted while referenced "
        "through owner, cascading to the dependants through dep, whose own boss cascades run inside it); owners, deps, "
        "groups, pals and bosses mostly existing, sometimes missing; every history ends in a delete in its own transaction, "
        "half of the time of an entity somebody reports to; after every committed transaction boltz.ValidateDeleted and an "
        "independent byte scan of the dump run for every entity id that existed before it and not after it (cascade "
        "victims included); ids are re-created constantly (small universe); non-trivial = at least one validated committed "
        "delete after >= 3 other committed transactions; distinct = distinct case line; PLUS 500 (quick) / 5000 (thorough) histories "
        "(case prefix g) over THREE-LEVEL chains of stores A -> C -> G (plain child stores; every level declaring a random subset of "
        "nullable unique index / set index / link collection / nullable fk index; G registered with C, with the root, with both or "
        "not at all): 4-12 single-operation transactions (creates, updates and patches with random field checkers, deletes through "
        "each of the three stores, re-creations), ending in a delete; compared: result, every key/value line and the entity / data "
        "bucket lines of the dump, ValidateDeleted + byte scan of the FULL dump for every deleted id")

ASSUMPTIONS = [
    "bbolt: buckets are finite maps, a transaction applies all of its writes or none (modelled)",
    "ids are not byte-confusable with bucket names, stored values or other ids (hypothesis NoClash of the no-trace theorems; "
    "evaluated by the driver for every validated delete; true of the generated universe: ids a-e p / p-r, values x y zq m nq, in the typed variant their zero-padded 8- / 4-byte forms under the type bytes 3 / 2 / 4). "
    "That no stored reference (owner, dep, boss) names the absent id is NOT part of the hypothesis: it is proved",
    "the recursion of the cascading delete is bounded by a fuel of (number of A entities + 1) in the model; that it never "
    "runs out in a consistent state is a theorem (delete_terminates)",
    "SetLinks is modelled by its effect (remove what is not requested, add what is missing); its merge loop is C05's subject",
]


def run(ctx, replay_cases=None):
    return lib.history_flow(ctx, "c06", MODULE, THEOREMS, MATCHERS, RULE, stats_of, nontrivial, ASSUMPTIONS,
                            common.BASE_TRUST + ["bbolt (ordered buckets, atomic commit/rollback) — modelled, exercised by the dump comparison after every transaction"],
                            extra_cmp=extra_cmp, replay_cases=replay_cases,
                            post_cases=lambda c: universe.universe_stream(c, ["C06"]))
