"""C13 — stored values and compound keys round-trip.

Flow (common.standard_flow composed by hand because the spec is a set of demands, not a full
output line): the implementation line and the model line must be equal (correspondence: every
getter of every field, GetAndSet observations, error class, raw dump of the bucket tree, encoded
compound key bytes); every token of the spec line (what the property demands to be read back) must
occur among the implementation's tokens.

Case kinds: k / d / j compound keys, e entity scripts on one TypedBucket, h entity writes through derived
contexts (GetParentContext / WithFieldOverrides / GetOrCreatePath) on a real parent / child store pair,
tm / tu time.Time.MarshalBinary / UnmarshalBinary against their transcription in the model.
"""
import hashlib
import re

from . import common

MODULE = "StorageModel.Properties.C13"
THEOREMS = [
    "uvarint_roundtrip",
    "compound_roundtrip",
    "compound_injective",
    "compound_rejects",
    "decodeNext_rejects_over_limit",
    "decodeNext_accepts_limit",
    "string_roundtrip",
    "stringP_roundtrip",
    "nil_distinct",
    "int32_roundtrip",
    "int32_widens",
    "int64_roundtrip",
    "float64_roundtrip",
    "bool_roundtrip",
    "time_roundtrip",
    "timeP_roundtrip",
    "time_roundtrip_representation_irrelevant",
    "time_write_never_fails_on_zone",
    "marshal_refuses_minute_west",
    "marshal_refuses_exactly",
    "marshal_unmarshal_same_instant",
    "value_time_representation_irrelevant",
    "container_time_representation_irrelevant",
    "time_in_containers_roundtrip",
    "scalar_write_succeeds",
    "strlist_write_succeeds",
    "strlist_roundtrip",
    "strlist_sorted_dupfree",
    "value_roundtrip",
    "map_roundtrip",
    "list_roundtrip",
    "put_succeeds",
    "normalize_lookup",
    "normalize_sorted",
    "checker_unselected_noop",
    "write_touches_only_its_key",
    "persist_touches_only_selected",
    "persist_selected_reads_back",
    "mapped_checker_selects",
    "reserved_key_breaks_roundtrip",
    "strlist_overwrite_roundtrip",
    "strlist_twice",
    "list_overwrite_roundtrip",
    "map_overwrite_roundtrip",
    "string_overwrite_roundtrip",
    "unselected_overwrite_keeps",
    "list_key_order_below_256",
    "list_key_order_breaks_at_256",
    "cursor_walk_breaks_roundtrip",
    "parent_context_inherits",
    "checker_restricts_parent_context",
    "checker_restricts_any_context",
    "derived_write_touches_only_its_entry",
    "shared_error_stops_family",
    "overrides_on_context",
    "overrides_compose",
    "overrides_keep_nil",
    "overrides_compose_on_context",
    "parent_inherits_composed",
    "overrides_merge_differs",
    "getOrCreatePath_touches_only_path",
    "nested_bucket_own_holder",
    "derived_writes_touch_only_selected",
    "child_store_write_keeps_unselected_parent_field",
    "child_store_write_keeps_unselected_child_field",
]

RULE = ("compound keys: every list of <=3 elements over a 7-string pool, every pair of lists of <=2 elements "
        "over a 5-string pool (injectivity), element lengths at 0/1/127/128/255/256/4095/4096/4097/16383/16384, "
        "random lists of 0-6 byte strings, re-splittings of the same concatenation, damaged / non-canonical "
        "encodings for the decoder; values: every boundary integer / float bit pattern (+-0, +-Inf, NaNs, "
        "denormals) / byte string / time (6 zones, sub-second, years 1, 9999, 10000, negative) alone, inside a map "
        "[times also with an explicit representation: 13 instants (zero Time, epoch, sub-second, years 1 / 9999 / 10000 / -5, "
        "1885, 2157) x 38 zone offsets (+-1 s, +-59 / 60 / 61 / 89 / 90 / 119 / 120 / 121 s, +5:30, +5:45, +12:45, +14 h, -12 h, "
        "+-18 h, +-18 h 1 m, +-23:59:59, 32767 / 32768 and -32768 / -32769 minutes, +-2^31 s) as FixedZone, as time.Local set to "
        "the zone, the process's own Local, UTC, and derived from time.Now() (monotonic reading), through SetTime, SetTimeP, a "
        "map holding the time and a list with it, a list holding it and a map with it; one instant in two representations "
        "written one over the other / side by side in a map and a list / under a checker; another instant with the same wall "
        "clock reading; time fields of a child and a parent store written through derived contexts; tm / tu: "
        "time.Time.MarshalBinary / UnmarshalBinary themselves on every instant x offset x representation, random int64 seconds "
        "x random offsets, arbitrary and damaged byte strings] "
        "and inside a list, random multi-field entities, maps and lists nested to depth 4 (5 now and then in the "
        "thorough tier) with nulls and empty containers, one injected refusal per case (empty key, unsupported "
        "type, reserved list-size key, 32768/32769-byte keys, nested value under allowNested=false), a field "
        "written twice with every pair of kinds; field checkers: two 8-field entities x all 256 subsets with "
        "partial pre-state, random entities with random subsets, unknown names, field overrides, nil checker; "
        "context derivation (h): a real parent/child store pair, the parent part written through GetParentContext "
        "and the child part through the context under every one of the 128 subsets of their 7 fields (3 entities, "
        "30 thorough), random scripts of blocks through ctx / GetParentContext / GetOrCreatePath below either, "
        "WithFieldOverrides on either, same field name in both buckets, refused nested paths, multi-level child "
        "paths, a store without parent; sizes: lists / maps / string lists / compound keys of 255, 256, 257, 258, "
        "300, 511, 512, 513, 1000 elements (to 4097 thorough) top level, nested, over a longer / shorter "
        "predecessor, pairwise distinct elements; keys / elements / field names of 126..129, 254..257, 16383, "
        "16384 bytes; overwrite sequences on one key (every prefix is a case): every ordered pair of string lists of "
        "<=3 elements over {a,b,c} through SetStringList / GetAndSetStringList, every pair of PutList lists of <=3 "
        "elements over {null,'a',int32 1}, pairs of maps over keys {a,b} with values {null,'',int32 1,{},[]} nested "
        "and flat, every pair of 22 scalar setter/value forms, pairs and triples of container kinds with the same "
        "members, value-over-bucket refusals, random triples; same and later transaction; nil / selecting / "
        "non-selecting checker on the last write; composition of overrides: every sequence of two (and sampled "
        "sequences of three) WithFieldOverrides tables out of 15 over the names a, b, c (single renamings incl. "
        "identities, swap, chain, cycle, unknown names) under every subset of {a,b,c} as checker, on one context (e, "
        "m=t1;t2) and interleaved with GetParentContext / nested buckets (h, 5 shapes). "
        "non-trivial = the spec demands at least one read value (entity scripts) / the list is non-empty "
        "(compound keys); distinct = distinct case line")


def _toks(line):
    return line.split(" ") if line else []


def spec_ok(impl, spec):
    if spec in ("-", "", None):
        return True
    have = set(_toks(impl))
    return all(t in have for t in _toks(spec))


def missing(impl, spec):
    have = set(_toks(impl))
    return [t for t in _toks(spec) if t not in have]


def kind_of(case):
    return case.split(" ", 1)[0]


def nontrivial(case, impl, spec):
    k = kind_of(case)
    if k in ("k", "j"):
        if len(case) > 2:
            return hashlib.blake2b(case.encode(), digest_size=8).digest()
        return None
    if k in ("e", "h"):
        if spec not in ("-", "", None) and len(_toks(spec)) >= 2:
            return hashlib.blake2b(case.encode(), digest_size=8).digest()
    return None


def _clip(s, n=400):
    return s if len(s) <= n else s[:n] + f"...({len(s)} chars)"


def describe(case, impl, model, spec):
    k = kind_of(case)
    d = {"kind": {"k": "EncodeStringSlice+DecodeStringSlice", "d": "DecodeStringSlice", "j": "encoding equality",
                  "e": "TypedBucket entity script",
                  "h": "entity write through derived contexts (parent/child stores)",
                  "tm": "time.Time.MarshalBinary + UnmarshalBinary", "tu": "time.Time.UnmarshalBinary"}.get(k, k),
         "case": _clip(case, 1500), "impl": _clip(impl, 1500), "model": _clip(model, 1500), "spec": _clip(spec or "", 800)}
    if spec and not spec_ok(impl, spec):
        d["demanded_but_not_read_back"] = [_clip(t, 300) for t in missing(impl, spec)[:6]]
    if impl != model:
        it, mt = _toks(impl), _toks(model)
        d["first_differences_impl_vs_model"] = [[_clip(a, 200), _clip(b, 200)] for a, b in zip(it, mt) if a != b][:4]
    return d


# ------------------------------------------------------------------------- known findings
MATCHERS = {}


# ------------------------------------------------------------------------------ histogram
def histogram(lines, impl):
    h = {"kinds": {}, "ops": {}, "checker": {"nil": 0, "subset": 0, "with_overrides": 0}, "errors": {},
         "max_nesting": {}, "compound_max_elem_len": {"<=127": 0, "128..4095": 0, "4096": 0, ">4096": 0},
         "reads_that_panic": 0, "largest_container": {"<=16": 0, "17..255": 0, "256": 0, "257..1000": 0, ">1000": 0},
         "derived_context_blocks": {"own": 0, "parent": 0, "nested": 0, "with_overrides": 0}}
    for c, a in zip(lines, impl):
        f = c.split(" ")
        h["kinds"][f[0]] = h["kinds"].get(f[0], 0) + 1
        if f[0] == "k":
            m = max([0] + [0 if w == "-" else len(w) // 2 for w in f[1:]])
            b = "<=127" if m <= 127 else "128..4095" if m < 4096 else "4096" if m == 4096 else ">4096"
            h["compound_max_elem_len"][b] += 1
        elif f[0] == "h":
            h["checker"]["nil" if f[2] == "c=-" else "subset"] += 1
            for t in f[3:]:
                if t.startswith("@"):
                    b = h["derived_context_blocks"]
                    b["parent" if t[2] == "^" else "own"] += 1
                    if "/" in t:
                        b["nested"] += 1
                    if "~" in t:
                        b["with_overrides"] += 1
                else:
                    code = t.split(":", 1)[0]
                    h["ops"][code] = h["ops"].get(code, 0) + 1
            e = a.split(" ", 1)[0]
            h["errors"][e] = h["errors"].get(e, 0) + 1
        elif f[0] == "e":
            if f[1] == "c=-":
                h["checker"]["nil"] += 1
            else:
                h["checker"]["subset"] += 1
            if f[2] != "m=-":
                h["checker"]["with_overrides"] += 1
            depth = 0
            big = 0
            for op in f[3:]:
                if len(op) > 600:
                    big = max(big, max((seg.count(",") + 1 for seg in re.split(r"[ML]\(", op)), default=0))
                code = op.split(":", 1)[0][1:]
                h["ops"][code] = h["ops"].get(code, 0) + 1
                v = op.rsplit(":", 1)[-1]
                d = cur = 0
                for ch in v:
                    if ch == "(":
                        cur += 1
                        d = max(d, cur)
                    elif ch == ")":
                        cur -= 1
                depth = max(depth, d)
            h["max_nesting"][str(depth)] = h["max_nesting"].get(str(depth), 0) + 1
            lb = "<=16" if big <= 16 else "17..255" if big <= 255 else "256" if big == 256 else "257..1000" if big <= 1000 else ">1000"
            h["largest_container"][lb] += 1
            e = a.split(" ", 1)[0]
            h["errors"][e] = h["errors"].get(e, 0) + 1
            if "=panic" in a:
                h["reads_that_panic"] += 1
    return h


# ------------------------------------------------------------------------------- shrinking
def _variants(case):
    f = case.split(" ")
    out = []
    if f[0] == "e":
        ops = f[3:]
        for i in range(len(ops)):
            out.append(" ".join(f[:3] + ops[:i] + ops[i + 1:]))
        if f[2] != "m=-":
            out.append(" ".join(f[:2] + ["m=-"] + ops))
            tbls = f[2][2:].split(";")
            for i in range(len(tbls)):
                if len(tbls) > 1:
                    out.append(" ".join(f[:2] + ["m=" + ";".join(tbls[:i] + tbls[i + 1:])] + ops))
        if f[1] not in ("c=-",):
            out.append(" ".join([f[0], "c=-"] + f[2:]))
    elif f[0] == "h":
        toks = f[3:]
        for i in range(len(toks)):
            if toks[i].startswith("@"):
                # drop a whole block
                j = i + 1
                while j < len(toks) and not toks[j].startswith("@"):
                    j += 1
                out.append(" ".join(f[:3] + toks[:i] + toks[j:]))
                if "~" in toks[i]:
                    out.append(" ".join(f[:3] + toks[:i] + [toks[i].split("~")[0]] + toks[i + 1:]))
            else:
                out.append(" ".join(f[:3] + toks[:i] + toks[i + 1:]))
        if f[2] != "c=-":
            out.append(" ".join(f[:2] + ["c=-"] + toks))
        out = [v for v in out if len(v.split(" ")) >= 4 and v.split(" ")[3].startswith("@")]
    elif f[0] in ("k", "j"):
        for i in range(1, len(f)):
            if f[i] != "|":
                out.append(" ".join(f[:i] + f[i + 1:]))
                if f[i] != "-" and len(f[i]) > 2:
                    out.append(" ".join(f[:i] + [f[i][:len(f[i]) // 4 * 2] or "-"] + f[i + 1:]))
    return [v for v in out if v != case and len(v.split(" ")) >= (3 if f[0] in ("e", "h") else 1)]


def shrink(ctx, case, failing):
    """greedy one-step-removal shrinking; `failing(impl, model, spec)` is the predicate to preserve"""
    for _ in range(12):
        vs = _variants(case)
        if not vs:
            break
        impl, model, spec = common.run_cases(ctx, "c13", "\n".join(vs) + "\n")
        if not (len(impl) == len(model) == len(spec) == len(vs)):
            break
        better = [v for v, a, m, s in zip(vs, impl, model, spec) if failing(a, m, s)]
        if not better:
            break
        case = min(better, key=len)
    return case


def run(ctx, replay_cases=None):
    ctx.assumptions += [
        "encoding/binary PutUvarint / Uvarint behave as transcribed in Codec/Varint.lean (compared on every compound key case, including damaged encodings)",
        "math.Float64bits / Float64frombits are mutually inverse; the model carries the bit pattern as an opaque payload (the harness writes real float64 values and compares what comes back by bits)",
        "time.Time.UTC / MarshalBinary / UnmarshalBinary of the Go toolchain in use behave as transcribed from Go 1.23 src/time/time.go in Codec/TypedValue.lean (compared directly by the tm / tu cases on every run: every generated instant x zone offset x representation, random seconds and offsets, damaged byte strings); a location enters only through the offset t.Zone() reports for the instant",
        "bbolt buckets behave as ordered finite maps with the Put / CreateBucketIfNotExists refusals of Codec/Bucket.lean (a raw dump of the real bucket tree is compared with the model after every entity script)",
        "strconv / MarshalText formatting behind GetString on float and time fields and float64(int64) behind GetFloat64 on integer fields are outside the model's proofs (GetString prints '*' there; the conversion is compared using Lean's Float.ofInt)",
        "Go map iteration order does not matter: at most one refusal is injected per case, the state after a refused write is not compared",
    ]
    with common.Lock():
        common.build_tools(ctx)
        built = common.prove(ctx, MODULE, THEOREMS)
    trusted = common.BASE_TRUST + [
        "bbolt (ordered buckets, Put/CreateBucket refusals, transactions) — modelled, exercised by the dump comparison",
        "Go stdlib: encoding/binary varints and LittleEndian, math.Float64bits, time.Time (UTC, MarshalBinary, UnmarshalBinary: transcribed and compared, not verified)",
    ]
    if not (ctx.harness_ok and ctx.driver_ok):
        ctx.obligation("harness and model driver build against /repo", False,
                       (ctx.harness_log if not ctx.harness_ok else ctx.driver_log)[-400:])
        common.violation(ctx, "tie-broken", None,
                         {"reason": "harness or Lean driver does not build against the current tree",
                          "log": (ctx.harness_log if not ctx.harness_ok else ctx.driver_log)[-2000:]}, no_input=True)
        return common.finish(ctx, trusted_base=trusted)
    if replay_cases is not None:
        lines = replay_cases
    else:
        lines = common.corpus_cases("c13") + [l for l in common.gen_cases(ctx, "c13").split("\n") if l]
    impl, model, spec = common.run_cases(ctx, "c13", "\n".join(lines) + "\n")
    n = len(lines)
    if len(impl) != n or len(model) != n or len(spec) != n:
        ctx.obligation("output streams aligned", False, f"cases {n} impl {len(impl)} model {len(model)} spec {len(spec)}")
        common.violation(ctx, "tie-broken", None,
                         {"reason": "output streams not aligned (crash?)", "cases": n, "impl": len(impl),
                          "model": len(model), "impl_tail": impl[-3:], "model_tail": [m[:300] for m in model[-3:]]},
                         no_input=True)
        return common.finish(ctx, trusted_base=trusted)
    spec_bad, corr_bad, keys = [], [], set()
    demands = 0
    for i in range(n):
        c, a, m, s = lines[i], impl[i], model[i], spec[i]
        k = nontrivial(c, a, s)
        if k is not None:
            keys.add(k)
        if s not in ("-", ""):
            demands += len(_toks(s))
        if not spec_ok(a, s):
            spec_bad.append((c, a, m, s))
        elif a != m:
            corr_bad.append((c, a, m, s))
    picks = sorted(set(i for i in [0, n // 5, n // 2, (3 * n) // 4, (9 * n) // 10, n - 1] if 0 <= i < n))
    ctx.coverage.update({
        "evaluations": n,
        "distinct_nontrivial": len(keys),
        "rule": RULE,
        "samples": [describe(lines[i], impl[i], model[i], spec[i]) for i in picks],
        "spec_demands_checked": demands,
        "impl_vs_spec_disagreements": len(spec_bad),
        "impl_vs_model_disagreements": len(corr_bad) + len([b for b in spec_bad if b[1] != b[2]]),
        "input_distribution": histogram(lines, impl),
    })
    ncorr = len(corr_bad) + len([b for b in spec_bad if b[1] != b[2]])
    ctx.obligation("correspondence: implementation output = model output on every generated case", ncorr == 0,
                   f"{ncorr} disagreement(s)")
    unknown = []
    for b in spec_bad:
        if common.classify(ctx, MATCHERS, b[0], {"impl": b[1], "model": b[2], "spec": b[3]}) is None:
            unknown.append(b)
    if unknown:
        c, a, m, s = common.shortest(unknown)
        if replay_cases is None:
            c2 = shrink(ctx, c, lambda a_, m_, s_: not spec_ok(a_, s_))
            if c2 != c:
                ia, im, isp = common.run_cases(ctx, "c13", c2 + "\n")
                c, a, m, s = c2, ia[0], im[0], isp[0]
        common.violation(ctx, "property-fails-on-input", c,
                         dict(describe(c, a, m, s), unlisted_failing_cases=len(unknown),
                              more=[_clip(u[0], 600) for u in sorted(unknown, key=lambda u: len(u[0]))[1:6]]))
    elif corr_bad:
        c, a, m, s = common.shortest(corr_bad)
        if replay_cases is None:
            c2 = shrink(ctx, c, lambda a_, m_, s_: a_ != m_)
            if c2 != c:
                ia, im, isp = common.run_cases(ctx, "c13", c2 + "\n")
                c, a, m, s = c2, ia[0], im[0], isp[0]
        common.violation(ctx, "correspondence-broken", c,
                         dict(describe(c, a, m, s), disagreements=len(corr_bad),
                              reason="implementation and Lean model disagree (stored bytes, a secondary getter, an "
                                     "error class or a GetAndSet observation) although everything the property demands "
                                     "is still read back on every explored input; the theorems no longer speak about this code"),
                         no_input=True)
    elif not built or ctx.broken:
        common.violation(ctx, "obligation-broken", None,
                         {"reason": "a proof obligation no longer checks; the search over the generated cases found no (unlisted) input on which the property fails",
                          "lean_errors": [l for l in getattr(ctx, "lean_log", "").splitlines() if "error" in l][:10]},
                         no_input=True)
    return common.finish(ctx, trusted_base=trusted)
