"""C17 — snapshot and restore reproduce the database exactly (partly decidable by proof).

Flow (composed from common.py's pieces because the spec oracle is relational: it judges the
IMPLEMENTATION's observations, so the spec driver needs `case TAB impl-output`):

  build tools (extractors incl. extract/dblocks.go -> Generated/DbLocks.lean, harness, driver)
  prove + audit Properties/C17                       (theorems + obligations on the regenerated lock table)
  generate histories / concurrent populations         (harness gen)
  implementation observations                         (harness exec, real boltz.DbImpl on temp files)
  model observations                                  (driver)        impl == model      (correspondence)
  property clauses on the implementation's trace      (driver spec)   == ok              (property)
  concurrent / staged cases: impl outcome must be in the model's allowed set ("ok" or "ok|hang"), and
  "ok" for the property; a hang is reported with the goroutine dump as replay.
"""
import collections
import json
import os

from . import common

MODULE = "StorageModel.Properties.C17"
THEOREMS = ["copy_reassembles", "restore_any_reader", "restore_snapshot", "snapshot_id_kept", "restore_fires_listeners", "timeline_once",
            "restore_then_timeline_fresh", "stream_restore_exact", "model_meets_spec", "oracle_accepts_model",
            "no_mixed_view", "every_read_sees_pinned", "swap_excludes_readers", "no_deadlock_flat",
            "restore_under_write_lock", "tx_entry_points_guarded", "code_no_mixed_view",
            "old_protocol_deadlock_reachable", "no_reentrant_read_lock", "all_entry_points_flat", "code_no_deadlock",
            "in_tx_apis_take_no_read_lock", "helpers_take_no_read_lock", "code_in_tx_call_no_deadlock",
            "flat_population_completes", "code_population_completes",
            # the restore in stages with calls from inside the reader (C17/Staged.lean)
            "persist_stage_transparent", "staged_restore_closed_form", "staged_restore_position_independent",
            "staged_restore_installs", "staged_restore_db_eq_plain", "staged_restore_nil", "staged_extends_plain",
            "calls_during_stream_see_old", "staged_restore_snapshot", "staged_snapshot_id_kept",
            "staged_restore_fires_listeners", "staged_timeline_once", "staged_restore_then_timeline_fresh",
            "staged_model_meets_spec", "staged_oracle_accepts_model", "dbimpl_state_modelled",
            # GetTimelineId under concurrent requests, one atomic step per bolt transaction (C17/TimelineConc.lean)
            "timeline_once_concurrent", "timeline_steps_expected", "marker_steps_expected",
            "code_timeline_once_concurrent", "split_program_generates_twice",
            # the path argument of Snapshot / SnapshotInTx: templates, the directory, the three uses of the path (C17/Paths.lean)
            "snapshot_path_file_marked", "path_use_correct_iff", "expand_plain_path", "path_level_refines_slots",
            "path_restore_snapshot", "snapshot_path_program_expected", "code_expansion_is_model"]
TABLE_OBLIGATIONS = ["restore_under_write_lock (Generated/DbLocks.lean, regenerated from boltz/db.go)",
                     "tx_entry_points_guarded (same table)", "no_reentrant_read_lock (same table)",
                     "all_entry_points_flat (same table)",
                     "helpers_take_no_read_lock (dbInTxPrograms: every exported method that opens no transaction of its own, Stats excepted; same file)",
                     "in_tx_apis_take_no_read_lock (dbInTxPrograms: every exported DbImpl method on its in-transaction path; dbInTxApis: methods taking the transaction + methods the repository calls inside a transaction body; same file)",
                     "timeline_steps_expected (dbMetaOps: bolt transactions of GetTimelineId and the marker reads / guard / idF / writes inside, same file)",
                     "marker_steps_expected (dbMetaOps: GetSnapshotId, MarkAsSnapshot, same file)",
                     "dbimpl_state_modelled (field list of `type DbImpl struct` + package-level vars of boltz/db.go, same file)",
                     "snapshot_path_program_expected (dbSnapshotPathOps: what SnapshotInTx does with its path strings - the chain of ReplaceAll calls, the variable and version CopyFile / MarkAsSnapshot / the return use; extract/dbpaths.go, same file)"]

RULE = ("sequential histories over {Update commit/rollback, Snapshot, View+SnapshotInTx, Update+SnapshotInTx, failing "
        "Snapshot, StreamToWriter, RestoreSnapshot, RestoreFromReader, GetSnapshotId, GetTimelineId x3 modes x idF "
        "ok/failing, AddRestoreListener, dump} on 6 keys / 6 typed values (two of them 300 KB / 700 KB blobs so that snapshot files straddle the 32 KB and 1 MB copy buffers) / 1-3 snapshot slots: 51 fixed histories "
        "'live db carries the id of an earlier restore; another snapshot streams in while the reader calls X at position P' "
        "(16 calls x 3 positions x 4 reader behaviours, + 3 in-transaction snapshot routes) + 45 fixed histories of "
        "the property's shape (route x restore call x mode), 57 + 2 histories of the property's shape with the snapshot taken through a path TEMPLATE (19 templates: every placeholder DATE / TIME / DB_DIR / DB_FILE in both forms, several, adjacent, leading, as the directory, between single underscores, half an __X__ form, lower case, none; x Snapshot / View+SnapshotInTx / Update+SnapshotInTx; the restore reads the file under the path the call RETURNED, as for every snapshot operation; returned path and other directory entries created are compared with the path-level model), every chunk size x EOF style against a small snapshot (and against a > 1 MB one: 4 in quick, all in thorough) + seeded random ones (75% forced to contain snapshot ... "
        "restore; gsid; 2 timeline requests; dump); concurrent populations of View/Update/Batch/StreamToWriter/"
        "GetSnapshotId/GetTimelineId goroutines against RestoreSnapshot goroutines (each transaction must read all "
        "keys equal, twice), with and without concurrent Snapshot, 3 staged re-entrancy scenarios, one `stage api:<Method>` per DbImpl method of the regenerated lock table (called by reflection from "
        "inside an Update body once a RestoreSnapshot has reached reloadLock.Lock(); quick: the methods without a bolt transaction of their own, thorough: all), and K (2-8) GetTimelineId requests (default / initIfEmpty) released "
        "together after a restore with the first idF call holding its write transaction open for up to 200 ms (one idF call, one id "
        "returned by all, stored, and returned by a later request), all under a "
        "2.5 s watchdog. non-trivial = sequential history in which a restore of an existing slot happened after a "
        "committed write that followed the slot's snapshot, or a concurrent/staged case; distinct = case line")


def _unhex(h):
    try:
        return bytes.fromhex(h).decode("utf-8", "replace")
    except ValueError:
        return h


def nontrivial(case, impl):
    f = case.split(" ")
    if f[0] in ("conc", "stage", "tlconc"):
        return case
    if f[0] != "seq":
        return None
    obs = impl.split(" ")
    snapped = {}      # slot -> index
    wrote_after = {}  # slot -> bool
    for i, op in enumerate(f[1:]):
        o = obs[i] if i < len(obs) else ""
        p = op.split(":")
        if p[0] in ("snap", "snapt", "snapu", "stream", "snaptc", "snapuc", "streamc", "snapp", "snaptp", "snapup") and not o.startswith("err"):
            snapped[p[1]] = i
            wrote_after[p[1]] = p[0] in ("snapu", "snapuc", "snapup") and len(p) > 2 and p[2] != ""
        elif p[0] == "tx" and o == "ok" and p[1] != "":
            for k in wrote_after:
                wrote_after[k] = True
        elif p[0] in ("rest", "restr", "restc") and o.startswith("restored") and wrote_after.get(p[1]):
            return case
    return None


def describe(case, impl, model, spec):
    d = {"case": case, "impl": impl if not impl.startswith("hang:") else "hang", "model": model, "spec": spec}
    if impl.startswith("hang:"):
        d["goroutines_blocked_on_reloadLock"] = _unhex(impl[5:])
    elif ":" in impl and impl.split(":")[0] in ("txerr", "mixed", "panic"):
        d["impl_detail"] = ":".join(_unhex(x) for x in impl.split(":"))
    return d


# no known finding is registered for C17: the re-entrant read lock (Snapshot = View + SnapshotInTx, RootBucket(tx))
# that deadlocked with a waiting restore was repaired in /repo commit 1716f6e (fixed: line in known-findings.txt);
# reverting it breaks `no_reentrant_read_lock` / `all_entry_points_flat` and makes the staged and concurrent
# Snapshot cases hang under the watchdog.
MATCHERS = {}


def _lines(s):
    ls = s.split("\n")
    if ls and ls[-1] == "":
        ls.pop()
    return ls


def sh_to(cmd, inp, timeout, env=None):
    """common.sh with the timeout turned into an outcome"""
    import subprocess
    try:
        return common.sh(cmd, inp=inp, timeout=timeout, env=env)
    except subprocess.TimeoutExpired as e:
        out = e.stdout.decode("utf-8", "replace") if e.stdout else ""
        return 124, out + f"\nfatal error: no result within {timeout}s (process killed)"


def run_three(ctx, lines, timeout=1500):
    """impl, model, spec outputs for the case lines"""
    import re
    data = ("\n".join(lines) + "\n").encode()
    env = dict(os.environ, GOMEMLIMIT="4GiB")
    rc, impl = sh_to([common.HARNESS, "c17", "exec"], data, timeout, env)
    impl_l = _lines(impl)
    if rc != 0 or len(impl_l) != len(lines):
        # the process died (a truncated bolt file is mapped beyond its end -> SIGBUS, not recoverable): run every
        # case in its own process so that the crashing input is identified
        ctx.log(f"harness exec exited {rc}; re-running the {len(lines)} cases one process each")
        impl_l = []
        for l in lines:
            rc1, out1 = sh_to([common.HARNESS, "c17", "exec"], (l + "\n").encode(), 60, env)
            o = _lines(out1)
            if rc1 == 0 and len(o) == 1:
                impl_l.append(o[0])
            else:
                m = re.search(r"(fatal error: [^\n]*|unexpected fault address[^\n]*|panic: [^\n]*|signal SIG[A-Z]+[^\n]*)", out1)
                impl_l.append("crash:" + (m.group(1) if m else f"exit {rc1}").replace(" ", "_").replace("\t", "_"))
    rc, model = common.sh([common.DRIVER], inp=data, timeout=timeout)
    if rc != 0:
        ctx.log(f"driver exited {rc}: {model[-400:]}")
    model_l = _lines(model)
    spec_l = []
    if len(impl_l) == len(lines):
        sdata = ("\n".join(c + "\t" + a for c, a in zip(lines, impl_l)) + "\n").encode()
        rc, spec = common.sh([common.DRIVER, "spec"], inp=sdata, timeout=timeout)
        spec_l = _lines(spec)
    return impl_l, model_l, spec_l


def corr_ok(case, impl, model):
    if case.startswith("seq "):
        return impl == model
    return impl.split(":")[0] in model.split("|")


def status(case, impl, model, spec):
    """'spec' (property fails), 'corr' (model disagrees), or None"""
    if spec != "ok":
        return "spec"
    if not corr_ok(case, impl, model):
        return "corr"
    return None


def shrink(ctx, case, kind):
    """greedy one-operation removal on a sequential history, keeping the same kind of failure"""
    if not case.startswith("seq "):
        return case
    cur = case.split(" ")[1:]
    for _ in range(60):
        cands = [cur[:i] + cur[i + 1:] for i in range(len(cur))]
        cands = [c for c in cands if c]
        for i, op in enumerate(cur):          # … or one call less from inside a reader
            p = op.split(":")
            if p[0] == "restc" and len(p) == 6 and p[5] != "-":
                cbs = p[5].split(";")
                for j in range(len(cbs)):
                    rest = ";".join(cbs[:j] + cbs[j + 1:]) or "-"
                    cands.append(cur[:i] + [":".join(p[:5] + [rest])] + cur[i + 1:])
        if not cands:
            break
        lines = ["seq " + " ".join(c) for c in cands]
        impl, model, spec = run_three(ctx, lines)
        if not (len(impl) == len(model) == len(spec) == len(lines)):
            break
        nxt = None
        for i, l in enumerate(lines):
            if status(l, impl[i], model[i], spec[i]) == kind:
                nxt = cands[i]
                break
        if nxt is None:
            break
        cur = nxt
    return "seq " + " ".join(cur)


def histogram(lines):
    h = collections.Counter()
    lens = collections.Counter()
    for l in lines:
        f = l.split(" ")
        if f[0] == "seq":
            lens[f"len{(len(f) - 1) // 8 * 8}-{(len(f) - 1) // 8 * 8 + 7}"] += 1
            for op in f[1:]:
                p = op.split(":")
                name = p[0]
                if name == "gtl":
                    name = f"gtl:{p[1]}:{'ok' if p[2] == '1' else 'idFfails'}"
                elif name == "tx":
                    name = "tx:commit" if p[2] == "c" else "tx:rollback"
                elif name in ("snapp", "snaptp", "snapup"):
                    import re
                    h["path-template:" + re.sub(r"s\d+", "s<k>", p[-1])] += 1
                elif name == "restc" and len(p) == 6 and p[5] != "-":
                    for cb in p[5].split(";"):
                        pos, _, call = cb.partition("=")
                        h["call-from-reader:" + call.split("~")[0] + "@" + (pos if pos in ("f", "e") else "mid")] += 1
                h[name] += 1
        elif f[0] == "conc":
            h["conc:" + f[1]] += 1
        else:
            h[l] += 1
    return {"operations": dict(sorted(h.items())), "history_lengths": dict(sorted(lens.items()))}


def run(ctx, replay_cases=None):
    ctx.assumptions += [
        "bbolt: Tx.CopyFile / Tx.WriteTo produce a consistent copy of the committed state of the transaction; DB.Close waits for open transactions; Open of the renamed file sees the copied pages (modelled as value copy; exercised by every sequential case)",
        "Go sync.RWMutex as modelled in C17/Lock.lean: RLock blocks once a writer has called Lock (announced), a writer acquires when no read hold remains, writers exclude each other; a nested RLock is a second hold",
        "os.Rename / file persistence succeed (RestoreFromReader panics otherwise; not exercised)",
        "restore listeners are delivered asynchronously (`go listener()`): the harness waits until the counter is stable for 4 ms; delivery order and time are not claimed",
        "the lock table is as good as extract/dblocks.go (main-path reading of boltz/db.go: error branches skipped, calls between DbImpl methods inlined, calls on other receivers not followed)",
    ]
    with common.Lock():
        common.build_tools(ctx)
        built = common.prove(ctx, MODULE, THEOREMS, TABLE_OBLIGATIONS)
        ctx.lock_table = _read_facts()   # read under the lock: the facts directory is shared between runs
    trusted = common.BASE_TRUST + ["bbolt file copy / close / reopen and the Go runtime's RWMutex and scheduler (modelled, see assumptions)"]
    if not (ctx.harness_ok and ctx.driver_ok):
        ctx.obligation("harness and model driver build against /repo", False,
                       (ctx.harness_log if not ctx.harness_ok else ctx.driver_log)[-400:])
        common.violation(ctx, "tie-broken", None,
                         {"reason": "harness or Lean driver does not build against the current tree",
                          "log": (ctx.harness_log if not ctx.harness_ok else ctx.driver_log)[-2000:]}, no_input=True)
        return common.finish(ctx, trusted_base=trusted)
    if replay_cases is not None:
        lines = replay_cases
    else:
        lines = common.corpus_cases("c17") + [l for l in common.gen_cases(ctx, "c17").split("\n") if l]
        lines += [l for l in api_stage_cases(ctx) if l not in lines]
    impl, model, spec = run_three(ctx, lines)
    n = len(lines)
    if len(impl) != n or len(model) != n or len(spec) != n:
        ctx.obligation("output streams aligned", False, f"cases {n} impl {len(impl)} model {len(model)} spec {len(spec)}")
        common.violation(ctx, "tie-broken", None, {"reason": "output streams not aligned (crash?)", "cases": n,
                                                   "impl": len(impl), "model": len(model), "impl_tail": [x[:300] for x in impl[-2:]]},
                         no_input=True)
        return common.finish(ctx, trusted_base=trusted)
    if ctx.replay_mode:
        for i in range(n):
            print(json.dumps(describe(lines[i], impl[i], model[i], spec[i]), indent=1), flush=True)
    keys = set()
    spec_bad, corr_bad = [], []
    for i in range(n):
        k = nontrivial(lines[i], impl[i])
        if k is not None:
            keys.add(k)
        st = status(lines[i], impl[i], model[i], spec[i])
        if st == "spec":
            spec_bad.append(i)
        elif st == "corr":
            corr_bad.append(i)
    hangs = sum(1 for a in impl if a.startswith("hang:"))
    ctx.coverage.update({
        "evaluations": n,
        "distinct_nontrivial": len(keys),
        "rule": RULE,
        "samples": [describe(lines[i], impl[i], model[i], spec[i]) for i in sorted(set([0, n // 3, n // 2, n - 1])) if 0 <= i < n],
        "input_distribution": histogram(lines),
        "sequential_histories": sum(1 for l in lines if l.startswith("seq ")),
        "concurrent_runs": sum(1 for l in lines if not l.startswith("seq ")),
        "hangs_observed": hangs,
        "impl_vs_spec_disagreements": len(spec_bad),
        "impl_vs_model_disagreements": len(corr_bad) + sum(1 for i in spec_bad if not corr_ok(lines[i], impl[i], model[i])),
        "partial": "proof covers the executable model (sequential snapshot/restore/timeline behaviour; reloadLock protocol for all interleavings); file copy/rename/reopen, bbolt Close, RWMutex semantics and goroutine scheduling are runtime behaviour the model cannot exhibit and rest on the correspondence runs only",
    })
    ctx.obligation("correspondence: implementation observations = model observations on every history; concurrent outcome within the model's allowed set",
                   not corr_bad and all(corr_ok(lines[i], impl[i], model[i]) for i in spec_bad),
                   f"{len(corr_bad) + sum(1 for i in spec_bad if not corr_ok(lines[i], impl[i], model[i]))} disagreement(s)")
    unknown = []
    for i in spec_bad:
        info = {"impl": impl[i], "model": model[i], "spec": spec[i]}
        if common.classify(ctx, MATCHERS, lines[i], info) is None:
            unknown.append(i)
    if unknown:
        i = min(unknown, key=lambda j: (not lines[j].startswith('seq '), len(lines[j]), lines[j]))
        case = lines[i]
        a, m, s = impl[i], model[i], spec[i]
        if replay_cases is None:
            small = shrink(ctx, case, "spec")
            if small != case:
                a2, m2, s2 = run_three(ctx, [small])
                if a2 and s2 and status(small, a2[0], m2[0], s2[0]) == "spec":
                    case, a, m, s = small, a2[0], m2[0], s2[0]
        common.violation(ctx, "property-fails-on-input", case,
                         dict(describe(case, a, m, s), unlisted_failing_cases=len(unknown),
                              more=[lines[j] for j in sorted(unknown, key=lambda j: len(lines[j]))[1:4]]))
    elif corr_bad:
        i = min(corr_bad, key=lambda j: (not lines[j].startswith('seq '), len(lines[j]), lines[j]))
        case = lines[i]
        a, m, s = impl[i], model[i], spec[i]
        if replay_cases is None:
            small = shrink(ctx, case, "corr")
            if small != case:
                a2, m2, s2 = run_three(ctx, [small])
                if a2 and s2 and status(small, a2[0], m2[0], s2[0]) == "corr":
                    case, a, m, s = small, a2[0], m2[0], s2[0]
        common.violation(ctx, "correspondence-broken", case,
                         dict(describe(case, a, m, s), disagreements=len(corr_bad),
                              reason="implementation and Lean model disagree although the property's clauses hold on every explored trace; the theorems no longer speak about this code"),
                         no_input=True)
    elif not built or ctx.broken:
        common.violation(ctx, "obligation-broken", None,
                         {"reason": "a proof obligation no longer checks (theorem or regenerated lock table); the search over the generated histories and concurrent runs found no (unlisted) failing input",
                          "broken": ctx.broken,
                          "lock_table": ctx.lock_table,
                          "lean_errors": [l for l in getattr(ctx, "lean_log", "").splitlines() if "error" in l][:10]},
                         no_input=True)
    return common.finish(ctx, trusted_base=trusted,
                         checker_cmd="cd /verif/lean && lake build StorageModel.Properties.C17 && lake env lean <#print axioms of every property theorem> (bin/check C17 does both, after regenerating Generated/DbLocks.lean from boltz/db.go)")


API_EXCLUDED = ("Close", "Open", "RestoreSnapshot", "RestoreFromReader")


def api_stage_cases(ctx):
    """one `stage api:<Method>` per DbImpl method of the lock table regenerated from boltz/db.go (read under the
    build lock): the method is called from inside a transaction body while a restore waits for the write lock.
    Quick: the methods that do not open a bolt transaction of their own on their in-transaction path (every helper a
    transaction body may call; a read lock newly taken by one of them is exercised without touching the harness);
    thorough: all of them (for the transaction entry points the model predicts, and the run confirms, a hang)."""
    t = ctx.lock_table or {}
    progs = t.get("in_tx_programs") or {}
    out = []
    for name in sorted(progs):
        if name in API_EXCLUDED:
            continue
        if ctx.tier != "thorough" and "dbtx" in (progs[name] or []):
            continue
        out.append("stage api:" + name)
    return out


def _read_facts():
    try:
        return json.load(open(os.path.join(common.FACTS, "dblocks.json")))
    except (OSError, ValueError):
        return None
