"""C10 — parsing and evaluation are total: no panics, invalid input is rejected."""
import json
import os
import subprocess
import tempfile

from . import common

MODULE = "StorageModel.Properties.C10"
THEOREMS = [
    # regenerated data = what the model was written against
    "class_table_is_expected", "sites_are_expected", "wiring_is_expected", "pool_wiring_is_expected", "callbacks_are_expected",
    "lexer_table_is_good", "lexer_atn_matches_grammar", "parser_atn_matches_grammar", "generated_code_is_pinned",
    "parser_rules_are_expected",
    # 2a lexer: for every rule table (`_any`), and instantiated at the table compiled from the regenerated grammar file
    "lex_lossless_any", "lex_tokens_match_rules_any", "lex_error_is_real_any", "lex_rejects_unrecognised_any",
    "lex_lossless", "lex_tokens_match_rules", "lex_error_is_real", "lex_rejects_unrecognised",
    # 2b recogniser
    "parse_sound", "accepts_sound", "parse_complete", "accepts_iff", "accepted_is_g4_sentence", "accepts_iff_g4",
    # 1a listener
    "listener_no_panic", "listener_builds_query", "listener_no_panic_on_trees",
    # 1b typing, 1c evaluation, everything together
    "transform_no_panic", "eval_no_panic", "pipeline_total",
    # 1d cursors
    "tree_cursor_no_panic", "tree_cursor_enumerates",
    # 1e bolt-backed Symbols
    "bolt_symbols_no_panic",
    # 1f sorting / paging in the store
    "bolt_sort_no_panic",
    # 1g objectz
    "objectz_scan_order_is_repaired", "objectz_scan_no_panic", "objectz_scan_follows_code",
    # 1h histories of ast.Parse calls
    "parse_listener_is_per_call", "parse_history_independent", "parse_history_follows_code",
    # 1i read APIs against never-created structural buckets
    "bucket_sites_are_guarded", "scan_no_panic_missing_buckets", "scan_follows_code",
    # 1j process-wide configuration (ast.EnableQueryDebug)
    "debug_branch_reads_only_input", "parse_config_independent", "parse_config_follows_code",
]
TABLE_OBLIGATIONS = [
    "class_table_is_expected (Generated/C10Classes.lean: interfaces implemented by every ast node class, from ast/*.go)",
    "sites_are_expected (Generated/C10Sites.lean: unchecked type assertions / dereferences (of identifiers and of call results, with: compared with nil in the function) / constant indexes / slices in the listener, transform, eval and cursor files of ast, and in boltz query_cursor.go, query_sort.go, query_scanners.go, store_query.go NewScanner/newRowComparator, typed_bucket.go FieldTo*/BytesTo*)",
    "wiring_is_expected (Generated/C10Sites.lean: zitiql.parse attaches the collecting error listener to lexer AND parser)",
    "pool_wiring_is_expected (Generated/C10Sites.lean: zitiql.parse removes the pooled parser's error listeners before use on every path and, deferred, after use)",
    "callbacks_are_expected (Generated/C10Sites.lean: the ToBoltListener callbacks that exist are the modelled ones)",
    "objectz_scan_follows_code (Generated/C10Sites.lean objScanNilTestFirst: the order of `cursor == nil` and the first use of the iterator in objectz memSortingScanner.Scan selects the model variant; objectz_scan_order_is_repaired: the order is the repaired one of bbcb51c, for which the full no-panic statement is proved; the other order is refuted)",
    "parse_listener_is_per_call (Generated/C10Sites.lean astParseListenerPerCall: in ast.Parse the listener handed to zitiql.Parse is a local variable defined once by `:= NewListener()`, and NewListener returns a literal with fresh `&Stack{}` operand stacks and no error; selects the listener policy of C10/Session.lean parseHistory, for which parse_history_independent is the full statement)",
    "bucket_sites_are_guarded (Generated/C10Buckets.lean, extract/c10_buckets.go: functions of boltz that can return a nil *TypedBucket, *TypedBucket methods that test their receiver, and every other member selected on a possibly-nil bucket in the read path - query_scanners.go, store_query.go, query_cursor.go as a whole, the read functions of store_crud.go / indexes.go / link_collection.go / typed_bucket.go by name - with: guarded by a nil test; selects the Guards of C10/BoltScan.lean, for which scan_no_panic_missing_buckets is the full statement)",
    "debug_branch_reads_only_input (Generated/C10Buckets.lean astParseDebugReadsOnlyInput: in ast.Parse every statement under `if EnableQueryDebug.Load()` mentions only parameters of Parse, no local; selects the variant of C10/Config.lean parseModelCfg for which parse_config_independent is the full statement)",
    "lexer_table_is_good (Generated/C10Lexer.lean: zitiql/ZitiQl.g4 re-read on every run; its lexer rules compile - references resolve, no recursion, every token known - into the rule table the reference lexer INTERPRETS, and the table satisfies GoodTable: one rule per token type in ANTLR's numbering, no rule matches the empty string, outside STRING only recognised characters)",
    "lexer_atn_matches_grammar (Generated/C10Atn.lean: the serializedATN literal of zitiql_lexer.go decoded; rule names incl. fragments in file order, token numbering, literal/symbolic names and - rule by rule - the multiset of transition labels equal what the Lean side computes from the grammar file's lexer rules)",
    "parser_atn_matches_grammar (Generated/C10Atn.lean: the same for zitiql_parser.go: rule names, boolExpr the only precedence rule with predicates 6/5 and the not-operand at precedence 1, per rule the token / rule-call labels of the grammar file's parser rules)",
    "generated_code_is_pinned (Generated/C10Atn.lean: SHA-256, length, state and decision counts of both serializedATN literals = C10/Expected.lean)",
    "parser_rules_are_expected (Generated/C10Lexer.lean: the parser rules of the grammar file = the rules the derivation trees / wf / recogniser were written against; G4.Derives over these rules is what accepted_is_g4_sentence concludes)",
]

NPROC = max(2, min(8, (os.cpu_count() or 4) // 2))


def _unhex(w):
    return b"" if w == "-" else bytes.fromhex(w)


def kv(line):
    d = {}
    for part in (line or "").split(" "):
        if "=" in part:
            k, v = part.split("=", 1)
            d[k] = v
    return d


def par_run(cmd, lines, env=None, timeout=3600):
    """run `cmd` over `lines` in NPROC chunks concurrently; returns the output lines in order"""
    if not lines:
        return []
    n = min(NPROC, max(1, len(lines) // 2000))
    size = (len(lines) + n - 1) // n
    procs = []
    for i in range(n):
        chunk = lines[i * size:(i + 1) * size]
        if not chunk:
            continue
        fin = tempfile.TemporaryFile()
        fin.write(("\n".join(chunk) + "\n").encode())
        fin.seek(0)
        fout = tempfile.TemporaryFile()
        p = subprocess.Popen(cmd, stdin=fin, stdout=fout, stderr=subprocess.DEVNULL, env=env)
        procs.append((p, fin, fout, len(chunk)))
    out = []
    for p, fin, fout, cnt in procs:
        try:
            p.wait(timeout=timeout)
        except subprocess.TimeoutExpired:
            p.kill()
        fout.seek(0)
        ls = fout.read().decode("utf-8", "replace").split("\n")
        if ls and ls[-1] == "":
            ls.pop()
        if len(ls) != cnt:
            ls = (ls + ["<missing>"] * cnt)[:cnt]
        out += ls
        fin.close()
        fout.close()
    return out


def text_of(case):
    f = case.split(" ")
    try:
        if f[0] == "L":
            return _unhex(f[1]).decode("utf-8", "replace")
        if f[0] in ("Q", "B", "O"):
            return _unhex(f[-1]).decode("utf-8", "replace")
        if f[0] == "N":
            t = _unhex(f[7]).decode("utf-8", "replace")
            if f[4] != "-":
                t += " sort by " + ", ".join(x.split(":")[0] + (" desc" if x.endswith(":d") else "") for x in f[4].split(","))
            if f[5] != "-":
                t += " skip " + f[5]
            if f[6] != "-":
                t += " limit " + f[6]
            return "[database state `%s`, store `%s`] `%s`" % (f[1], f[2], t.strip())
        if f[0] == "H":
            return " ; then: ".join(("[table %s] " % w.split("~")[0] if "~" in w else "") + "`" +
                                    _unhex(w.split("~")[-1]).decode("utf-8", "replace") + "`" for w in f[2:])
    except ValueError:
        pass
    return case


def describe(case, impl, model, spec, extra=None):
    d = {"case": case, "input": text_of(case), "impl": impl, "model": model, "spec": spec}
    if extra:
        d.update(extra)
    return d


# ------------------------------------------------------------------------------ classification

def compare(case, impl, model, spec, estage):
    """returns (property_failures, correspondence_failures): lists of short reasons"""
    prop, corr = [], []
    kind = case.split(" ")[0]
    if impl.startswith("panic") or impl == "timeout" or impl == "<missing>":
        prop.append("implementation " + impl.split(" ")[0])
        return prop, corr
    A, M, S = kv(impl), kv(model), kv(spec)
    if kind in ("L", "Q"):
        if A.get("acc") != S.get("acc"):
            prop.append(f"accept/reject: implementation acc={A.get('acc')} but the reference recogniser says acc={S.get('acc')}")
        if A.get("dbg") == "1" and A.get("acc") == "0":
            prop.append("zitiql.ParseWithDebug(debug=true) reports no error for text the plain parse (and the reference recogniser) rejects")
        for k in ("tok", "acc"):
            if A.get(k) != M.get(k):
                corr.append(f"{k}: impl {A.get(k)} model {M.get(k)}")
        if A.get("acc") == "1" and M.get("acc") == "1":
            for k in ("ev", "le"):
                if A.get(k) != M.get(k):
                    corr.append(f"{k}: impl {A.get(k)} model {M.get(k)}")
        if estage is not None:
            E = kv(estage)
            if estage.startswith("panic"):
                corr.append("listener model panics on the real callback sequence: " + estage)
            else:
                if E.get("le") != A.get("le"):
                    corr.append(f"listener error latch on the real callback sequence: impl {A.get('le')} model {E.get('le')}")
                if E.get("clean") != "1":
                    corr.append("real callback sequence is outside the shape assumed by listener_no_panic (clean=0)")
    if kind == "Q":
        # ast.Parse itself (res) must reject every text the reference recogniser rejects; the only
        # exception is the empty filter, which ast.Parse documents as "match everything" before the
        # grammar is consulted (ast/helper.go)
        if S.get("acc") == "0" and A.get("res") != "syn" and case.split(" ")[-1] != "-":
            prop.append(f"ast.Parse accepted text that is not a sentence of the grammar: res={A.get('res')} (reference recogniser acc=0)")
        if "P" in (A.get("eval") or "") or "panic" in (A.get("res") or "") or "P" in (A.get("bolt") or ""):
            prop.append("panic during parsing/evaluation: res=%s eval=%s bolt=%s" % (A.get("res"), A.get("eval"), A.get("bolt")))
        for k in ("res", "typed", "eval"):
            if A.get(k) != M.get(k):
                corr.append(f"{k}: impl {A.get(k)} model {M.get(k)}")
        if A.get("cfg") == "P":
            prop.append("ast.Parse panics when the process-wide debug configuration is on (ast.EnableQueryDebug = true, debug log level); "
                        f"with the default configuration it returns res={A.get('res')}")
        elif A.get("cfg") != A.get("res"):
            prop.append(f"the verdict of ast.Parse depends on process-wide configuration: res={A.get('res')} by default, {A.get('cfg')} with ast.EnableQueryDebug")
        if A.get("cfg") != M.get("cfg"):
            corr.append(f"cfg: impl {A.get('cfg')} model {M.get('cfg')}")
    if kind == "B":
        if not impl.startswith("bolt="):
            prop.append("bolt store: " + impl)
        elif A.get("cfg") != "same":
            prop.append("Store.QueryIds answers differently with ast.EnableQueryDebug on: " + impl)
    if kind == "N":
        if not impl.startswith("fresh="):
            prop.append("read APIs on a database with never-created buckets: " + impl)
        else:
            ia = dict(x.split(":", 1) for x in impl[6:].split(","))
            ma = dict(x.split(":", 1) for x in model[6:].split(",")) if model.startswith("fresh=") else {}
            must = dict(x.split(":", 1) for x in spec[5:].split(",")) if spec.startswith("must=") else {}
            names = {"p": "ast.Parse", "qi": "QueryIds", "qc": "QueryIdsC", "qw": "QueryWithCursorC", "qn": "QueryWithCursorC (provider yields nil)",
                     "it": "IterateIds", "iv": "IterateValidIds", "fb": "FindById", "rl": "GetRelatedEntitiesIdList", "rc": "GetRelatedEntitiesCursor",
                     "ux": "unique ReadIndex.Read", "sx": "set ReadIndex.Read", "dq": "QueryIds with ast.EnableQueryDebug"}
            for k, v in ia.items():
                if v == "P":
                    prop.append(f"{names.get(k, k)} panics")
            must = dict(must, qi=must.get("qc"), dq=must.get("qc"))
            for k, v in ia.items():
                if must.get(k) == "1" and v.startswith("R"):
                    prop.append(f"{names.get(k, k)} returns rows ({v}) from buckets that were never created")
            if ia.get("dq") != ia.get("qi") and "P" not in (ia.get("dq"), ia.get("qi")):
                prop.append(f"QueryIds answers {ia.get('qi')} by default and {ia.get('dq')} with ast.EnableQueryDebug")
            ma = dict(ma, qi=ma.get("qc"))
            for k, mv in ma.items():
                iv = ia.get(k, "?")
                if ia.get("p") != "ok" and k in ("qi", "qc", "qw", "qn", "it", "iv"):
                    ok = iv in ("X", "-")
                elif mv == "S":
                    ok = iv == "E" or iv.startswith("R")
                else:
                    ok = iv == mv
                if not ok and iv != "P":
                    corr.append(f"{names.get(k, k)}: impl {iv} model {mv}")
    if kind == "O":
        if not impl.startswith("obj="):
            prop.append("object store: " + impl)
    if kind == "H":
        ri, rm, rs = (x[2:].split("|") if x.startswith("h=") else [x] for x in (impl, model, spec))
        if "panic" in impl:
            prop.append("panic in a history of ast.Parse calls: " + impl)
        elif ri != rs:
            k = next((j for j, (x, y) in enumerate(zip(ri, rs)) if x != y), min(len(ri), len(rs)))
            prop.append(f"call {k + 1} of the history: ast.Parse returned {ri[k] if k < len(ri) else '?'} but the same text parsed alone "
                        f"yields {rs[k] if k < len(rs) else '?'} (the answer depends on what was parsed before)")
        if ri != rm:
            corr.append(f"history: impl {impl} model {model}")
    if kind == "T":
        if impl != spec:
            prop.append(f"tree cursor: impl {impl} spec {spec}")
        if impl != model:
            corr.append(f"tree cursor: impl {impl} model {model}")
    return prop, corr


def _run_alone(case):
    """implementation and spec output of one case line, each in a fresh process"""
    env = dict(os.environ, GOMEMLIMIT="8GiB")
    a = par_run([common.HARNESS, "c10", "exec"], [case], env=env)[0]
    m = par_run([common.DRIVER], [case])[0]
    s = par_run([common.DRIVER, "spec"], [case])[0]
    return a, m, s


def confirm_history(b):
    """a history case failed inside a long-running harness process, whose earlier cases are part of the real
    history: re-run it alone (fresh process), and drop calls from it as long as it keeps failing, so that the
    replay file holds a self-contained minimal history.  Returns the (possibly shrunk) failure or None."""
    c = b[0]
    a, m, s = _run_alone(c)
    p, _ = compare(c, a, m, s, None)
    if not p:
        return None
    f = c.split(" ")
    head, texts = f[:2], f[2:]
    i = 0
    while i < len(texts) and len(texts) > 1:
        cand = texts[:i] + texts[i + 1:]
        c2 = " ".join(head + cand)
        a2, m2, s2 = _run_alone(c2)
        p2, _ = compare(c2, a2, m2, s2, None)
        if p2:
            texts, c, a, m, s, p = cand, c2, a2, m2, s2, p2
        else:
            i += 1
    return (c, a, m, s, p)


MATCHERS = {}  # no open finding (objectz nil iterator: fixed in bbcb51c)

RULE = ("streams: grammar-derived sentences with type-undirected operands; 1-2 token-level mutations of them "
        "(delete/duplicate/swap/replace/insert, unrecognised characters); all token sequences of length <=3 (quick) / <=4 "
        "(thorough) over two ~20-token alphabets joined by a blank and short ones joined by nothing; random token "
        "sequences; random code points; sentences over a schema evaluated against rows with null fields, empty sets, "
        "empty child stores; the same kind of sentences through real bolt stores (empty store, entities without fields, "
        "populated, mixed, a 14-row dataset with null / equal / NaN sort keys, mistyped values) and through objectz stores (empty, nil "
        "fields, full, mixed, nil iterator), plus sort clauses over every symbol kind, 1-8 fields, duplicates, and every skip x limit out "
        "of 16 extreme values, judged for panics; histories of 1-6 ast.Parse calls in one process (every ordered pair out of 78 fixed texts - non-sentences, "
        "listener errors, typing errors, sentences, predicate-less sentences, the empty filter - and random sequences of generated sentences, "
        "their mutations and predicate-less tails), every call compared with the same text parsed alone; read APIs (QueryIds / QueryIdsC / QueryWithCursorC / IterateIds / IterateValidIds / FindById / GetRelatedEntitiesIdList / GetRelatedEntitiesCursor / ReadIndex.Read) of a root, a linked and a child store against fresh database files in which nothing / only another store / only a sibling under the same base path / only the parent / only the linked store / everything was ever written, x every filter family x 13 sort clauses x 8 skip/limit pairs; every Q and B case and every N query also under ast.EnableQueryDebug + debug log level; every ASCII and 24 non-ASCII code points in 28 lexical contexts; tree-set cursor scripts. distinct = distinct case lines; non-trivial = the input is not "
        "trivially rejected at its first token (at least two tokens lexed) or is accepted")


def nontrivial(case, impl):
    A = kv(impl)
    k = case.split(" ")[0]
    if k in ("L", "Q"):
        if A.get("acc") == "1" or (A.get("tok", "-").count(".") >= 1):
            return case
        return None
    if k == "B":
        return case if impl.startswith("bolt=ok") or impl.startswith("panic") else None
    if k == "O":
        return case if impl.startswith("obj=ok") or impl.startswith("panic") else None
    if k == "H":
        return case if "ok:" in impl or impl.startswith("panic") else None
    if k == "N":
        return case if "p:ok" in impl or ":P" in impl else None
    return case


def histogram(lines, impl):
    h = {}
    for c, a in zip(lines, impl):
        k = c.split(" ")[0]
        A = kv(a)
        if k in ("L", "Q"):
            key = f"{k}:" + ("accepted" if A.get("acc") == "1" else ("lex-error" if "!" in A.get("tok", "") else "syntax-error"))
            if k == "Q" and A.get("acc") == "1":
                key = "Q:" + (A.get("res") or "?")
        elif k == "B":
            key = "B:" + ("panic" if a.startswith("panic") else ("evaluated" if a.startswith("bolt=ok") else "rejected"))
        elif k == "O":
            key = "O:" + ("panic" if a.startswith("panic") else ("evaluated" if a.startswith("obj=ok") else "rejected"))
        elif k == "H":
            key = "H:%d-calls" % (len(c.split(" ")) - 2)
        elif k == "N":
            key = "N:" + c.split(" ")[1] + ("" if "p:ok" in a else ":rejected")
        else:
            key = k
        h[key] = h.get(key, 0) + 1
    return h


def run(ctx, replay_cases=None):
    ctx.assumptions += [
        "the ANTLR runtime (ATN interpreter, prediction, error recovery) is represented by the reference lexer - which interprets the rule table compiled from zitiql/ZitiQl.g4 as re-read on every run - and the reference recogniser, proved equivalent to the grammar file's parser rules (accepts_iff_g4); the generated zitiql_lexer.go / zitiql_parser.go are tied to the same file by their decoded ATNs (labels per rule, names, numbering - not the graph structure) and by comparing token stream, accept/reject and listener callback sequence on every generated input",
        "the .g4 reader of extract/c10_lexer.go parses the grammar file correctly (what it yields is cross-checked against the generated Go code by lexer_atn_matches_grammar / parser_atn_matches_grammar)",
        "bolt_sort_no_panic: stored values are what the TypedBucket setters write (tag bool/int32/int64/float64 with payload length 1/4/8/8); bbolt, llrb and the boltz / objectz iteration are exercised for panics on real stores, not modelled",
        "ANTLR parse-tree walks, also of error-recovered trees, visit only element tokens inside the three array rules (predicate `clean`, checked on every real callback sequence)",
        "ast.Symbols implementations return non-nil cursors from OpenSetCursor / OpenSetCursorForQuery (boltz/query_cursor.go does)",
        "float64 literals and fields are modelled by their exact decimal value; the generator keeps evaluated numbers to <= 15 significant digits and |n| < 2^53 where this is exact",
        "termination of the implementation is observed with a per-case timeout, not proved",
        "scan_no_panic_missing_buckets: the nil-ness analysis of extract/c10_buckets.go is syntactic (a site counts as guarded when the function compares the identifier with nil anywhere); the N cases exercise every modelled API on real database files in every bucket state",
    ]
    with common.Lock():
        common.build_tools(ctx)
        built = common.prove(ctx, MODULE, THEOREMS, TABLE_OBLIGATIONS)
    trusted = common.BASE_TRUST + [
        "ANTLR 4 runtime + generated lexer/parser: modelled (reference lexer/recogniser), agreement checked per input, not proved",
        "strconv.ParseInt/ParseFloat range behaviour, time.Parse(RFC3339), strings.NewReplacer: modelled in C10/Basic.lean, exercised by the correspondence",
    ]
    if not (ctx.harness_ok and ctx.driver_ok):
        ctx.obligation("harness and model driver build against /repo", False,
                       (ctx.harness_log if not ctx.harness_ok else ctx.driver_log)[-400:])
        common.violation(ctx, "tie-broken", None,
                         {"reason": "harness or Lean driver does not build against the current tree",
                          "log": (ctx.harness_log if not ctx.harness_ok else ctx.driver_log)[-2000:]}, no_input=True)
        return common.finish(ctx, trusted_base=trusted)
    if replay_cases is not None:
        lines = list(replay_cases)
    else:
        lines = common.corpus_cases("c10") + [l for l in common.gen_cases(ctx, "c10").split("\n") if l]
    seen, uniq = set(), []
    for l in lines:
        if l not in seen:
            seen.add(l)
            uniq.append(l)
    lines = uniq
    env = dict(os.environ, GOMEMLIMIT="8GiB")
    impl = par_run([common.HARNESS, "c10", "exec"], lines, env=env)
    model = par_run([common.DRIVER], lines)
    spec = par_run([common.DRIVER, "spec"], lines)
    # stage 2: the listener model on the callback sequences the real parser produced
    eidx, elines = [], []
    for i, (c, a) in enumerate(zip(lines, impl)):
        if c[:1] in ("L", "Q"):
            ev = kv(a).get("ev")
            if ev is not None:
                eidx.append(i)
                elines.append("E " + ev)
    eout = par_run([common.DRIVER], elines)
    estage = {i: o for i, o in zip(eidx, eout)}
    n = len(lines)
    if ctx.replay_mode:
        for i in range(n):
            print(json.dumps({"case": lines[i], "input": text_of(lines[i]), "implementation": impl[i], "model": model[i],
                              "spec": spec[i], "listener_model_on_real_callbacks": estage.get(i)}, indent=1))
    prop_bad, corr_bad, keys = [], [], set()
    for i in range(n):
        c, a, m, s = lines[i], impl[i], model[i], spec[i]
        k = nontrivial(c, a)
        if k is not None:
            keys.add(k)
        p, co = compare(c, a, m, s, estage.get(i))
        if p:
            prop_bad.append((c, a, m, s, p))
        elif co:
            corr_bad.append((c, a, m, s, co))
    ctx.coverage.update({
        "evaluations": n,
        "distinct_nontrivial": len(keys),
        "rule": RULE,
        "samples": [describe(lines[i], impl[i], model[i], spec[i]) for i in sorted(set([0, n // 3, n // 2, n - 1])) if 0 <= i < n],
        "input_distribution": histogram(lines, impl),
        "listener_callback_sequences_checked": len(elines),
        "impl_vs_spec_disagreements": len(prop_bad),
        "impl_vs_model_disagreements": len(corr_bad),
    })
    ctx.obligation("correspondence: implementation output = model output on every generated case "
                   "(tokens, accept/reject, listener callbacks and error latch, parse result, typed tree, evaluation)",
                   not corr_bad and not [b for b in prop_bad if b[1] != b[2] and compare(b[0], b[1], b[2], b[3], None)[1]],
                   f"{len(corr_bad)} disagreement(s)")
    unknown = []
    for b in prop_bad:
        if common.classify(ctx, MATCHERS, b[0], {"impl": b[1], "model": b[2], "spec": b[3], "why": b[4]}) is None:
            unknown.append(b)
    # history cases: the harness process is itself one long history, so a failing case may owe its failure to
    # cases run before it.  Candidates (the shortest of every history length) are re-run alone and shrunk; when
    # some reproduce, only self-contained failures are reported: the confirmed histories, and other failing
    # cases only if the smallest of them also fails alone.
    hist = [b for b in unknown if b[0].startswith("H ")]
    if hist:
        by_len = {}
        for b in sorted(hist, key=lambda u: len(u[0])):
            by_len.setdefault(len(b[0].split(" ")), []).append(b)
        cands = [b for k in sorted(by_len) for b in by_len[k][:4]][:24]
        confirmed = []
        for b in cands:
            x = confirm_history(b)
            if x is not None:
                confirmed.append(x)
                if len(confirmed) >= 3:
                    break
        if confirmed:
            others = [b for b in unknown if not b[0].startswith("H ")]
            if others:
                c0 = min(others, key=lambda u: (len(text_of(u[0])), len(u[0]), u[0]))[0]
                a0, m0, s0 = _run_alone(c0)
                if not compare(c0, a0, m0, s0, None)[0]:
                    others = []
            unknown = others + confirmed
    if unknown:
        c, a, m, s, why = min(unknown, key=lambda u: (len(text_of(u[0])), sum(1 for ch in text_of(u[0]) if not ch.isprintable()), len(u[0]), u[0]))
        common.violation(ctx, "property-fails-on-input", c,
                         describe(c, a, m, s, {"why": why, "unlisted_failing_cases": len(unknown),
                                               "more": [text_of(u[0]) for u in sorted(unknown, key=lambda u: len(text_of(u[0])))[1:8]]}))
    elif corr_bad:
        c, a, m, s, why = min(corr_bad, key=lambda u: (len(text_of(u[0])), u[0]))
        common.violation(ctx, "correspondence-broken", c,
                         describe(c, a, m, s, {"why": why, "disagreements": len(corr_bad),
                                               "reason": "implementation and Lean model disagree although the implementation still meets the spec on every explored input; the theorems no longer speak about this code"}),
                         no_input=True)
    elif not built or ctx.broken:
        common.violation(ctx, "obligation-broken", None,
                         {"reason": "a proof obligation no longer checks; the search over the generated cases found no (unlisted) input on which the property fails",
                          "lean_errors": [l for l in getattr(ctx, "lean_log", "").splitlines() if "error" in l][:10]},
                         no_input=True)
    return common.finish(ctx, trusted_base=trusted)
