"""C19 — the in-memory object store answers queries like the bolt-backed store."""
from collections import Counter

from . import c02_c19_flow as flow

MODULE = "StorageModel.Properties.C19"
THEOREMS = ["objectz_paging_facts_expected", "boltz_paging_facts_expected", "objectz_filter_exact", "objectz_exact",
            "objectz_eq_bolt", "objectz_order_independent", "pinned_isnil_violates"]
TABLE = ["objectz_paging_facts_expected / boltz_paging_facts_expected (Generated/PagingFacts.lean: shape of setPaging, maxResults and the eviction test, regenerated from objectz/object_store.go and boltz/query_scanners.go)"]


def _f(case):
    f = case.split(" ")
    return dict(rows=f[1], filter=f[2], sort=f[3], skip=f[4], limit=f[5], order=f[6])


def nontrivial(case, impl):
    """non-trivial: at least 2 objects match and a null test, a sort field, skip or limit is present"""
    c = _f(case)
    if "err" in impl.split("|")[1] or impl.startswith("panic"):
        return None
    try:
        count = int(impl.split("|")[1].split("#")[1])
    except (IndexError, ValueError):
        return None
    if count < 2:
        return None
    if c["sort"] == "-" and c["skip"] == "-" and c["limit"] == "-" and not c["filter"].startswith(("null", "notnull")):
        return None
    return (c["rows"], c["filter"], c["sort"], c["skip"], c["limit"])


def describe(case, impl, model, spec):
    c = _f(case)

    def sec(line):
        return dict(p.split("=", 1) for p in (line or "").split("|") if "=" in p) or line
    return {"case": case, "rows": flow.split_rows(c["rows"]) or c["rows"], "filter": c["filter"], "sort": c["sort"],
            "skip": c["skip"], "limit": c["limit"], "object_iteration_order": c["order"],
            "impl": sec(impl), "model": sec(model), "spec": sec(spec)}


def histogram(lines):
    h = {"rows": Counter(), "sort": Counter(), "skip": Counter(), "limit": Counter(), "filter": Counter(), "order": Counter()}
    for l in lines:
        c = _f(l)
        n = len(flow.split_rows(c["rows"]))
        h["rows"]["no bucket" if c["rows"] == "-" else str(n)] += 1
        h["sort"][flow.sort_histogram(c["sort"])] += 1
        h["skip"][flow.paging_class(c["skip"], n)] += 1
        h["limit"][flow.paging_class(c["limit"], n)] += 1
        h["filter"][c["filter"].split(".")[0]] += 1
        h["order"][c["order"][:3]] += 1
    return {k: dict(sorted(v.items())) for k, v in h.items()}


def candidates(case):
    f = case.split(" ")
    out = []

    def put(i, v):
        g = list(f)
        g[i] = v
        out.append(" ".join(g))
    if f[6] != "fwd":
        put(6, "fwd")
    for v in flow.sort_variants(f[3]):
        put(3, v)
    for v in flow.row_variants(f[1]):
        put(1, v)
    for v in flow.num_variants(f[4]):
        put(4, v)
    for v in flow.num_variants(f[5]):
        put(5, v)
    if not f[2].startswith(("true", "null", "notnull")):
        put(2, "true")
    return out


MATCHERS = {}

RULE = ("200 (quick) / 4000 (thorough) random collections of 0-7 objects over tiny value pools (null pointers, ties, "
        "empty string, -0.0/+0.0, +-Inf, min/max int64, equal instants), each loaded into a bolt store and into an "
        "objectz.ObjectStore whose iterator yields them forward, reversed, rotated or in Go map order (IterateMap), x "
        "75/100 queries: filter in {= null, != null (50%), true, one typed comparison}, 0-6 sort fields either "
        "direction, skip and limit from {absent, none, min64, -5, -1, 0, 1, 2, n-1, n, n+1, 2n, max64-1, max64} plus "
        "non-integer numbers. Each case runs boltz QueryIds, objectz QueryEntities, and QueryEntitiesC twice on one "
        "query object. non-trivial = at least two objects match and a null test, sort field, skip or limit is present; "
        "distinct = (collection, filter, sort, skip, limit)")


def run(ctx, replay_cases=None):
    ctx.assumptions += [
        "object symbols return the typed pointer of the object's field (objects 'hold the same field values' as the bolt rows: the harness builds both from one dataset)",
        "the biogo llrb tree behaves as a strictly sorted list with replace-on-equal Insert and DeleteMax = drop the last element",
        "object ids are distinct (hypothesis DistinctIds) and no float64 sort key is NaN (hypothesis NoNaNKeys)",
        "fewer than 2^63 objects",
        "filters are those of the fragment in Query/Filter.lean over non-set symbols; set symbols are not implemented by objectz (OpenSetCursor panics by design) and are outside the property",
        "bolt side: the assumptions of C02 (bbolt key order)",
    ]
    return flow.flow(ctx, "c19", MODULE, THEOREMS, MATCHERS, nontrivial, describe, RULE, histogram, candidates,
                     table_obligations=TABLE, replay_cases=replay_cases)
