"""C19 — the in-memory object store answers queries like the bolt-backed store."""
from collections import Counter

from . import c02_c19_flow as flow

MODULE = "StorageModel.Properties.C19"
THEOREMS = ["objectz_paging_facts_expected", "boltz_paging_facts_expected", "objectz_filter_exact", "objectz_exact",
            "objectz_eq_bolt", "objectz_order_independent", "pinned_isnil_violates",
            "objectz_eq_bolt_any_filter", "objectz_needs_id", "objectz_nil_iterator_empty", "set_function_on_non_set_rejected",
            "objectz_float_comparator_facts_expected", "boltz_float_comparator_facts_expected",
            "objectz_time_representation_irrelevant", "objectz_eq_bolt_time_values",
            "objectz_store_facts_expected", "history_independent", "standAlone_objectz_eq_bolt", "standAlone_objectz_exact",
            "history_objectz_eq_bolt"]
TABLE = ["objectz_paging_facts_expected / boltz_paging_facts_expected (Generated/PagingFacts.lean: shape of setPaging, maxResults and the eviction test, regenerated from objectz/object_store.go and boltz/query_scanners.go)",
         "objectz_float_comparator_facts_expected / boltz_float_comparator_facts_expected (Generated/PagingFacts.lean: branch chain of the float64 sort comparators incl. the NaN branch, regenerated from objectz/object_store_sort.go and boltz/query_sort.go)",
         "objectz_store_facts_expected (Generated/ObjectzStore.lean: the fields of struct ObjectStore, the package-level variables of objectz, every write to / method call on a store field outside NewObjectStore and Add…Symbol, the shape of QueryEntities / QueryEntitiesC — regenerated from objectz/*.go; the history model carries no state of the store object between calls)"]


def _is_hist(case):
    return case.startswith("H ")


def _steps(case):
    return [st.split("/") for st in case.split(" ")[1:]]


def _hist_nontrivial(case, impl):
    """a history counts when at least two of its calls executed a query and one of them returned >= 2 objects"""
    if impl.startswith("panic") or impl in ("bad-case", "hang"):
        return None
    execs, big = 0, False
    for sec in impl.split("|"):
        for part in sec.split(";"):
            if "=" in part and "#" in part:
                execs += 1
                try:
                    big = big or int(part.split("#")[1]) >= 2
                except ValueError:
                    pass
    return ("H", case) if execs >= 2 and big else None


def _hist_describe(case, impl, model, spec):
    steps = case.split(" ")[1:]

    def secs(line):
        p = (line or "").split("|")
        return p if len(p) == len(steps) else line
    a, m, sp = secs(impl), secs(model), secs(spec)
    rows = []
    for i, st in enumerate(steps):
        e = {"step": st}
        for name, v in (("impl", a), ("model", m), ("spec", sp)):
            e[name] = v[i] if isinstance(v, list) else v
        rows.append(e)
    return {"case": case, "kind": "history of calls on one ObjectStore object per variant (o full, s sub, n noid) and one bolt store (b)",
            "steps": rows, "first_differing_step": next((i for i, e in enumerate(rows) if e["impl"] != e["spec"]), None),
            "impl": impl, "model": model, "spec": spec}


def _hist_candidates(case):
    steps = case.split(" ")[1:]
    out = []

    def put(i, st):
        g = list(steps)
        if st is None:
            del g[i]
        else:
            g[i] = st
        out.append("H " + " ".join(g))
    for i in range(len(steps) - 1, 0, -1):
        put(i, None)
    for i, st in enumerate(steps):
        p = st.split("/")
        if p[0] == "D":
            if i == 0:
                for v in flow.row_variants(p[1]):
                    put(i, "/".join(["D", v, p[2]]))
            if p[2] != "fwd":
                put(i, "/".join(["D", p[1], "fwd"]))
        elif p[0] in ("T", "P"):
            o = 2 if p[0] == "T" else 3
            if p[0] == "T" and len(p[1]) > 1:
                for k in range(len(p[1])):
                    put(i, "/".join([p[0], p[1][:k] + p[1][k + 1:]] + p[2:]))
            if p[-1] != "0":
                put(i, "/".join(p[:-1] + ["0"]))
            for v in flow.filter_variants(p[o]):
                put(i, "/".join(p[:o] + [v] + p[o + 1:]))
            for v in flow.sort_variants(p[o + 1]):
                put(i, "/".join(p[:o + 1] + [v] + p[o + 2:]))
            for j in (o + 2, o + 3):
                for v in flow.num_variants(p[j]):
                    put(i, "/".join(p[:j] + [v] + p[j + 1:]))
        elif p[0] == "C" and len(p[2]) > 1:
            for k in range(len(p[2])):
                put(i, "/".join([p[0], p[1], p[2][:k] + p[2][k + 1:]]))
    return out


def _f(case):
    f = case.split(" ")
    return dict(rows=f[1], filter=f[2], sort=f[3], skip=f[4], limit=f[5], order=f[6], variant=f[7] if len(f) > 7 else "full",
                reps=f[8] if len(f) > 8 else "-")


def nontrivial(case, impl):
    """non-trivial: at least 2 objects match and a null test, a sort field, skip or limit is present"""
    if _is_hist(case):
        return _hist_nontrivial(case, impl)
    c = _f(case)
    if impl.startswith("panic") or "|" not in impl or "err" in impl.split("|")[1]:
        return None
    try:
        count = int(impl.split("|")[1].split("#")[1])
    except (IndexError, ValueError):
        return None
    if count < 2:
        return None
    if c["sort"] == "-" and c["skip"] == "-" and c["limit"] == "-" and "null" not in c["filter"]:
        return None
    key = (c["rows"], c["filter"], c["sort"], c["skip"], c["limit"], c["variant"])
    return key if c["reps"] == "-" else key + (c["reps"],)


def describe(case, impl, model, spec):
    if _is_hist(case):
        return _hist_describe(case, impl, model, spec)
    c = _f(case)

    def sec(line):
        return dict(p.split("=", 1) for p in (line or "").split("|") if "=" in p) or line
    return {"case": case, "rows": flow.split_rows(c["rows"]) or c["rows"], "filter": c["filter"], "sort": c["sort"],
            "skip": c["skip"], "limit": c["limit"], "object_iteration_order": c["order"], "object_store": c["variant"],
            "time_value_representations": c["reps"],
            "impl": sec(impl), "model": sec(model), "spec": sec(spec)}


def histogram(lines):
    h = {"rows": Counter(), "sort": Counter(), "skip": Counter(), "limit": Counter(), "filter": Counter(), "order": Counter(),
         "object_store": Counter(), "nan_data": Counter(), "time_reps": Counter(), "kind": Counter(),
         "history_steps": Counter(), "history_queries": Counter(), "history_step_kinds": Counter(), "history_spelling": Counter()}
    names = {"D": "collection changed", "T": "query text", "P": "parse into a kept object", "C": "kept object executed",
             "S": "SetSkip", "L": "SetLimit"}
    for l in lines:
        if _is_hist(l):
            h["kind"]["history"] += 1
            st = _steps(l)
            h["history_steps"][str(len(st))] += 1
            h["history_queries"][str(sum(len(p[1]) if p[0] == "T" else len(p[2]) if p[0] == "C" else 0 for p in st))] += 1
            for i, p in enumerate(st):
                if i > 0 or p[0] != "D":
                    h["history_step_kinds"][names.get(p[0], p[0])] += 1
                if p[0] in ("T", "P"):
                    try:
                        fl = int(p[-1]) & 15
                    except ValueError:
                        fl = 0
                    if fl == 0:
                        h["history_spelling"]["canonical"] += 1
                    for bit, nm in ((1, "whitespace varied"), (2, "keyword case varied"), (4, "redundant parentheses"), (8, "numbers re-spelled")):
                        if fl & bit:
                            h["history_spelling"][nm] += 1
            continue
        h["kind"]["single query"] += 1
        c = _f(l)
        n = len(flow.split_rows(c["rows"]))
        h["rows"]["no bucket" if c["rows"] == "-" else str(n)] += 1
        h["sort"][flow.sort_histogram(c["sort"])] += 1
        h["skip"][flow.paging_class(c["skip"], n)] += 1
        h["limit"][flow.paging_class(c["limit"], n)] += 1
        h["filter"][c["filter"].split("~")[0].split(".")[0]] += 1
        h["order"][c["order"][:3]] += 1
        h["object_store"][c["variant"]] += 1
        kinds = sorted({e.split(":")[1][:1] for e in c["reps"].split(",") if ":" in e})
        h["time_reps"]["all UTC" if not kinds else "+".join({"z": "zones", "m": "monotonic"}.get(k, k) for k in kinds)] += 1
        h["nan_data"]["NaN float present" if "7ff8000000000001" in c["rows"] or "fff8000000000000" in c["rows"] else "no NaN"] += 1
    return {k: dict(sorted(v.items())) for k, v in h.items()}


def candidates(case):
    if _is_hist(case):
        return _hist_candidates(case)
    f = case.split(" ")
    out = []

    def put(i, v):
        g = list(f)
        g[i] = v
        out.append(" ".join(g))
    if f[6] != "fwd":
        put(6, "fwd")
    if len(f) > 7 and f[7] != "full":
        put(7, "full")
    if len(f) > 8 and f[8] != "-":
        put(8, "-")
        es = f[8].split(",")
        for i in range(len(es)):
            put(8, ",".join(es[:i] + es[i + 1:]) or "-")
            if not es[i].endswith(":z1"):
                put(8, ",".join(es[:i] + [es[i].split(":")[0] + ":z1"] + es[i + 1:]))
    for v in flow.filter_variants(f[2]):
        put(2, v)
    for v in flow.sort_variants(f[3]):
        put(3, v)
    for v in flow.row_variants(f[1]):
        put(1, v)
    for v in flow.num_variants(f[4]):
        put(4, v)
    for v in flow.num_variants(f[5]):
        put(5, v)
    if not f[2].startswith(("true", "null", "notnull")) and "~" not in f[2]:
        put(2, "true")
    return out


MATCHERS = {}

RULE = ("200 (quick) / 4000 (thorough) random collections of 0-7 objects over tiny value pools (null pointers, ties, "
        "empty string, -0.0/+0.0, +-Inf, NaN, min/max int64, equal instants, the zero time), each loaded into a bolt store and into "
        "objectz.ObjectStores whose iterator yields them forward, reversed, rotated or in Go map order (IterateMap), x "
        "75/100 queries: filter in {= null, != null (50%), true, one typed comparison}, 0-6 sort fields either "
        "direction, skip and limit from {absent, none, min64, -5, -1, 0, 1, 2, n-1, n, n+1, 2n, max64-1, max64} plus "
        "non-integer numbers; + 150/2500 collections (a third with NaN floats) x 40/60 queries against one of three "
        "object stores (all symbols / only id,s,i / no id symbol): filters nested with and/or/not to depth 3, filters on unknown symbols, set "
        "functions on non-set symbols, 0-9 sort fields with duplicates, id anywhere, unknown / set / AnyType / dotted sort fields; + 40/600 "
        "collections x 25/30 queries with NaN / +-Inf / -0 under the float64 sort key (all iteration orders); + 40/600 collections x 30 queries over keyword-like alias symbol names (as in C02) with every spelling of the sort "
        "direction; + 60/600 collections of 2-6 objects x 25/30 queries sorted by the datetime symbol where several objects hold the SAME instant as "
        "different time.Time values (UTC, three FixedZone pointers, time.Local, time.Now()-derived with monotonic reading; also the zero time), "
        "every iteration order and paging boundary. Each of these cases runs boltz QueryIds, "
        "objectz QueryEntities, and QueryEntitiesC twice on one query object. non-trivial = at least two objects match and a null test, sort field, "
        "skip or limit is present; distinct = (collection, filter, sort, skip, limit, object store); "
        "+ 1800/12000 HISTORIES on one set of store objects (fresh per history: an ObjectStore with every symbol, one with id,s,i, one without id, "
        "one bolt store, all over one collection of 2-5 objects whose string field is drawn from a whitespace / case family: 'a b', 'a  b', 'a b ', ' a b', "
        "'A b', 'A B', 'a<TAB>b', 'ab', 'a', '', null): 2-6 queries each, sent as text (QueryEntities / QueryIds) to one to three of the stores in any order, or "
        "parsed once (against either kind of store) into a kept ast.Query that is executed (QueryEntitiesC / QueryIdsC) on the object stores and the bolt store in turn, "
        "with SetSkip / SetLimit and changes of the whole collection in between; the next query of a history is the previous tokens again in another SPELLING "
        "(whitespace between tokens incl. tabs / newlines / none around operators, keyword case, redundant parentheses, 7 vs 7.0 vs 7e0, 0.5 vs 5e-1), a SIBLING "
        "(a string literal changed only in inner / outer whitespace or letter case, contains <-> icontains, the parentheses of a three-atom and/or tree moved), the same "
        "filter with another sort / skip / limit, or a fresh query; filters: =, !=, <, >= and [not] contains / icontains on the string symbol, comparisons on int / float / id, "
        "null tests, and/or/not. Every call of a history is judged against model and spec; a history is non-trivial when at least two of its calls executed a query and one "
        "returned >= 2 objects")


def run(ctx, replay_cases=None):
    ctx.assumptions += [
        "object symbols return the typed pointer of the object's field (objects 'hold the same field values' as the bolt rows: the harness builds both from one dataset)",
        "the biogo llrb tree behaves as a strictly sorted list with replace-on-equal Insert and DeleteMax = drop the last element",
        "object ids are distinct (hypothesis DistinctIds)",
        "time.Time values: modelled as instant + *Location identity + optional monotonic reading with Before/After as in package time; two monotonic readings order like their instants (hypothesis MonoConsistent: true unless the wall clock is stepped between two time.Now() calls; the harness derives all readings from one clock reading)",
        "filters outside the modelled fragment are covered by objectz_eq_bolt_any_filter under the hypothesis TypedLocal (the node reads every symbol through the accessor of its declared type and IsNil), which is proved for the fragment only",
        "fewer than 2^63 objects",
        "the executable filter fragment is that of Query/Filter.lean (typed comparisons, = null, != null, and/or/not) over non-set symbols; set symbols are not implemented by objectz (OpenSetCursor panics by design) and are outside the property; set functions on non-set symbols are rejected by both parsers",
        "bolt side: the assumptions of C02 (bbolt key order)",
        "histories: what a query TEXT denotes is taken from the harness's tokens (the spelling variants are produced by the harness from one token tuple; that ast.Parse reads every spelling as those tokens is part of what the correspondence checks, the parser itself is C10/C12's subject); contains / icontains are modelled on ASCII text (strings.ToUpper = ASCII upper-casing on the generated strings)",
        "histories: a kept ast.Query is executed on a store only if the store declares the symbols its filter reads (an ObjectCursor asked for an undeclared symbol dereferences nil: outside the property)",
    ]
    return flow.flow(ctx, "c19", MODULE, THEOREMS, MATCHERS, nontrivial, describe, RULE, histogram, candidates,
                     table_obligations=TABLE, replay_cases=replay_cases)
