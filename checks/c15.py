"""C15 — parent and child (extension) stores stay consistent."""
from . import common
from . import universe

MODULE = "StorageModel.Properties.C15"
THEOREMS = [
    "config_is_known",
    "create_captures_old_parent_values",
    "parent_constraints_apply_to_child_entities",
    "model_refines_spec",
    "derived_indexes_agree",
    "create_through_child_exists_in_both",
    "child_query_only_child_rows",
    "extended_query_all_parent_rows",
    "child_lookup_only_child_rows",
    "extended_lookup_all_parent_rows",
    "update_either_route_same_state",
    "update_either_route_same_events",
    "update_updates_shared_fields_and_indexes",
    "delete_either_route_removes_both",
    "delete_leaves_no_trace",
    "child_data_changes_only_by_create_delete",
    "uniqueness_enforced_through_child",
    "iterate_ids_cursor_is_list_cursor",
    "iterate_valid_ids_cursor_is_list_cursor",
    "cursor_rests_only_on_owned_ids",
    "query_lists_are_owned_ids",
    "paged_iterate_ids_cursor_is_paged_list_cursor",
    "paged_walk_is_page_of_owned_ids",
    "paged_cursor_rests_only_on_owned_ids",
    "query_with_cursor_only_owned_rows",
    "roles_index_cursor_enumerates_holders",
    "child_store_registration_order_irrelevant",
    "delete_fans_out_to_every_child_store",
    "delete_where_exact",
    "delete_where_through_child_spares_plain_parents",
    "reject_either_route_same",
    "lookup_apis_agree",
    "layering_shape_irrelevant",
    "invariant_for_every_path",
    "create_through_child_exists_in_both_for_every_path",
    "update_either_route_same_state_for_every_path",
    "parent_and_child_parts_disjoint",
    "create_through_child_exists_in_all_ancestors",
    "level_query_returns_exactly_kept_rows",
    "chain_delete_removes_entity_at_every_level",
    "chain_delete_leaves_deep_indexes_untouched",
    "chain_delete_leaves_no_trace_partial",
    "grandchild_delete_leaves_index_entry",
    "chain_delete_fullStatement_fails",
    "chain_create_captures_old_partial",
    "grandchild_create_over_root_only_leaves_stale_entries",
    "grandchild_create_over_root_only_refused_as_own_duplicate",
    "chain_create_fullStatement_fails",
    "level_query_agrees_with_lookup_partial",
    "extended_grandchild_query_lookup_mismatch",
    "level_query_lookup_fullStatement_fails",
]


# ------------------------------------------------------------------ case / output parsing

def parse_case(case):
    f = case.split(" ")
    txs = []
    for tx in f[1].split(";"):
        ops = []
        for o in tx.split(","):
            p = o.split("/")
            ops.append({"kind": p[0], "sel": int(p[1]), "id": int(p[2]) if p[0] != "w" else 0, "src": o})
        txs.append(ops)
    return txs


def segments(line):
    """[(results, committed, observation text)] per transaction"""
    out = []
    for seg in (line or "").split(" ;; "):
        head, _, obs = seg.partition(" F ")
        parts = head.split(" ")
        res = parts[0].split(",") if parts and parts[0] else []
        out.append((res, "commit" in parts, obs))
    return out


def first_finding_tx(case, ref_line):
    """index of the first transaction that executes a Create through a child store over an id whose
    parent entity exists without that child's data (presence tracked with the reference results)"""
    txs = parse_case(case)
    segs = segments(ref_line)
    parent, child = set(), {1: set(), 2: set()}
    for t, ops in enumerate(txs):
        if t >= len(segs):
            break
        res, committed, _ = segs[t]
        p2, c2 = set(parent), {1: set(child[1]), 2: set(child[2])}
        for i, op in enumerate(ops):
            if i >= len(res):
                break
            if op["kind"] == "c" and op["sel"] != 0 and op["id"] != 0 and op["id"] in p2 and op["id"] not in c2[op["sel"]]:
                return t
            if res[i] != "ok":
                break
            if op["kind"] == "c":
                p2.add(op["id"])
                if op["sel"] != 0:
                    c2[op["sel"]].add(op["id"])
            elif op["kind"] == "d":
                p2.discard(op["id"])
                c2[1].discard(op["id"])
                c2[2].discard(op["id"])
        if committed:
            parent, child = p2, c2
    return None


def first_diff_tx(a, b):
    sa, sb = (a or "").split(" ;; "), (b or "").split(" ;; ")
    for i in range(max(len(sa), len(sb))):
        if i >= len(sa) or i >= len(sb) or sa[i] != sb[i]:
            return i
    return None


# Create through a child store over an existing parent entity (reproduced with this check, repaired in
# /repo by 8269ce9) is ordinary input now.  Listed finding (round 14, three-level chains): see below.


def _chain_ctx(case, info):
    """(token, tx index of the first impl/spec difference, impl segments, spec segments, ops of that tx) or None;
    requires a three-level chain case on which implementation = model for the whole history"""
    tok = case.split(" ")[0]
    if len(tok) != 5 or tok[0] != "t":
        return None
    a, m, s = info["impl"], info["model"], info["spec"]
    if a is None or s is None or a != m:
        return None
    t = first_diff_tx(a, s)
    sa, ss = a.split(" ;; "), s.split(" ;; ")
    txs = parse_case(case)
    if t is None or t >= len(sa) or t >= len(ss) or t >= len(txs):
        return None
    return tok, t, sa, ss, txs[t]


def _flags(seg, store):
    """ids for which store `store` reports IsEntityPresent in this segment"""
    out = set()
    for f in seg.split(" P ")[1].split(" Q ")[0].split(" "):
        if f.startswith("%d." % store) and f.endswith("=P"):
            out.add(int(f[2:].split("=")[0]))
    return out


def _explain(case, info):
    """Which of the three listed chain findings explain the first differing transaction, or None if something
    in it is explained by none of them.  Requires implementation = model on the whole history.
      D  grandchild-delete-leaves-index: G declares an index; the transaction contains a DeleteById of an id that
         had G data; explains (transaction committed) reads of G's index (`g.<v>`, spec `-`) and dump lines of
         G's index bucket that only the implementation has, or a refusal with dup:tag of a later operation of the
         same transaction where the spec does not refuse (abort, observations = previous segment).
      C  grandchild-create-over-root-only: a Create through G meets an id existing in A without C data (presence
         from the previous segment + the operations before it in the transaction); explains EITHER a refusal
         with dup:name (by that create, or by a later operation of the same transaction after that create
         succeeded) where the spec does not refuse - the transaction aborts, observations = previous segment -
         OR name / roles index reads and dump lines of the root's name / roles index buckets that only the
         implementation has (stale entries).
      X  extended-grandchild-query-lookup-mismatch: G is extended; explains additional ids without C data in
         G's query / iterator answers and FindById misses of G on ids without C data (C extended)."""
    c = _chain_ctx(case, info)
    if c is None:
        return None
    tok, t, sa, ss, ops = c
    root = _flags(sa[t - 1], 0) if t > 0 else set()
    mid = _flags(sa[t - 1], 1) if t > 0 else set()
    low = _flags(sa[t - 1], 2) if t > 0 else set()
    (ra, committed, _), (rs, _, _) = segments(sa[t])[0], segments(ss[t])[0]
    trig_d, trig_c, refused = False, False, False
    for i, op in enumerate(ops):
        if i >= len(ra) or i >= len(rs):
            break
        if op["kind"] == "c" and op["sel"] == 2 and op["id"] in root and op["id"] not in mid:
            trig_c = True
        if ra[i] != rs[i]:
            if trig_c and ra[i] == "dup:name":
                refused = "C"
                break
            if trig_d and ra[i] == "dup:tag":  # the entry left by a delete earlier in this transaction
                refused = "D"
                break
            return None
        if ra[i] != "ok":
            break
        if op["kind"] == "c":
            root.add(op["id"])
            if op["sel"] >= 1:
                mid.add(op["id"])
            if op["sel"] == 2:
                low.add(op["id"])
        elif op["kind"] == "d":
            if op["id"] in low and tok[3] == "i":
                trig_d = True
            root.discard(op["id"])
            mid.discard(op["id"])
            low.discard(op["id"])
    if refused:
        prev = sa[t - 1].partition(" F ")[2] if t > 0 else None
        ok = " abort " in sa[t] and (prev is None or sa[t].partition(" F ")[2] == prev)
        return {refused} if ok else None
    trig_d = trig_d and committed
    trig_x = tok[2] == "x"
    now_mid = _flags(sa[t], 1)
    used = set()
    pa, ps = sa[t].split(" "), ss[t].split(" ")
    if len(pa) != len(ps):
        return None
    for x, y in zip(pa, ps):
        if x == y:
            continue
        kx, _, vx = x.partition("=")
        ky, _, vy = y.partition("=")
        if x.startswith("/") and y.startswith("/"):
            la, ls = set(x.split(",")), set(y.split(","))
            if ls - la:
                return None
            for l in la - ls:
                if trig_d and "/indexes/things/tag/" in l:
                    used.add("D")
                elif trig_c and ("/indexes/things/name/" in l or "/indexes/things/roles/" in l):
                    used.add("C")
                else:
                    return None
        elif kx != ky:
            return None
        elif trig_d and kx.startswith("g.") and vy == "-":
            used.add("D")
        elif trig_c and kx.startswith("n.") and vy == "-":
            used.add("C")
        elif trig_c and kx.startswith("r.") and (set(vy.split(".")) - {"-"}) < (set(vx.split(".")) - {"-"}):
            used.add("C")
        elif trig_x and kx in ("2.t", "2.n1", "2.r1", "2.s", "2.i"):
            ia = [int(z) for z in vx.split("#")[0].split(".") if z != "-"]
            isp = [int(z) for z in vy.split("#")[0].split(".") if z != "-"]
            extra = [z for z in ia if z not in isp]
            if not extra or any(z in now_mid for z in extra) or any(z not in ia for z in isp):
                return None
            used.add("X")
        elif trig_x and tok[1] == "x" and kx.startswith("2.") and kx[2:].isdigit() and vx == "-" and vy != "-" \
                and int(kx[2:]) not in now_mid:
            used.add("X")
        else:
            return None
    return used or None


def grandchild_delete_leaves_index(case, info):
    return "D" in (_explain(case, info) or ())


def grandchild_create_over_root_only(case, info):
    return "C" in (_explain(case, info) or ())


def extended_grandchild_query_lookup_mismatch(case, info):
    return "X" in (_explain(case, info) or ())


MATCHERS = {"grandchild-delete-leaves-index": grandchild_delete_leaves_index,
            "grandchild-create-over-root-only": grandchild_create_over_root_only,
            "extended-grandchild-query-lookup-mismatch": extended_grandchild_query_lookup_mismatch}


def nontrivial(case, impl):
    """a history in which operations through the parent store and through a child store both
    committed (mixed population / both routes exercised)"""
    txs = parse_case(case)
    segs = segments(impl)
    via = set()
    for t, ops in enumerate(txs):
        if t < len(segs) and segs[t][1]:
            for op in ops:
                via.add(op["sel"] != 0)
    if via == {True, False}:
        return case
    return None


def diff_fields(a, b):
    xa, xb = (a or "").split(" "), (b or "").split(" ")
    out = []
    for i in range(max(len(xa), len(xb))):
        p = xa[i] if i < len(xa) else None
        q = xb[i] if i < len(xb) else None
        if p != q:
            out.append([p, q])
        if len(out) >= 12:
            break
    return out


def describe(case, impl, model, spec):
    d = {"case": case, "transactions": case.split(" ")[1].split(";") if " " in case else []}
    if case[:1] == "k":
        d["items"] = case.split(" ")[2].split(";")
        ki, ks, km = [(x or "").split(" ;; ")[-1].split(" ")[1:] for x in (impl, spec, model)]
        d["items_where_impl_differs_from_spec"] = [[ki[i], ks[i]] for i in range(min(len(ki), len(ks))) if ki[i] != ks[i]][:6]
        d["items_where_impl_differs_from_model"] = [[ki[i], km[i]] for i in range(min(len(ki), len(km))) if ki[i] != km[i]][:6]
    ds = first_diff_tx(impl, spec)
    dm = first_diff_tx(impl, model)
    d["first_tx_where_impl_differs_from_spec"] = ds
    d["first_tx_where_impl_differs_from_model"] = dm
    si, sm, ss = (impl or "").split(" ;; "), (model or "").split(" ;; "), (spec or "").split(" ;; ")
    if ds is not None:
        d["impl_vs_spec"] = diff_fields(si[ds] if ds < len(si) else "", ss[ds] if ds < len(ss) else "")
    if dm is not None:
        d["impl_vs_model"] = diff_fields(si[dm] if dm < len(si) else "", sm[dm] if dm < len(sm) else "")
    d["legend"] = ("ops: c/<store>/<id>/<name>/<roles>/<child> create, u/…/<checker> update or patch, d/<store>/<id> DeleteById, w/<store>/<filter> DeleteWhere; name 9 and more than three roles are refused by the parent strategy (invalid:name / invalid:roles); per transaction: <results> commit|abort E <store><c|u|d><id> (entity events delivered) F <store>.<id>=name/roles/child (FindById) L <store>.<id>=<LoadById>|<LoadEntity>|<P: IsEntityPresent><B: GetEntityBucket != nil> Q <store>.<query>=ids "
                   "(QueryIds true, name=v1, anyOf(roles)=r1, true sort by name) I <store>.i / .v (IterateIds / IterateValidIds) "
                   "X n.<v> r.<v> c.<v> (index reads) D bucket dump; stores 0=A 1=A1(plain child) 2=A2(extended child); "
                   "k cases end with a segment K <item>=<observation>: <store>/i|v/<filter>/<steps> = Current() (- invalid) after opening the "
                   "IterateIds / IterateValidIds cursor and after every step (n = Next, s<k> = Seek to id k, 0 before all, 9 after all); "
                   "<store>/q/<filter>/<u|s>/<provider> = QueryWithCursorC (s: sort by name) over the listed existing ids (l…) or the roles index cursor (x<role>); "
                   "<store>/p|P/<filter>/<skip>/<limit>/<steps> = the same trace for IterateIds (p) / IterateValidIds (P) of the compiled query '<filter> skip <skip> limit <limit>' (limit - = none); "
                   "<store>/Q/<filter>/<skip>/<limit> = QueryIds of that query: ids of the page # count of all matching rows")
    if impl is not None and len(impl) < 4000:
        d["impl"], d["model"], d["spec"] = impl, model, spec
    return d


RULE = ("histories of 4-12 transactions (1-3 operations each; first error aborts the transaction) of create / update / "
        "patch (field checker over name, roles, child field) / DeleteById / DeleteWhere (filters true, name=v1, anyOf(roles)=r1; 1 delete in 4) "
        "with shared-field values the parent entity strategy refuses mixed in (reserved name 1 in 20, four roles 1 in 14) issued through the parent store A, the plain "
        "child store A1 and the extended child store A2 over 4 ids (+ blank), 4 names (+ empty), 3 roles, child values "
        "nil/empty/4 values; 54 fixed route-pair histories + random ones (every history may, and 1 in 6 creates "
        "deliberately seek to, create through a child store over an existing parent-only id); after every transaction the entity events delivered to the three stores' listeners, FindById / LoadById / LoadEntity / IsEntityPresent / GetEntityBucket x 3 stores x 4 ids, 4 queries x 3 stores, "
        "IterateIds/IterateValidIds x 3 stores, 12 index reads and the full boltz.Traverse dump are compared; "
        "cursor cases (k): every population of 4 (thorough: 5) ids over {absent, plain parent, A1 data, A2 data, both} + run-structured random "
        "populations of 8 ids (runs of 0-4 ids without extension data between, before and after entities with it; 1 in 3 followed by 1-3 ordinary "
        "transactions), then IterateIds / IterateValidIds cursors of all three stores driven by Next/Seek scripts (a sweep seeking to every "
        "target incl. before-all / after-all / absent ids, each followed by two Next; random scripts of 3-12 steps; filters true, name=v1, "
        "anyOf(roles)=r1) and QueryWithCursorC (unsorted / sort by name) over listed ids or the roles index cursor, every observation compared; "
        "paged walks (k cases, round 10): every population of 4 (thorough: 5) ids over the five kinds + 200 (thorough 2500) run-structured populations of 8 ids, "
        "then through every store IterateIds(compiled query with skip 0-4 and limit none / 0-5) walked to the end with Next and driven by random Next/Seek scripts, "
        "IterateValidIds(query) through the stores that are not extended, and QueryIds of the same query text (page + count), filters true / name=v1 / anyOf(roles)=r1; "
        "g cases: the same schema with the extended child store's strategy registered before the plain child store's (the 54 fixed histories + "
        "random histories), all observations as for h; "
        "every case carries the shape of the layering drawn for it (kind token <kind>~<A1 path>~<A2 path>~<parent base path>): nine shapes with "
        "child data paths of 1, 2 and 3 segments, shared prefixes (ext.a / ext.b, x.y.a / x.y.b), parent base paths of 1-3 segments, segments named "
        "like the children's field keys; the first 36 cases cycle through the pool, of the rest half keep ext1 / ext2 / u; the stores are wired with "
        "these paths and the dump shows the real buckets; "
        "t cases (round 14): three-level chains A -> C -> G of real stores (G declared with Parent: C and registered with C; token t<C p|x><G p><G index i|n><path shape 0-2>: "
        "C and G plain or extended, G with or without an own unique index, G's path extending C's with 1-3 segments; 11 configurations), 26 fixed histories per configuration "
        "(create through C or G, update / patch / delete through each of the three stores, neighbours holding competing names) + random histories of 4-10 transactions through all three stores "
        "(every id through every store, Create through G over root-only entities included), after every transaction FindById / IsEntityPresent / 4 queries / IterateIds / IterateValidIds through each store, "
        "name / roles / code / tag index reads and the full dump compared; "
        "non-trivial = operations through the parent store and through a child store both committed; distinct = history text")


def histogram(lines, impl):
    h = {}

    def inc(k):
        h[k] = h.get(k, 0) + 1

    for c, a in zip(lines, impl):
        txs = parse_case(c)
        segs = segments(a)
        inc("histories")
        inc("shape:" + (c.split(" ")[0].partition("~")[2] or "ext1~ext2~u"))
        if c[:1] == "g":
            inc("histories-with-A2-registered-first")
        for t, ops in enumerate(txs):
            inc("transactions")
            if t < len(segs):
                inc("tx:" + ("commit" if segs[t][1] else "abort"))
                for i, op in enumerate(ops):
                    if i < len(segs[t][0]):
                        r = segs[t][0][i]
                        inc("op:%s:store%d" % (op["kind"], op["sel"]))
                        inc("result:" + (r if not r.startswith("other") else "other"))
        if first_finding_tx(c, a) is not None:
            inc("histories-with-child-create-over-existing-parent")
        if c[:1] == "k":
            inc("cursor-cases")
            for it in c.split(" ")[2].split(";"):
                p = it.split("/")
                if p[1] == "q":
                    inc("item:QueryWithCursorC:store%s:%s" % (p[0], "index-cursor" if p[4].startswith("x") else "list"))
                elif p[1] == "Q":
                    inc("item:QueryIds-paged:store%s" % p[0])
                elif p[1] in ("p", "P"):
                    inc("item:%s-paged:store%s" % ("IterateIds" if p[1] == "p" else "IterateValidIds", p[0]))
                    inc("paged:skip%s:limit%s" % (p[3] if int(p[3]) < 3 else "3+", "none" if p[4] == "-" else ("0" if p[4] == "0" else "n")))
                    for st in (p[5].split(".") if p[5] != "-" else []):
                        inc("step:" + ("Next" if st == "n" else "Seek"))
                else:
                    inc("item:%s:store%s" % ("IterateIds" if p[1] == "i" else "IterateValidIds", p[0]))
                    for st in (p[3].split(".") if p[3] != "-" else []):
                        inc("step:" + ("Next" if st == "n" else "Seek"))
    return h


# ------------------------------------------------------------------ shrinking

def fails(ctx, case, unknown_only=True):
    impl, model, spec = common.run_cases(ctx, "c15", case + "\n")
    if len(impl) != 1 or len(model) != 1 or len(spec) != 1:
        return None
    a, m, s = impl[0], model[0], spec[0]
    if a == s and a == m:
        return None
    if a != s and unknown_only:
        saved = dict(ctx.known_hits)
        k = common.classify(ctx, MATCHERS, case, {"impl": a, "model": m, "spec": s})
        ctx.known_hits = saved
        if k is not None:
            return None
    return (case, a, m, s)


def split_case(case):
    """(kind, [tx text], [item text])   kind h: no items; kind k: cursor scripts / provider queries"""
    f = case.split(" ")
    return f[0], f[1].split(";"), (f[2].split(";") if len(f) > 2 else [])


def join_case(kind, txs, items):
    return kind + " " + ";".join(txs) + ((" " + ";".join(items)) if kind[:1] == "k" else "")


def shrink(ctx, bad, want_spec_diff):
    """delta-debug the items of a `k` case (and the steps of their scripts), then the transaction
    list, then the operations inside transactions"""
    best = bad
    budget = [90]

    def ok(res):
        return res is not None and ((res[1] != res[3]) if want_spec_diff else (res[1] != res[2]))

    def attempt(cand):
        nonlocal best
        if budget[0] <= 0:
            return False
        budget[0] -= 1
        res = fails(ctx, cand)
        if ok(res):
            best = res
            return True
        return False

    kind, txs, items = split_case(best[0])
    if kind[:1] == "k":
        # keep one differing item if a single one suffices
        a_items = (best[1] or "").split(" ;; ")[-1].split(" ")[1:]
        ref = ((best[3] if want_spec_diff else best[2]) or "").split(" ;; ")[-1].split(" ")[1:]
        differing = [i for i in range(min(len(items), len(a_items), len(ref))) if a_items[i] != ref[i]]
        if differing and len(items) > 1 and attempt(join_case(kind, txs, [items[differing[0]]])):
            items = [items[differing[0]]]
        else:
            for i in range(len(items) - 1, -1, -1):
                if len(items) > 1 and attempt(join_case(kind, txs, items[:i] + items[i + 1:])):
                    items = items[:i] + items[i + 1:]
        # shorten the scripts
        for i in range(len(items)):
            p = items[i].split("/")
            if ((len(p) == 4 and p[1] in ("i", "v")) or (len(p) == 6 and p[1] in ("p", "P"))) and p[-1] != "-":
                steps = p[-1].split(".")
                j = len(steps) - 1
                while j >= 0 and len(steps) > 1:
                    cand_steps = steps[:j] + steps[j + 1:]
                    cand_items = items[:i] + ["/".join(p[:-1] + [".".join(cand_steps)])] + items[i + 1:]
                    if attempt(join_case(kind, txs, cand_items)):
                        steps, items = cand_steps, cand_items
                    j -= 1
    changed = True
    while changed and budget[0] > 0:
        changed = False
        for i in range(len(txs) - 1, -1, -1):
            if len(txs) <= 1 or budget[0] <= 0:
                break
            if attempt(join_case(kind, txs[:i] + txs[i + 1:], items)):
                changed = True
                txs = txs[:i] + txs[i + 1:]
        for i in range(len(txs)):
            ops = txs[i].split(",")
            for j in range(len(ops) - 1, -1, -1):
                if len(ops) <= 1 or budget[0] <= 0:
                    break
                cand_tx = ops[:j] + ops[j + 1:]
                if attempt(join_case(kind, txs[:i] + [",".join(cand_tx)] + txs[i + 1:], items)):
                    changed = True
                    ops = cand_tx
                    txs[i] = ",".join(ops)
    return best


# ------------------------------------------------------------------ the check

def run(ctx, replay_cases=None):
    ctx.assumptions += [
        "bbolt buckets are finite maps with keys in byte order, a Db.Update transaction applies all of its writes or none (exercised by the dump comparison after every transaction, aborted ones included)",
        "the child stores are declared as in boltz/manager_store_test.go (StoreDefinition.Parent / ParentMapper, entity strategies persisting the shared fields through PersistContext.GetParentContext, ChildStoreUpdateHandler registered with RegisterChildStoreStrategy); the update mapper answers 'has child data' with IsEntityPresent and copies the caller's shared fields into the stored child entity",
        "identifiers and values are non-empty ASCII strings except where the empty string is the point (blank id, empty name, empty child value); roles are non-empty",
    ]
    with common.Lock():
        common.build_tools(ctx)
        built = common.prove(ctx, MODULE, THEOREMS,
                             ["config_is_known, create_captures_old_parent_values (Generated/C15Config.lean, regenerated from BaseStore.Create in boltz/store_crud.go)"])
    trusted = common.BASE_TRUST
    if not (ctx.harness_ok and ctx.driver_ok):
        ctx.obligation("harness and model driver build against /repo", False,
                       (ctx.harness_log if not ctx.harness_ok else ctx.driver_log)[-400:])
        common.violation(ctx, "tie-broken", None,
                         {"reason": "harness or Lean driver does not build against the current tree",
                          "log": (ctx.harness_log if not ctx.harness_ok else ctx.driver_log)[-2000:]}, no_input=True)
        return common.finish(ctx, trusted_base=trusted)
    if replay_cases is not None:
        lines = replay_cases
    else:
        lines = common.corpus_cases("c15") + [l for l in common.gen_cases(ctx, "c15").split("\n") if l]
    impl, model, spec = common.run_cases(ctx, "c15", "\n".join(lines) + "\n")
    n = len(lines)
    if len(impl) != n or len(model) != n or len(spec) != n:
        ctx.obligation("output streams aligned", False, f"cases {n} impl {len(impl)} model {len(model)} spec {len(spec)}")
        common.violation(ctx, "tie-broken", None,
                         {"reason": "output streams not aligned (crash?)", "cases": n, "impl": len(impl),
                          "model": len(model), "impl_tail": [x[-300:] for x in impl[-2:]]}, no_input=True)
        return common.finish(ctx, trusted_base=trusted)
    spec_bad, corr_bad, keys = [], [], set()
    for i in range(n):
        c, a, m, s = lines[i], impl[i], model[i], spec[i]
        k = nontrivial(c, a)
        if k is not None:
            keys.add(k)
        if a != s:
            spec_bad.append((c, a, m, s))
        elif a != m:
            corr_bad.append((c, a, m, s))
    ncorr = len(corr_bad) + len([b for b in spec_bad if b[1] != b[2]])
    ctx.coverage.update({
        "evaluations": n,
        "distinct_nontrivial": len(keys),
        "rule": RULE,
        "samples": [describe(lines[i], impl[i], model[i], spec[i]) for i in sorted(set([0, n // 3, n // 2, n - 1])) if 0 <= i < n],
        "impl_vs_spec_disagreements": len(spec_bad),
        "impl_vs_model_disagreements": ncorr,
        "histogram": histogram(lines, impl),
        "observations_per_transaction": 12 + 48 + 12 + 6 + 12 + 1,
    })
    ctx.obligation("correspondence: implementation output = model output on every generated history", ncorr == 0,
                   f"{ncorr} disagreement(s)")
    universe.universe_stream(ctx, ["C15"])  # end of the generated-cases phase: the shared universe stream
    unknown = []
    for b in spec_bad:
        if common.classify(ctx, MATCHERS, b[0], {"impl": b[1], "model": b[2], "spec": b[3]}) is None:
            unknown.append(b)
    listed = [t for _, t in common.load_known(ctx.prop)]
    for t in listed:
        if t not in ctx.known_hits:
            ctx.notes.append(f"listed finding did not reproduce in this run: {t}")
    if unknown:
        b = shrink(ctx, common.shortest(unknown), True)
        c, a, m, s = b
        common.violation(ctx, "property-fails-on-input", c,
                         dict(describe(c, a, m, s), unlisted_failing_cases=len(unknown),
                              more=[u[0] for u in sorted(unknown, key=lambda u: len(u[0]))[:5]]))
    elif corr_bad or ncorr:
        pool = corr_bad or [b for b in spec_bad if b[1] != b[2]]
        b = shrink(ctx, common.shortest(pool), False) if corr_bad else common.shortest(pool)
        c, a, m, s = b
        common.violation(ctx, "correspondence-broken", c,
                         dict(describe(c, a, m, s), disagreements=ncorr,
                              reason="implementation and Lean model disagree although no unlisted input violating the spec was found; the theorems no longer speak about this code"),
                         no_input=True)
    elif not built or ctx.broken:
        common.violation(ctx, "obligation-broken", None,
                         {"reason": "a proof obligation no longer checks; the search over the generated histories found no (unlisted) history on which the property fails",
                          "lean_errors": [l for l in getattr(ctx, "lean_log", "").splitlines() if "error" in l][:10]},
                         no_input=True)
    return common.finish(ctx, trusted_base=trusted)
