"""C18 — concurrent use: snapshot-isolated reads and no data races (partly decidable by proof).

  build tools (extractors incl. extract/globals.go -> Generated/Globals.lean, harness, driver)
  prove + audit Properties/C18            MVCC theorems for all interleavings; `no_unsynchronised_global_writes`
                                          decided over the regenerated table of package-level variables
  mv cases   : N reader goroutines against a writer, real boltz stores on a temp bolt file; every recorded read
               transaction (version tag read twice + 5 observations) is judged by the Lean driver against the
               store model evaluated on the tagged version  (correspondence + property in one: `driver spec`)
  race cases : the same harness built with `go build -race` (CGO_ENABLED=1) is the SEARCH for a data-race
               witness in concurrent ast.Parse / Store.GetSymbol / Is*Error helpers / parse+query under a
               writer; a race-detector report is the replay.  A clean race run proves nothing.
  cr cases   : all transactions committed first, then 3-6 readers released together hammer 2-6 query kinds (external symbols,
               empty filter + per-reader paging on the parsed query, set symbols ...); the serial baseline, the first read
               transactions and every read transaction deviating from the baseline are judged by the Lean driver as above
  tables     : Generated/Globals.lean also lists, per package-level variable, type / mutable / the functions handing it out,
               and every escaping function literal with the captured variables it writes: `no_shared_mutable_escape`
  sq cases   : filter texts with explicit skip and limit parsed once per round, the compiled query run by several read
               transactions released together (first use of every node is concurrent); judged like cr, and run under -race
  cw cases   : ONE goroutine plays a script of writer events (whole transactions, or begin / operation / commit / rollback in
               pieces) and reader events (begin, end, observe - incl. cursors walked to their end, then Seek-ed and walked again
               after other read transactions scanned); the Lean driver runs the MVCC transition system on the script and the
               implementation's whole output must equal the model's log
  tables (14): every sync.Pool / Put (`no_pooled_object_outlives_release`), every write of a method to its receiver's state
               with read-API reachability and shared / per-call receiver type (`read_apis_do_not_write_receiver_state`)
  probe      : one compiled ast.Query shared by goroutines (setPaging stores default skip/limit nodes in it) —
               outside the property's wording, reported in the evidence, never a violation.
"""
import collections
import json
import os
import re

from . import common

MODULE = "StorageModel.Properties.C18"
THEOREMS = ["read_sees_one_version", "one_version_per_read_tx", "all_or_nothing_visibility", "abort_invisible",
            "model_logs_pass_check", "paged_query_is_page_of_all",
            "no_unsynchronised_global_writes", "global_table_anchors",
            "no_shared_mutable_escape", "shared_escape_meaning", "escape_table_anchors",
            "no_append_onto_shared_slice", "append_table_meaning", "append_table_anchors",
            "eval_does_not_write_nodes", "node_write_table_meaning", "node_write_table_anchors",
            "no_process_wide_config_calls", "config_call_table_meaning",
            "read_apis_do_not_write_arguments", "param_write_table_meaning", "param_write_table_anchors",
            "remove_before_delivers_only_to_own", "listener_discipline_pinned", "every_parse_delivers_only_to_own",
            "pooled_parser_carries_no_collector",
            "no_append_onto_handed_out_slice", "result_append_table_meaning", "result_append_table_anchors",
            "sorted_scans_keep_their_sort_fields", "sorted_scan_touches_no_earlier_array", "sort_fields_observation",
            "sorted_shared_answer_is_page_of_the_filtered_rows",
            "repeated_read_in_one_read_tx_is_stable", "seek_rewalk_is_suffix_of_walk", "rewalk_after_other_scans_sees_own_version",
            "no_pooled_object_outlives_release", "pool_table_meaning", "pool_table_anchors",
            "read_apis_do_not_write_receiver_state", "receiver_write_table_meaning", "receiver_write_table_anchors"]
TABLE_OBLIGATIONS = ["no_unsynchronised_global_writes (Generated/Globals.lean, regenerated from the package-level vars of zitiql/ast/boltz/objectz)",
                     "global_table_anchors (same table)",
                     "no_shared_mutable_escape (same file: escapes of mutable package-level variables + captured writes of escaping function literals)",
                     "escape_table_anchors (same tables)",
                     "no_append_onto_shared_slice (same file: every append whose first argument is / may alias a slice kept in a struct field or package variable)",
                     "append_table_anchors (same table)",
                     "eval_does_not_write_nodes (same file: writes to receiver state in methods of ast node types, by phase)",
                     "node_write_table_anchors (same table)",
                     "read_apis_do_not_write_arguments (same file: functions that write through slice / map / pointer parameters, by API kind)",
                     "param_write_table_anchors (same table)",
                     "listener_discipline_pinned (same file: what zitiql.parse does with the error listeners of the pooled parser and lexer)",
                     "no_append_onto_handed_out_slice (same file: functions returning a stored slice x appends onto the result of a call, directly / through a local / through a slice parameter at the call site)",
                     "result_append_table_anchors (same tables)",
                     "no_process_wide_config_calls (same file: calls into other modules that set process-wide state, assignments to their package variables)",
                     "no_pooled_object_outlives_release (same file: every sync.Pool and every Put into one - what is put, whether the putter took it from the pool itself, deferred, escapes; hand-made free lists)",
                     "pool_table_anchors (same tables)",
                     "read_apis_do_not_write_receiver_state (same file: writes of methods to fields of their receiver, read API by name or reachable from one, shared long-lived receiver type or per-call, under a lock)",
                     "receiver_write_table_anchors (same table)"]

RULE = ("mv: seeded random writer histories of 4..17 (quick) / 4..27 (thorough) transactions, each 1-4 operations "
        "(create-or-update of name/rank/roles, delete, SetLinks) over 6 things x 3 groups, 1 in 6 aborted; 2-5 reader "
        "goroutines run read transactions until the writer is done, each = version tag, 5 random observations out of "
        "{parse+QueryIds on name / rank / anyOf(roles) / anyOf(groups) / anyOf(groups.label) / sort by rank desc limit k, "
        "unique-index read, set-index read, links from both sides, FindById}, version tag again; the first read "
        "transaction of every version a reader met is recorded. non-trivial = recorded read transaction whose tag is "
        "neither 0 nor the final version (it ran while the writer was in the middle of its history) and has a non-empty "
        "answer; distinct = (case, reader, tag). Round 2 observation kinds (in mv, cr and the race scenarios): QueryIds on the "
        "empty filter; ast.Parse of \"\" / rank >= n followed by the reader's own SetSkip / SetLimit and QueryIdsC; filters on the "
        "externally computed symbols even (NewBoolFuncSymbol) and ext (NewStringFuncSymbol); two outstanding Eval results of an "
        "external symbol decoded after both evaluations. cr: 16-40 rows (ids 10..) created and then changed by 2-6 random "
        "transactions, all committed first; serial baseline of every query of the case's 2-6 focus kinds; then 3-6 reader "
        "goroutines released together run 150 (quick) / 500 (thorough) read transactions of 5 random such queries; recorded = "
        "baseline + first 2 per reader + every read transaction deviating from the baseline (<= 3 per reader); non-trivial = "
        "a recorded concurrent read transaction with a non-empty answer; distinct = (case, reader, n). "
        "Round 3: filters on nested elements of two map symbols (tags under ext/meta: site.name, site.zone, owner.name, a.b.c; attrs under "
        "ext/meta/deep: a.b.c, a.x.c, site.name, owner.name), different readers using different nested keys; GetSymbol(A), GetSymbol(B), "
        "A.Eval, B.Eval on one row (I). "
        "Round 4, sq: rows and history as for cr; 14 (+8 sorted, round 9) filter texts with explicit skip and limit (in [...] over string / int / float "
        "arrays, between, icontains, set functions, composite set symbol, sub-query with own paging, external + map symbol, negation, "
        "sorting scanner) each parsed ONCE per round and the compiled query run by 3-5 readers released together, 30 (quick) / 100 "
        "(thorough) rounds; recorded and judged as for cr. The parse race scenario also goes through zitiql.ParseWithDebug(true/false), "
        "zitiql.Parse and ast.Parse with ast.EnableQueryDebug toggled, on valid and invalid inputs. "
        "Round 5: FindMatching / FindMatchingAnyOf / IteratorMatchingAllOf / IteratorMatchingAnyOf on the roles set index with one of 8 "
        "values slices (not ascending, 1-4 values, a duplicate, empty) that all readers of a case share; the answer starts with 1 iff the "
        "caller's slice is unchanged after the call; roles now 0-4 of r0..r4 per entity. "
        "Round 6: U<t>: QueryIds with one of 10 templates (not contains / not in / not between / icontains / in / contains+between / anyOf+or / "
        "sort by desc limit none / isEmpty+null / count+skip+limit) in a spelling — per-letter keyword case, 1-3 white-space characters inside "
        "keyword operators — taken from a process-wide counter, so no spelling is ever presented twice; the parse race scenario parses such fresh "
        "spellings too; the debugparse scenario interleaves diagnostic parses with a syntax error, plain parses with a LEXER error (`rank = 1 # b`) "
        "and plain valid parses on 2 Ps with a yield after every parse. "
        "Round 9: sq texts 14-21 are sorted on 1..8 fields (rank / even / ext with nil / name, mixed directions, repeated fields, first field "
        "never id, explicit skip and limit) so that the slice GetSortFields hands the sorting scanner has every capacity shape of append growth "
        "(spare slots at 3, 5, 6, 7 fields); O<k> (mv, cr): one parsed query with k sort fields, two callers each append their own element to "
        "GetSortFields() - answer = both lengths and whether each still holds its own element. "
        "Round 14: C<k><aa> / D<k><aa><xx> (mv, cr, cw, race cursorwalk): a seekable id cursor (IterateIds / IterateValidIds, 9 filter kinds: rank, "
        "set symbol, fk set symbol, composite set symbol, external symbol, unique name, nested map element, valid-ids, per-row sub-query) walked to "
        "its end, then - after a yield, other readers scanning meanwhile - repositioned with Seek and walked again. cw: ONE goroutine plays a script of "
        "25-65 events (2-3 readers beginning / ending read transactions on raw bbolt transactions, cursor walks, seeks of earlier cursors, plain "
        "observations, whole write transactions and write transactions in pieces with reader events in between, commits and rollbacks); the whole "
        "output must equal the log the Lean MVCC model produces for the script, and every read transaction is judged on its tagged version; "
        "non-trivial = read transaction that observed something on a version other than the final one. race pubsym: IsPublicSymbol / "
        "ValidateSymbolsArePublic / GetPublicSymbols / GetSymbol / GetSymbolType / NewScanner with element names under the public map symbol tags "
        "(and the non-public attrs) that no earlier call of the process presented. "
        "race: 11 scenarios x 6 goroutines under the race detector + 2 mv + 4 cr + 2 sq + 2 cw cases")

MATCHERS = {}   # no open finding (debug-parse-stale-listener was repaired by 956c2a8)
REVIEWED_APPENDS = {("boltz", "NewBaseStore", "definition.BasePath")}   # = C18/Globals.lean reviewedAppends
REVIEWED_RESULT_APPENDS = {("boltz", "NewBaseStore", "GetRootPath")}   # = C18/Globals.lean reviewedResultAppends


def _lines(s):
    ls = s.split("\n")
    if ls and ls[-1] == "":
        ls.pop()
    return ls


def sh_to(cmd, inp, timeout, env=None):
    """common.sh with the timeout turned into an outcome (a spinning process is an outcome, not an exception)"""
    import subprocess
    try:
        return common.sh(cmd, inp=inp, timeout=timeout, env=env)
    except subprocess.TimeoutExpired as e:
        out = e.stdout.decode("utf-8", "replace") if e.stdout else ""
        return 124, out + f"\nfatal error: no result within {timeout}s (process killed)"


def run_three(ctx, lines, harness=None, timeout=600, env=None):
    data = ("\n".join(lines) + "\n").encode()
    env = env or dict(os.environ, GOMEMLIMIT="4GiB")
    rc, impl = sh_to([harness or common.HARNESS, "c18", "exec"], data, timeout, env)
    impl_l = _lines(impl)
    if rc != 0 or len(impl_l) != len(lines):
        # the process died (Go "fatal error", e.g. concurrent map access, is not recoverable): run every case in
        # its own process so that the crashing input is identified
        ctx.log(f"harness exec exited {rc}; re-running the {len(lines)} cases one process each")
        impl_l = []
        for l in lines:
            rc1, out1 = sh_to([harness or common.HARNESS, "c18", "exec"], (l + "\n").encode(), 40, env)
            o = _lines(out1)
            if rc1 == 0 and len(o) == 1:
                impl_l.append(o[0])
            else:
                m = re.search(r"(fatal error: [^\n]*|panic: [^\n]*|unexpected fault address[^\n]*)", out1)
                impl_l.append("crash:" + (m.group(1) if m else f"exit {rc1}").replace(" ", "_").replace("\t", "_"))
    rc, model = common.sh([common.DRIVER], inp=data, timeout=timeout)
    model_l = _lines(model)
    spec_l = []
    if len(impl_l) == len(lines):
        sdata = ("\n".join(c + "\t" + a for c, a in zip(lines, impl_l)) + "\n").encode()
        rc, spec = common.sh([common.DRIVER, "spec"], inp=sdata, timeout=timeout)
        spec_l = _lines(spec)
    return impl_l, model_l, spec_l


def build_race(ctx):
    """second harness binary, race-instrumented, into the per-run directory"""
    hdir = os.path.join(common.VERIF, "harness")
    modfile = os.path.join(hdir, "go.mod")
    if os.path.realpath(common.REPO) != "/repo":
        modfile = os.path.join(ctx.run_dir, "go.mod")
    out = os.path.join(ctx.run_dir, "harness_race")
    env = dict(common.GOENV, CGO_ENABLED="1")
    rc, log = common.sh(["go", "build", "-race", "-modfile", modfile, "-tags", "verif", "-o", out,
                         *common.harness_files("C18")], cwd=hdir, env=env)
    return (out if rc == 0 else None), log


def trim_report(text):
    """one race report, shortened to the frames that identify it: the head of each section (the access, the previous
    access, the two goroutines), consecutive repeats of a frame dropped"""
    sections, cur = [], []
    for l in text.splitlines():
        if (l.startswith("Previous") or l.startswith("Goroutine")) and cur:
            sections.append(cur)
            cur = []
        if l.startswith("WARNING") or l.startswith("Read at") or l.startswith("Write at") or l.startswith("Previous") \
                or l.startswith("Goroutine") or "fatal error" in l:
            cur.append(l.strip())
        elif l.startswith("  ") and not l.startswith("      "):
            cur.append(l.rstrip())
        elif l.startswith("      "):
            cur.append("      " + l.strip().split(" +0x")[0])
    if cur:
        sections.append(cur)
    keep = []
    for sec in sections:
        out, seen = [], set()
        k = 0
        while k < len(sec):
            frame = tuple(sec[k:k + 2]) if sec[k].startswith("  ") and not sec[k].startswith("      ") else (sec[k],)
            if frame not in seen:
                seen.add(frame)
                out.extend(frame)
            k += len(frame)
        keep.extend(out[:31])
    return "\n".join(keep[:110])


def _first_frames(report):
    """the innermost frame of the access and of the previous access"""
    fr = []
    ls = report.splitlines()
    for k, l in enumerate(ls):
        if (l.startswith("Read at") or l.startswith("Write at") or l.startswith("Previous")) and k + 1 < len(ls):
            fr.append(ls[k + 1].strip())
    return fr


def race_run(ctx, race_bin, case, tag):
    """run one case line in its own race-instrumented process; returns (output line, [reports])"""
    log_path = os.path.join(ctx.run_dir, f"race-{tag}")
    env = dict(os.environ, GORACE=f"log_path={log_path} halt_on_error=0", GOMEMLIMIT="4GiB")
    rc, out = sh_to([race_bin, "c18", "exec"], (case + "\n").encode(), 300, env)
    reports = []
    for fn in sorted(os.listdir(ctx.run_dir)):
        if fn.startswith(f"race-{tag}."):
            txt = open(os.path.join(ctx.run_dir, fn), errors="replace").read()
            for block in txt.split("=================="):
                if "DATA RACE" in block:
                    reports.append(trim_report(block))
    if rc != 0 and rc != 66:
        # the process died (e.g. "fatal error: concurrent map writes"): that is a witness too
        m = re.search(r"fatal error: [^\n]*", out)
        reports.append("process exited %d: %s\n%s" % (rc, m.group(0) if m else "", trim_report(out[-3000:])))
    line = _lines(out)[0] if _lines(out) else ""
    return line, reports


def in_storage(report):
    return "openziti/storage/" in report or "/zitiql" in report or "process exited" in report


def nontrivial_keys(case, impl):
    f = impl.split(" ")
    if not f or not f[0].startswith("v"):
        return set()
    final = f[0][1:]
    keys = set()
    if case.startswith("cw "):
        for tok in f[1:]:
            p = tok.split(":")
            if len(p) == 4 and p[1] != final and any(not r.endswith("=-") for r in p[3].split("|")):
                keys.add((case, p[0], p[1]))
        return keys
    if case.startswith("cr ") or case.startswith("sq "):
        for tok in f[1:]:
            p = tok.split(":")
            if len(p) == 4 and not p[0].startswith("s.") and any(not r.endswith("=-") for r in p[3].split("|")):
                keys.add((case, p[0], p[1]))
        return keys
    for tok in f[1:]:
        p = tok.split(":")
        if len(p) != 4:
            continue
        if p[1] not in ("0", final) and any(not r.endswith("=-") for r in p[3].split("|")):
            keys.add((case, p[0].split(".")[0], p[1]))
    return keys


def histogram(lines, impl):
    h = collections.Counter()
    for l, a in zip(lines, impl):
        f = l.split(" ")
        if f[0] == "cw":
            h["cw events=%d0s" % (len(f) // 10)] += 1
            for t in f[2:]:
                h["cw:" + ("reader-begin" if t.startswith("rb") else "reader-end" if t.startswith("re") else "observe" if t.startswith("r") else
                           "writer-piece" if t.startswith("w") else "tx:commit" if t.startswith("c:") else "tx:abort")] += 1
            for tok in a.split(" ")[1:]:
                p = tok.split(":")
                if len(p) == 4:
                    h["read-transactions-recorded"] += 1
                    for r in p[3].split("|"):
                        h["obs:" + re.sub(r"\d+$", "", r.split("=")[0])] += 1
        elif f[0] in ("mv", "cr", "sq"):
            h[f[0] + " readers=" + f[1]] += 1
            if f[0] == "cr":
                h["cr focus=" + f[4]] += 1
            for t in (f[5:] if f[0] == "cr" else f[4:]):
                h["tx:" + ("commit" if t[0] == "c" else "abort")] += 1
                for op in t[2:].split("/"):
                    if op:
                        h["op:" + {"p": "put", "d": "delete", "l": "setlinks"}.get(op[0], "?")] += 1
            for tok in a.split(" ")[1:]:
                p = tok.split(":")
                if len(p) == 4:
                    h["read-transactions-recorded"] += 1
                    for r in p[3].split("|"):
                        h["obs:" + re.sub(r"\d+$", "", r.split("=")[0])] += 1
        else:
            h[" ".join(f[:2])] += 1
    return dict(sorted(h.items()))


def run(ctx, replay_cases=None):
    ctx.assumptions += [
        "bbolt read transactions are MVCC snapshots of the newest committed state at Begin, a write transaction's changes become visible atomically at commit and never on rollback (this IS the Mvcc model; it is assumed of bbolt and exercised by every mv case)",
        "absence of data races is a property of the Go memory model and the scheduler: it is not proved; the table obligation sees only assignments / element writes / address-taking of package-level variables in function bodies of the four packages (not writes through aliases created elsewhere, not library internals such as the ANTLR runtime's shared DFA caches or strings.Replacer), and the race detector sees only the schedules that happened",
        "a compiled ast.Query whose skip or limit is IMPLICIT is not shared between goroutines by the caller (setPaging writes the defaults into it; examined as a probe, outside the property's wording); a compiled query with explicit skip and limit is read-only under evaluation and IS covered (sq cases, eval_does_not_write_nodes); two separate Parse calls returning the same object is a defect and is searched for (observation kinds A/P/Q, no_shared_mutable_escape)",
        "the escape / closure tables are syntactic (go/parser): aliases are followed inside one function only, function literals passed as call arguments are not listed, types of other modules are opaque",
    ]
    with common.Lock():
        common.build_tools(ctx)
        built = common.prove(ctx, MODULE, THEOREMS, TABLE_OBLIGATIONS)
        ctx.offenders = _offenders()   # read under the lock: the facts directory is shared between runs
        ctx.escape_offenders = _escape_offenders()
    trusted = common.BASE_TRUST + ["bbolt's MVCC (modelled by C18/Mvcc.lean, see assumptions)",
                                   "the Go race detector as a search tool (never as a proof)"]
    if not (ctx.harness_ok and ctx.driver_ok):
        ctx.obligation("harness and model driver build against /repo", False,
                       (ctx.harness_log if not ctx.harness_ok else ctx.driver_log)[-400:])
        common.violation(ctx, "tie-broken", None,
                         {"reason": "harness or Lean driver does not build against the current tree",
                          "log": (ctx.harness_log if not ctx.harness_ok else ctx.driver_log)[-2000:]}, no_input=True)
        return common.finish(ctx, trusted_base=trusted)
    race_bin, race_log = build_race(ctx)
    if race_bin is None:
        ctx.notes.append("race-instrumented harness could not be built (CGO/-race unavailable?): the race SEARCH did not run: " + race_log[-300:])
    if replay_cases is not None:
        lines = replay_cases
    else:
        lines = common.corpus_cases("c18") + [l for l in common.gen_cases(ctx, "c18").split("\n") if l]
    mv_lines = [l for l in lines if l.startswith("mv ") or l.startswith("cr ") or l.startswith("sq ") or l.startswith("cw ")]
    race_lines = [l for l in lines if l.startswith("race ")]

    # ---- isolation: reader logs against the model on the tagged version
    impl, model, spec = run_three(ctx, mv_lines) if mv_lines else ([], [], [])
    n = len(mv_lines)
    if len(impl) != n or len(model) != n or len(spec) != n:
        ctx.obligation("output streams aligned", False, f"cases {n} impl {len(impl)} model {len(model)} spec {len(spec)}")
        common.violation(ctx, "tie-broken", None, {"reason": "output streams not aligned (crash?)", "cases": n,
                                                   "impl": len(impl), "impl_tail": [x[:300] for x in impl[-2:]]}, no_input=True)
        return common.finish(ctx, trusted_base=trusted)
    if ctx.replay_mode:
        for i in range(n):
            print(json.dumps({"case": mv_lines[i], "impl": impl[i][:4000], "model": model[i], "spec": spec[i]}, indent=1), flush=True)
    keys = set()
    bad = []
    for i in range(n):
        keys |= nontrivial_keys(mv_lines[i], impl[i])
        if spec[i] != "ok" or (impl[i] != model[i] if mv_lines[i].startswith("cw ") else impl[i].split(" ")[0] != model[i]):
            # a cw case is one goroutine playing a script: the implementation's whole log = the MVCC model's log
            bad.append(i)
    recorded = sum(max(0, len(a.split(" ")) - 1) for a in impl)
    ctx.obligation("correspondence: every recorded read transaction of every reader = store model evaluated on the version it was tagged with; final version = number of committed transactions",
                   not bad, f"{len(bad)} case(s) disagree")

    # ---- race search
    reports = []   # (case, report)
    known_reports = []   # reports that are a known finding
    race_out = []
    probe = None
    if race_bin is not None:
        extra = ([l for l in mv_lines if l.startswith("mv ")][:2] + [l for l in mv_lines if l.startswith("cr ")][:4] + [l for l in mv_lines if l.startswith("sq ")][:2] + [l for l in mv_lines if l.startswith("cw ")][:2]) if replay_cases is None else []
        # one process per case; four at a time (each has 4-6 busy goroutines)
        from concurrent.futures import ThreadPoolExecutor
        todo = list(enumerate(race_lines + extra))
        with ThreadPoolExecutor(max_workers=4) as pool:
            results = list(pool.map(lambda jc: race_run(ctx, race_bin, jc[1], f"c{jc[0]}"), todo))
        for (j, case), (out, reps) in zip(todo, results):
            race_out.append((case, out[:80]))
            if ctx.replay_mode:
                print(json.dumps({"case": case, "impl": out[:200], "race_reports": reps}, indent=1), flush=True)
            found = [r for r in reps if in_storage(r)]
            if case.startswith("race ") and out not in ("done",) and not reps:
                found.append("harness reported: " + out[:300])
            for r in found:
                if common.classify(ctx, MATCHERS, case, {"report": r}) is None:
                    reports.append((case, r))
                else:
                    known_reports.append((case, r))
        if replay_cases is None:
            pcase = "race sharedquery 4 30"
            out, reps = race_run(ctx, race_bin, pcase, "probe")
            probe = {"case": pcase, "race_reports": len(reps),
                     "first_report": reps[0] if reps else None,
                     "verdict": "outside the property's wording: the probe query has IMPLICIT paging, so setPaging stores default skip/limit nodes in it; reported, not counted (explicit paging is covered by the sq cases)"}
    ctx.obligation("race search: no data-race report in concurrent ast.Parse / Store.GetSymbol / Is*Error helpers / parse+query under a writer / external-symbol filters / empty filter with per-reader paging / nested map-symbol filters / one compiled query with explicit paging run by several read transactions / debug and diagnostic parse entry points / set-index lookups with shared values slices (race detector; search only)",
                   not reports, f"{len(reports)} new report(s), {len(known_reports)} report(s) of known findings")

    ctx.coverage.update({
        "evaluations": n + len(race_lines),
        "distinct_nontrivial": len(keys),
        "rule": RULE,
        "samples": [{"case": mv_lines[i][:400], "impl": impl[i][:400], "model": model[i], "spec": spec[i]}
                    for i in sorted(set([0, n // 2, n - 1])) if 0 <= i < n] + [{"case": c, "impl": o} for c, o in race_out[:4]],
        "input_distribution": histogram(mv_lines, impl) if n else {},
        "read_transactions_checked": recorded,
        "race_search": {"binary_built": race_bin is not None, "cases": [c for c, _ in race_out], "reports": len(reports),
                        "known_finding_reports": [{"case": c, "report": r[:1500]} for c, r in known_reports[:2]]},
        "shared_compiled_query_probe": probe,
        "impl_vs_spec_disagreements": len(bad),
        "impl_vs_model_disagreements": len(bad),
        "partial": "proved: the MVCC model for all interleavings and the obligation over the regenerated globals table; not provable here: that bbolt realises the model (checked by correspondence on every run) and race freedom of the Go code (Go memory model + scheduler; bounded by the table obligation and the race-detector search, not settled)",
    })

    if bad:
        # a failing cw case is a deterministic single-goroutine script (a concrete reader history): preferred as the replay
        i = min(bad, key=lambda j: (not mv_lines[j].startswith("cw "), len(mv_lines[j]), mv_lines[j]))
        common.violation(ctx, "property-fails-on-input", mv_lines[i],
                         {"case": mv_lines[i], "impl": impl[i][:3000], "model": model[i], "spec": spec[i],
                          "reader_history": _reader_history(mv_lines[i], impl[i], model[i], spec[i]),
                          "meaning": "a read transaction's observations are not the model's answers on the committed version it was tagged with (or the tag moved inside the transaction); the spec field names the read transaction <reader>.<n> (s.0 = the serial baseline of a cr case) and the first differing observation",
                          "offending_escapes": getattr(ctx, "escape_offenders", None),
                          "failing_cases": len(bad)})
    if reports:
        case, rep = reports[0]
        common.violation(ctx, "data-race", case,
                         {"case": case, "race_detector_report": rep, "reports": len(reports),
                          "offending_globals": ctx.offenders, "offending_escapes": getattr(ctx, "escape_offenders", None),
                          "how_to_replay": "bin/check C18 --replay <this file> rebuilds the harness with -race and re-runs the case"})
    elif not bad and (not built or ctx.broken):
        common.violation(ctx, "obligation-broken", None,
                         {"reason": "a proof obligation no longer checks (theorem or regenerated globals table); neither the isolation runs nor the race search produced a failing input",
                          "broken": ctx.broken, "offending_globals": ctx.offenders, "offending_escapes": getattr(ctx, "escape_offenders", None),
                          "lean_errors": [l for l in getattr(ctx, "lean_log", "").splitlines() if "error" in l][:10]},
                         no_input=True)
    return common.finish(ctx, trusted_base=trusted,
                         checker_cmd="cd /verif/lean && lake build StorageModel.Properties.C18 && lake env lean <#print axioms of every property theorem> (bin/check C18 does both, after regenerating Generated/Globals.lean from the sources)")


def _first_difference(impl, model):
    """first observation of a cw output that is not the model's: (read transaction, observation, got, model)"""
    mt = {t.split(":")[0]: t for t in model.split(" ")[1:] if t.count(":") == 3}
    for t in impl.split(" ")[1:]:
        p = t.split(":")
        if len(p) != 4:
            continue
        m = mt.get(p[0])
        if m is None:
            return {"read_transaction": p[0], "note": "the model has no such read transaction"}
        mp = m.split(":")
        if (p[1], p[2]) != (mp[1], mp[2]):
            return {"read_transaction": p[0], "tags_got": [p[1], p[2]], "tags_model": [mp[1], mp[2]]}
        for a, b in zip(p[3].split("|"), mp[3].split("|")):
            if a != b:
                return {"read_transaction": p[0], "version_tag": p[1], "observation": a.split("=")[0], "got": a.split("=")[-1], "model": b.split("=")[-1]}
    return None


def _reader_history(case, impl, model, spec):
    """for a cw case: the script up to the failing observation, as a list of steps (the concrete reader history)"""
    if not case.startswith("cw "):
        return None
    m = re.match(r"fail@(\d+)\.(\d+):", spec)
    steps = []
    for t in case.split(" ")[2:]:
        if t.startswith("rb"):
            steps.append(f"reader {t[2:]} begins a read transaction")
        elif t.startswith("re"):
            steps.append(f"reader {t[2:]} ends its read transaction")
        elif t.startswith("r"):
            who, q = t[1:].split(":", 1)
            what = {"C": "opens a cursor and walks it to its end", "D": "seeks its cursor (filter, position) and walks it again"}.get(q[0], "observes")
            steps.append(f"reader {who} {what}: {q}")
        elif t in ("wb", "wc", "wa"):
            steps.append({"wb": "writer begins a transaction", "wc": "writer commits", "wa": "writer rolls back"}[t])
        elif t.startswith("w:"):
            steps.append("writer: " + t[2:])
        else:
            steps.append(("writer commits " if t[0] == "c" else "writer runs and rolls back ") + t[2:])
    return {"failing_read_transaction": (m.group(1) + "." + m.group(2)) if m else None, "first_difference": _first_difference(impl, model), "steps": steps,
            "implementation_log": impl[:1500], "verdict": spec}


def _offenders():
    """variables of the regenerated table that break the obligation (same rule as GlobalVar.ok)"""
    try:
        facts = json.load(open(os.path.join(common.FACTS, "globals.json")))
    except (OSError, ValueError):
        return None
    res = []
    for g in (facts.get("globals") or []):
        if g["kind"] != "plain":
            continue
        ws = [w for w in (g.get("writes") or []) if not (w["inInit"] or w["underLock"])]
        if ws:
            res.append({"var": g["pkg"] + "." + g["name"], "decl": g["decl"],
                        "writes": [f'{w["func"]} ({w["how"]}) at {w["pos"]}' for w in ws]})
    return res


def _escape_offenders():
    """entries of the regenerated tables that break no_shared_mutable_escape (same rule as GlobalVar.noSharedEscape / Closure.ok)"""
    try:
        facts = json.load(open(os.path.join(common.FACTS, "globals.json")))
    except (OSError, ValueError):
        return None
    res = []
    for g in (facts.get("globals") or []):
        if g["kind"] == "plain" and g.get("mutable") and g.get("escapes"):
            res.append({"var": g["pkg"] + "." + g["name"], "decl": g["decl"], "type": g.get("type"), "mutable_because": g.get("mutableWhy"),
                        "handed_out_by": [f'{e["func"]} ({e["how"]}) at {e["pos"]}' for e in g["escapes"]]})
    for a in (facts.get("appends") or []):
        if a["how"] == "ontoShared" and not (a["pkg"], a["func"], a["operand"]) in REVIEWED_APPENDS:
            res.append({"append_onto_stored_slice": a["pkg"] + "." + a["func"], "operand": a["operand"], "via_local": a.get("via"),
                        "result": a.get("dest"), "at": a["pos"]})
    for w in (facts.get("nodeWrites") or []):
        if w["phase"] == "eval":
            res.append({"node_state_written_during_evaluation": w["type"] + "." + w["method"], "field": w["field"], "at": w["pos"]})
    for c in (facts.get("configCalls") or []):
        if not c["inInit"]:
            res.append({"process_wide_config_call": c["callee"], "in": c["pkg"] + "." + c["func"], "at": c["pos"]})
    for w in (facts.get("paramWrites") or []):
        if w["api"] == "read":
            res.append({"read_api_writes_through_parameter": w["pkg"] + "." + w["func"], "param": w["param"], "how": w["how"], "at": w["pos"]})
    stored_getters = {}
    for g in (facts.get("sliceGetters") or []):
        stored_getters.setdefault(g["name"], []).append(f'{g["pkg"]}.{g["func"]} returns {g["returns"]} at {g["pos"]}')
    for r in (facts.get("resultAppends") or []):
        if r["getter"] in stored_getters and (r["pkg"], r["func"], r["getter"]) not in REVIEWED_RESULT_APPENDS:
            res.append({"append_onto_slice_handed_out_by_getter": r["getter"], "in": r["pkg"] + "." + r["func"], "via": r.get("via"),
                        "at": r["pos"], "getter_returns_stored_slice": stored_getters[r["getter"]]})
    for l in (facts.get("listeners") or []):
        need = ["removeBeforeAlways", "addsCollector"] + (["removeAfterDeferred"] if l["recogniser"] == "parser" else [])
        missing = [k for k in need if not l.get(k)]
        if missing or (l["recogniser"] == "parser" and l.get("removeBeforePlain")):
            res.append({"listener_discipline_of_zitiql_parse": l["recogniser"], "var": l.get("var"), "missing": missing, "found": l})
    for w in (facts.get("fieldWrites") or []):
        if w["api"] == "read" and w["shared"] and not w["underLock"]:
            res.append({"read_api_writes_state_of_shared_object": w["pkg"] + "." + w["type"] + "." + w["method"], "field": w["field"],
                        "how": w["how"], "read_api_reached_from": w.get("via") or "(read API by its own name)", "at": w["pos"]})
    for p in (facts.get("poolPuts") or []):
        if p["argKind"] != "localFromGet" or p["escapes"] or (not p["deferred"] and p["usedAfter"]):
            res.append({"pooled_object_released_while_still_referenced": p["pkg"] + "." + p["func"], "pool": p["pool"], "put": p["arg"],
                        "arg_is": p["argKind"], "deferred": p["deferred"], "escapes": p["escapes"], "at": p["pos"]})
    for fl in (facts.get("freeLists") or []):
        res.append({"hand_made_free_list": fl["pkg"] + "." + fl["name"], "type": fl["type"], "written_in": fl["func"]})
    for c in (facts.get("closures") or []):
        ws = [w for w in (c.get("writes") or []) if not w["underLock"]]
        if ws:
            res.append({"closure_in": c["pkg"] + "." + c["func"], "at": c["pos"], "escape": c["escape"],
                        "writes_captured": [f'{w["var"]} ({w["decl"]}, {w["how"]}) at {w["pos"]}' for w in ws]})
    return res
