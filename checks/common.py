"""Shared machinery of /verif/bin/check.

One check = (1) regenerate facts from /repo, (2) build + audit the property's Lean theorems,
(3) build the Go harness against /repo's working tree, run generated cases through the
implementation, the Lean model (driver) and the Lean spec, (4) classify every disagreement
against known-findings.txt, (5) write evidence, print VIOLATION / KNOWN-FINDING lines.
"""
import fcntl
import hashlib
import json
import os
import re
import subprocess
import sys
import time

VERIF = os.path.dirname(os.path.dirname(os.path.abspath(__file__)))
REPO = os.environ.get("VERIF_REPO", "/repo")
BUILD = os.path.join(VERIF, ".build")
LEAN = os.path.join(VERIF, "lean")
GEN = os.path.join(LEAN, "StorageModel", "Generated")
FACTS = os.path.join(BUILD, "facts")
HARNESS = os.path.join(BUILD, "harness")
EXTRACT = os.path.join(BUILD, "extract")
DRIVER = os.path.join(LEAN, ".lake", "build", "bin", "driver")
ALLOWED_AXIOMS = {"propext", "Classical.choice", "Quot.sound"}
FORBIDDEN = re.compile(r"\bsorry\b|\badmit\b|^\s*axiom\s|native_decide|bv_decide|implemented_by|\bunsafe\s|maxHeartbeats\s+0")

GOENV = dict(os.environ, GOFLAGS="-mod=mod", GOPROXY="off", GOSUMDB="off", GOTOOLCHAIN="local",
             CGO_ENABLED=os.environ.get("CGO_ENABLED", "0"))


def sh(cmd, cwd=None, env=None, inp=None, timeout=None):
    p = subprocess.run(cmd, cwd=cwd, env=env, input=inp, stdout=subprocess.PIPE, stderr=subprocess.STDOUT,
                       timeout=timeout)
    return p.returncode, p.stdout.decode("utf-8", "replace")


class Lock:
    def __enter__(self):
        os.makedirs(BUILD, exist_ok=True)
        self.f = open(os.path.join(BUILD, "lock"), "w")
        fcntl.flock(self.f, fcntl.LOCK_EX)
        return self

    def __exit__(self, *a):
        fcntl.flock(self.f, fcntl.LOCK_UN)
        self.f.close()


class Ctx:
    def __init__(self, prop, tier, seed):
        self.prop = prop
        self.tier = tier
        self.seed = seed
        self.t0 = time.time()
        self.obligations = []      # (name, ok, detail)
        self.violations = []       # dicts
        self.known_hits = {}       # finding text -> count
        self.coverage = {}
        self.assumptions = []
        self.notes = []
        self.nreplay = 0
        self.lean_ok = True
        self.broken = []           # names of broken obligations / correspondences
        self.replay_mode = False

    # ---------------------------------------------------------------- obligations
    def obligation(self, name, ok, detail=""):
        self.obligations.append((name, bool(ok), detail))
        if not ok:
            self.broken.append(name)

    def log(self, msg):
        print(f"[{self.prop}] {msg}", flush=True)


# ------------------------------------------------------------------------- build steps

def build_tools(ctx):
    """extractors, Generated/*.lean, harness, Lean driver — all from the repo's working tree.

    Must be called with the Lock held (standard_flow does); the harness and driver binaries are
    copied to a per-run directory so that a concurrent run (possibly against a scratch copy of the
    repository, VERIF_REPO=<dir>) cannot replace them under our feet."""
    global HARNESS, DRIVER
    run_dir = os.path.join(BUILD, f"run-{os.getpid()}")
    os.makedirs(run_dir, exist_ok=True)
    ctx.run_dir = run_dir
    rc, out = sh(["go", "build", "-o", EXTRACT, "."], cwd=os.path.join(VERIF, "extract"), env=GOENV)
    if rc != 0:
        raise SystemExit(f"extract build failed:\n{out}")
    rc, out = sh([EXTRACT, REPO, GEN, FACTS])
    if rc != 0:
        raise SystemExit(f"extract failed:\n{out}")
    hdir = os.path.join(VERIF, "harness")
    modfile = os.path.join(hdir, "go.mod")
    if os.path.realpath(REPO) != "/repo":
        modfile = os.path.join(run_dir, "go.mod")
        open(modfile, "w").write(open(os.path.join(hdir, "go.mod")).read().replace("=> /repo", "=> " + os.path.realpath(REPO)))
    try:
        src = open(os.path.join(REPO, "go.sum")).read()
        dst_p = modfile[:-4] + ".sum"
        if not os.path.exists(dst_p) or open(dst_p).read() != src:
            open(dst_p, "w").write(src)
    except OSError:
        pass
    HARNESS = os.path.join(run_dir, "harness")
    rc, out = sh(["go", "build", "-modfile", modfile, "-tags", "verif", "-o", HARNESS, *harness_files(ctx.prop)],
                 cwd=hdir, env=GOENV)
    ctx.harness_ok = rc == 0
    ctx.harness_log = out
    rc, out = sh(["lake", "build", f"driver_{ctx.prop.lower()}"], cwd=LEAN)
    ctx.driver_ok = rc == 0
    ctx.driver_log = out
    if ctx.driver_ok:
        import shutil
        DRIVER = os.path.join(run_dir, "driver")
        shutil.copy2(os.path.join(LEAN, ".lake", "build", "bin", f"driver_{ctx.prop.lower()}"), DRIVER)
    if not ctx.harness_ok:
        ctx.log("harness does not build against the repository:\n" + ctx.harness_log[-3000:])
    if not ctx.driver_ok:
        ctx.log("lean driver does not build:\n" + ctx.driver_log[-3000:])


def harness_files(prop):
    """Go files of the harness that belong to one property: the shared files (main.go, util.go,
    memsymbols.go, shared_*.go) plus every file whose leading underscore-separated name tokens of
    the form cNN include the property (c03.go, c03_store.go, c02_c19_paging.go, ...).  A compile
    error in another property's harness file therefore cannot break this property's check."""
    hdir = os.path.join(VERIF, "harness")
    files = []
    for fn in sorted(os.listdir(hdir)):
        if not fn.endswith(".go") or fn.endswith("_test.go"):
            continue
        toks = fn[:-3].split("_")
        lead = []
        for t in toks:
            if re.fullmatch(r"c\d\d", t):
                lead.append(t)
            else:
                break
        if not lead or prop.lower() in lead:
            files.append(fn)
    return files


def cleanup(ctx):
    import shutil
    d = getattr(ctx, "run_dir", None)
    if d and os.path.isdir(d):
        shutil.rmtree(d, ignore_errors=True)


def lean_sources_of(module):
    """transitive StorageModel imports of a module (for the forbidden-token grep)."""
    seen, todo = [], [module]
    while todo:
        m = todo.pop()
        if m in seen:
            continue
        seen.append(m)
        p = os.path.join(LEAN, *m.split(".")) + ".lean"
        if not os.path.exists(p):
            continue
        for line in open(p):
            mm = re.match(r"\s*import\s+(StorageModel\.[\w.]+)", line)
            if mm:
                todo.append(mm.group(1))
    return [os.path.join(LEAN, *m.split(".")) + ".lean" for m in seen]


def strip_comments(text):
    text = re.sub(r"/-.*?-/", lambda m: "\n" * m.group(0).count("\n"), text, flags=re.S)
    return re.sub(r"--.*", "", text)


def prove(ctx, module, theorems, table_obligations=()):
    """Build the property module and audit the axioms of each property theorem.

    Every theorem in `theorems` is one obligation; it is discharged iff the module builds and
    `#print axioms` reports only allowed axioms.  `table_obligations` names theorems that are
    about regenerated data (listed separately in the evidence)."""
    rc, out = sh(["lake", "build", module], cwd=LEAN)
    ctx.lean_log = out
    built = rc == 0
    if not built:
        ctx.lean_ok = False
        errs = [l for l in out.splitlines() if "error" in l][:8]
        ctx.log(f"lake build {module} FAILED: " + " | ".join(errs))
    # forbidden tokens
    bad = []
    for p in lean_sources_of(module):
        if not os.path.exists(p):
            continue
        for i, line in enumerate(strip_comments(open(p).read()).splitlines(), 1):
            if FORBIDDEN.search(line):
                bad.append(f"{os.path.relpath(p, LEAN)}:{i}: {line.strip()}")
    ctx.obligation("no sorry/admit/axiom/native_decide/bv_decide/implemented_by/unsafe in imported model and proof sources",
                   not bad, "; ".join(bad[:5]))
    axioms = {}
    if built:
        ns = module.replace("StorageModel.Properties.", "StorageModel.Properties.")
        src = f"import {module}\n" + "\n".join(f"#print axioms {ns}.{t}" for t in theorems) + "\n"
        tmp = os.path.join(BUILD, f"audit_{ctx.prop}.lean")
        open(tmp, "w").write(src)
        rc2, out2 = sh(["lake", "env", "lean", tmp], cwd=LEAN)
        for m in re.finditer(r"'([\w.]+)' (does not depend on any axioms|depends on axioms: \[([^\]]*)\])", out2):
            name = m.group(1).split(".")[-1]
            ax = set(a.strip() for a in (m.group(3) or "").split(",") if a.strip())
            axioms[name] = ax
        if rc2 != 0:
            ctx.log("axiom audit failed:\n" + out2[-2000:])
    for t in theorems:
        if not built:
            # find out whether this particular theorem is the one that failed
            failed_here = re.search(r"error: [^\n]*\n(?:.*\n)*?", out) is not None
            ctx.obligation(f"theorem {t}", False, "module does not build")
        elif t not in axioms:
            ctx.obligation(f"theorem {t}", False, "not found by #print axioms")
        else:
            extra = axioms[t] - ALLOWED_AXIOMS
            ctx.obligation(f"theorem {t}", not extra,
                           "axioms: " + (", ".join(sorted(axioms[t])) or "none"))
    ctx.coverage["theorems"] = {t: sorted(axioms.get(t, [])) if t in axioms else None for t in theorems}
    ctx.coverage["table_obligations"] = list(table_obligations)
    if ctx.tier == "thorough" and built:
        rc3, out3 = sh(["lake", "env", "leanchecker", module], cwd=LEAN)
        ctx.obligation(f"leanchecker replay of {module}", rc3 == 0, out3[-300:] if rc3 else "")
    return built


def failing_theorems(ctx):
    """names of declarations lake reported errors in (best effort, for the replay file)."""
    out = getattr(ctx, "lean_log", "")
    names = []
    for m in re.finditer(r"error: ([^\s:]+\.lean):(\d+):(\d+)", out):
        path, line = os.path.join(LEAN, m.group(1)), int(m.group(2))
        try:
            lines = open(path).read().splitlines()
        except OSError:
            continue
        for i in range(min(line, len(lines)) - 1, -1, -1):
            mm = re.match(r"\s*(?:private\s+)?(?:theorem|lemma|def|example|instance)\s+([\w.']+)?", lines[i])
            if mm:
                names.append(f"{m.group(1)}:{mm.group(1) or 'example'}")
                break
    return sorted(set(names))


# ------------------------------------------------------------------- correspondence runs

SKIPPED = "<not-run>"


def run_impl(ctx, prop, lines, timeout=3600):
    """run the harness over the case lines; a case on which the harness process hangs (watchdog in
    harness/main.go, exit status 3, last line `hang`) or dies (Go fatal error) gets the outcome `hang` /
    `crash <last stderr line>` and the harness is re-started on the remaining cases, so that the output stays
    aligned with the cases and the culprit is named"""
    out, i, restarts = [], 0, 0
    env = dict(os.environ, GOMEMLIMIT="8GiB")
    while i < len(lines):
        data = ("\n".join(lines[i:]) + "\n").encode()
        try:
            p = subprocess.run([HARNESS, prop, "exec"], input=data, stdout=subprocess.PIPE, stderr=subprocess.PIPE,
                               timeout=timeout, env=env)
            rc, text, err = p.returncode, p.stdout.decode("utf-8", "replace"), p.stderr.decode("utf-8", "replace")
        except subprocess.TimeoutExpired as e:
            rc, text, err = -9, (e.stdout or b"").decode("utf-8", "replace"), "runner timeout"
        ls = text.split("\n")
        if ls and ls[-1] == "":
            ls.pop()
        if rc == 0 and len(ls) == len(lines) - i:
            out += ls
            break
        restarts += 1
        ctx.log(f"harness exec exited {rc} after {len(ls)} of {len(lines) - i} case(s): {err.strip()[-300:]}")
        if ls and ls[-1] == "hang" and rc == 3:
            done = ls                      # the hang line stands for the case that did not return
        else:
            if len(ls) > len(lines) - i:   # garbage: give up on alignment
                out += ls
                break
            first = next((l for l in err.splitlines() if l.startswith(("fatal error", "panic:", "runtime:"))), "")
            done = ls + ["crash " + (first or err.strip().splitlines()[-1] if err.strip() else f"exit status {rc}")[:200]]
        out += done
        i += len(done)
        hangs = sum(1 for l in out if l == "hang")
        if hangs >= 3 or restarts >= 12:
            # enough culprits named; the remaining cases are not run (run_cases pads them neutrally)
            ctx.notes.append(f"harness hung/crashed {restarts} time(s); {len(lines) - i} remaining case(s) of this batch were not run")
            out += [SKIPPED] * (len(lines) - i)
            break
    return out


def run_cases(ctx, prop, cases_text, want_spec=True, timeout=3600):
    """returns (impl_lines, model_lines, spec_lines) aligned with the case lines"""
    data = cases_text.encode()
    impl_l = run_impl(ctx, prop, [l for l in cases_text.split("\n") if l], timeout=timeout)
    rc, model = sh([DRIVER], inp=data, timeout=timeout)
    if rc != 0:
        ctx.log(f"driver exited {rc}: {model[-500:]}")
    spec = None
    if want_spec:
        rc, spec = sh([DRIVER, "spec"], inp=data, timeout=timeout)
    n = len([l for l in cases_text.split("\n") if l])
    def norm(s):
        ls = s.split("\n")
        if ls and ls[-1] == "":
            ls.pop()
        return ls
    model_l = norm(model)
    spec_l = norm(spec) if spec is not None else [None] * n
    # cases that were not run after repeated hangs/crashes take the model's output (neutral for every flow)
    impl_l = [model_l[k] if a == SKIPPED and k < len(model_l) else a for k, a in enumerate(impl_l)]
    return impl_l, model_l, spec_l


def gen_cases(ctx, prop, extra=()):
    rc, out = sh([HARNESS, prop, "gen", "-tier", ctx.tier, "-seed", str(ctx.seed), *extra])
    if rc != 0:
        raise SystemExit(f"harness gen failed: {out[-2000:]}")
    return out


def corpus_cases(prop):
    d = os.path.join(VERIF, "corpus", prop)
    lines = []
    if os.path.isdir(d):
        for fn in sorted(os.listdir(d)):
            for l in open(os.path.join(d, fn)):
                l = l.rstrip("\n")
                if l and not l.startswith("#"):
                    lines.append(l)
    return lines


# --------------------------------------------------------------------- findings / report

def load_known(prop):
    """known-findings.txt lines:  finding: property=Cxx match=<matcher> <text>
                                   fixed:   property=Cxx <commit> <text>   (suppresses nothing)"""
    res = []
    p = os.path.join(VERIF, "known-findings.txt")
    if not os.path.exists(p):
        return res
    for line in open(p):
        m = re.match(r"finding:\s+property=(\S+)\s+match=(\S+)\s+(.*)", line.strip())
        if m and m.group(1) == prop:
            res.append((m.group(2), m.group(3)))
    return res


def classify(ctx, matchers, case, info):
    """returns the text of the known finding matching this failing case, or None"""
    for name, text in load_known(ctx.prop):
        fn = matchers.get(name)
        if fn is not None and fn(case, info):
            ctx.known_hits[text] = ctx.known_hits.get(text, 0) + 1
            return text
    return None


def violation(ctx, kind, case, detail, no_input=False):
    """record a violation; writes the replay file and prints the VIOLATION line"""
    ctx.nreplay += 1
    os.makedirs(os.path.join(VERIF, "replays"), exist_ok=True)
    alt = f"alt{os.getpid()}-" if os.path.realpath(REPO) != "/repo" else ""
    path = os.path.join(VERIF, "replays", f"{alt}{ctx.prop}-{ctx.seed}-{ctx.nreplay}.json")
    rec = {"property": ctx.prop, "kind": kind, "case": case, "detail": detail,
           "broken_obligations": ctx.broken, "failing_lean_declarations": failing_theorems(ctx),
           "seed": ctx.seed, "tier": ctx.tier,
           "replay": f"bin/check {ctx.prop} --replay {path}"}
    if ctx.replay_mode:
        path = "(replay)"
    else:
        json.dump(rec, open(path, "w"), indent=1)
    ctx.violations.append(rec)
    suffix = " no-failing-input-found" if no_input else ""
    print(f"VIOLATION property={ctx.prop} replay={path}{suffix}", flush=True)


def shortest(cases):
    return min(cases, key=lambda c: (len(c[0]), c[0]))


def finish(ctx, level="proof", checker_cmd=None, trusted_base=None):
    """write evidence, print KNOWN-FINDING lines, return exit code"""
    for text, n in sorted(ctx.known_hits.items()):
        print(f"KNOWN-FINDING: property={ctx.prop} {text} ({n} case(s) this run)", flush=True)
    obl = len(ctx.obligations)
    dis = sum(1 for o in ctx.obligations if o[1])
    cov = dict(ctx.coverage)
    cov.setdefault("evaluations", 0)
    cov.setdefault("distinct_nontrivial", 0)
    cov.setdefault("rule", "")
    cov.setdefault("samples", [])
    cov["obligations"] = obl
    cov["discharged"] = dis
    cov["obligation_list"] = [{"name": n, "discharged": ok, "detail": d} for n, ok, d in ctx.obligations]
    cov["checker_cmd"] = checker_cmd or f"cd /verif/lean && lake build StorageModel.Properties.{ctx.prop} && lake env lean <#print axioms of every property theorem>"
    cov["trusted_base"] = trusted_base or []
    cov["known_findings_hit"] = ctx.known_hits
    cov["notes"] = ctx.notes
    ev = {"property_id": ctx.prop, "tier": ctx.tier, "seed": ctx.seed, "level": level, "coverage": cov,
          "assumptions": ctx.assumptions, "wall_s": round(time.time() - ctx.t0, 2),
          "violations": len(ctx.violations)}
    os.makedirs(os.path.join(VERIF, "evidence"), exist_ok=True)
    if os.path.realpath(REPO) != "/repo":
        os.makedirs(os.path.join(BUILD, "alt-evidence"), exist_ok=True)
        json.dump(ev, open(os.path.join(BUILD, "alt-evidence", f"{ctx.prop}.json"), "w"), indent=1, sort_keys=True)
    elif not ctx.replay_mode:
        json.dump(ev, open(os.path.join(VERIF, "evidence", f"{ctx.prop}.json"), "w"), indent=1, sort_keys=True)
    ok = not ctx.violations
    cleanup(ctx)
    ctx.log(f"obligations {dis}/{obl}, evaluations {cov['evaluations']}, violations {len(ctx.violations)}, "
            f"known findings hit {sum(ctx.known_hits.values())}, wall {ev['wall_s']}s")
    return 0 if ok else 1


BASE_TRUST = [
    "Lean 4.33.0 kernel (thorough tier: leanchecker replay of the property module)",
    "axioms allowed in property theorems: propext, Classical.choice, Quot.sound (audited per theorem per run)",
    "Lean compiler/runtime for the model driver (correspondence only, never a proof)",
    "the Go correspondence harness, generators, canonicalisation and diff in /verif/harness and /verif/checks",
    "the go/ast extractors in /verif/extract",
]


def standard_flow(ctx, prop_lc, module, theorems, matchers, nontrivial, describe, rule,
                  table_obligations=(), extra_gen=(), trusted=None, want_spec=True,
                  replay_cases=None):
    """The common decision procedure (DESIGN.md §5).

    nontrivial(case, impl) -> hashable key or None; describe(case, impl, model, spec) -> dict
    """
    with Lock():
        build_tools(ctx)
        built = prove(ctx, module, theorems, table_obligations)
    if not (ctx.harness_ok and ctx.driver_ok):
        ctx.obligation("harness and model driver build against /repo", False,
                       (ctx.harness_log if not ctx.harness_ok else ctx.driver_log)[-400:])
        violation(ctx, "tie-broken", None,
                  {"reason": "harness or Lean driver does not build against the current tree",
                   "log": (ctx.harness_log if not ctx.harness_ok else ctx.driver_log)[-2000:]}, no_input=True)
        return finish(ctx, trusted_base=(trusted or BASE_TRUST))
    if replay_cases is not None:
        lines = replay_cases
    else:
        lines = corpus_cases(prop_lc) + [l for l in gen_cases(ctx, prop_lc, extra_gen).split("\n") if l]
    text = "\n".join(lines) + "\n"
    impl, model, spec = run_cases(ctx, prop_lc, text, want_spec=want_spec)
    n = len(lines)
    if len(impl) != n or len(model) != n or (want_spec and len(spec) != n):
        ctx.obligation("output streams aligned", False, f"cases {n} impl {len(impl)} model {len(model)} spec {len(spec)}")
        violation(ctx, "tie-broken", None, {"reason": "output streams not aligned (crash?)",
                                            "cases": n, "impl": len(impl), "model": len(model),
                                            "impl_tail": impl[-3:], "model_tail": model[-3:]}, no_input=True)
        return finish(ctx, trusted_base=(trusted or BASE_TRUST))
    spec_bad, corr_bad = [], []
    keys = set()
    for i in range(n):
        c, a, m, s = lines[i], impl[i], model[i], spec[i]
        k = nontrivial(c, a)
        if k is not None:
            keys.add(k)
        if want_spec and a != s:
            spec_bad.append((c, a, m, s))
        elif a != m:
            corr_bad.append((c, a, m, s))
    ctx.coverage.update({
        "evaluations": n,
        "distinct_nontrivial": len(keys),
        "rule": rule,
        "samples": [describe(lines[i], impl[i], model[i], spec[i]) for i in sorted(set([0, n // 3, n // 2, n - 1])) if 0 <= i < n],
        "impl_vs_spec_disagreements": len(spec_bad),
        "impl_vs_model_disagreements": len(corr_bad),
    })
    ctx.obligation("correspondence: implementation output = model output on every generated case", not corr_bad and not [b for b in spec_bad if b[1] != b[2]],
                   f"{len(corr_bad) + len([b for b in spec_bad if b[1] != b[2]])} disagreement(s)")
    # property violations with a concrete input
    unknown = []
    for b in spec_bad:
        if classify(ctx, matchers, b[0], {"impl": b[1], "model": b[2], "spec": b[3]}) is None:
            unknown.append(b)
    if unknown:
        c, a, m, s = shortest(unknown)
        violation(ctx, "property-fails-on-input", c,
                  dict(describe(c, a, m, s), unlisted_failing_cases=len(unknown),
                       more=[u[0] for u in sorted(unknown, key=lambda u: len(u[0]))[1:6]]))
    elif corr_bad:
        c, a, m, s = shortest(corr_bad)
        violation(ctx, "correspondence-broken", c,
                  dict(describe(c, a, m, s), disagreements=len(corr_bad),
                       reason="implementation and Lean model disagree although the implementation still meets the spec on every explored input; the theorems no longer speak about this code"),
                  no_input=True)
    elif not built or ctx.broken:
        # a proof obligation broke but no input fails
        violation(ctx, "obligation-broken", None,
                  {"reason": "a proof obligation no longer checks; the search over the generated cases found no (unlisted) input on which the property fails",
                   "lean_errors": [l for l in getattr(ctx, "lean_log", "").splitlines() if "error" in l][:10]},
                  no_input=True)
    return finish(ctx, trusted_base=(trusted or BASE_TRUST))
