"""C02 — sort order, skip, limit and total count are exact."""
from collections import Counter

from . import c02_c19_flow as flow

MODULE = "StorageModel.Properties.C02"
THEOREMS = ["paging_facts_expected", "comparator_strict_total", "order_closed_form", "order_lexicographic",
            "ties_broken_by_id", "nulls_first_ascending", "count_exact_any_comparator", "sort_characterised", "k_smallest_stream",
            "set_paging_exact", "set_paging_idempotent", "index_scan_exact", "sorting_scan_exact", "query_ids_exact",
            "cursor_provider_exact", "paging_tokens_exact", "strategy_independent", "count_exact", "cursor_iter_exact", "cursor_seek_exact", "pinned_arithmetic_violates",
            "coerced_keys", "int_float_key_not_nan", "float_comparator_facts_expected", "float_comparator_total", "nan_sorts_first", "int_float_key_monotone",
            "cursor_provider_exact_all", "iterator_all_of_exact", "iterator_any_of_exact", "cursor_scanner_exact",
            "sort_accepted_iff", "sort_field_error_exact", "dotted_sort_field_refused", "sorting_scan_error_exact", "id_first_exact", "llrb_insert_is_sorted_insert",
            "query_ids_total", "iterate_ids_total", "history_exact", "history_exact_no_bucket"]
TABLE = ["paging_facts_expected (Generated/PagingFacts.lean: shape of setPaging, of maxResults := targetOffset + targetLimit with its overflow guard, and of the eviction test, regenerated from boltz/query_scanners.go)",
         "float_comparator_facts_expected (Generated/PagingFacts.lean: branch chain of float64SymbolComparator.Compare incl. the NaN branch, regenerated from boltz/query_sort.go)"]


MUTATORS = ("ad", "ada", "adx", "sk", "li", "pr")


def _is_hist(case):
    return case.startswith("h ")


def _h(case):
    """history case: h <rows> <filter> <sort> <skip> <limit> <store> <op>/<op>/..."""
    f = case.split(" ")
    return dict(rows=f[1], filter=f[2], sort=f[3], skip=f[4], limit=f[5], store=f[6], ops=f[7].split("/"))


def _f(case):
    f = case.split(" ")
    if _is_hist(case):
        h = _h(case)
        return dict(h, prov="history", seek="-")
    return dict(rows=f[1], filter=f[2], sort=f[3], skip=f[4], limit=f[5], prov=f[6], seek=f[7],
                store=f[8] if len(f) > 8 else "root")


def _nrows(ds):
    return len(flow.split_rows(ds))


def nontrivial(case, impl):
    """non-trivial: at least 2 rows match and paging or sorting has something to do"""
    if _is_hist(case):
        # non-trivial history: an execution that matches >= 2 rows comes after a mutator of the query object
        h = _h(case)
        secs = impl.split("|")
        if impl.startswith("panic") or len(secs) != len(h["ops"]):
            return None
        seen_mut = False
        for op, sec in zip(h["ops"], secs):
            if op.split(":")[0] in MUTATORS:
                seen_mut = True
            elif seen_mut and "#" in sec:
                try:
                    if int(sec.split("#")[1]) >= 2:
                        return (h["rows"], h["filter"], h["sort"], h["skip"], h["limit"], "/".join(h["ops"]), h["store"])
                except ValueError:
                    pass
        return None
    c = _f(case)
    if impl.startswith("ids=err") or impl.startswith("panic"):
        return None
    try:
        count = int(impl.split("|")[0].split("#")[1])
    except (IndexError, ValueError):
        return None
    if count < 2:
        return None
    if c["sort"] == "-" and c["skip"] == "-" and c["limit"] == "-":
        return None
    return (c["rows"], c["filter"], c["sort"], c["skip"], c["limit"], c["prov"], c["store"])


def describe(case, impl, model, spec):
    if _is_hist(case):
        h = _h(case)

        def per_op(line):
            secs = (line or "").split("|")
            return [f"{op} -> {sec}" for op, sec in zip(h["ops"], secs)] if len(secs) == len(h["ops"]) else line
        return {"case": case, "rows": flow.split_rows(h["rows"]) or h["rows"], "query_as_parsed": dict(filter=h["filter"], sort=h["sort"],
                skip=h["skip"], limit=h["limit"]), "store": h["store"], "calls_on_the_one_query_object": h["ops"],
                "impl": per_op(impl), "model": per_op(model), "spec": per_op(spec)}
    c = _f(case)

    def sec(line):
        return dict(p.split("=", 1) for p in (line or "").split("|") if "=" in p) or line
    return {"case": case, "rows": flow.split_rows(c["rows"]) or c["rows"], "filter": c["filter"], "sort": c["sort"],
            "skip": c["skip"], "limit": c["limit"], "provider": c["prov"], "seek": c["seek"], "store": c["store"],
            "impl": sec(impl), "model": sec(model), "spec": sec(spec)}


def histogram(lines):
    h = {"rows": Counter(), "sort": Counter(), "skip": Counter(), "limit": Counter(), "filter": Counter(),
         "provider": Counter(), "seek": Counter(), "store": Counter(), "history_ops": Counter(), "history_shape": Counter()}
    for l in lines:
        c = _f(l)
        if _is_hist(l):
            names = [o.split(":")[0] for o in c["ops"]]
            for o in names:
                h["history_ops"][o] += 1
            first_exec = next((i for i, o in enumerate(names) if o in ("run", "cur", "it", "get")), None)
            first_adopt = next((i for i, o in enumerate(names) if o in ("ad", "ada", "adx")), None)
            h["history_shape"]["no adopt" if first_adopt is None else
                               ("adopt after an execution/read" if first_exec is not None and first_exec < first_adopt else "adopt first")] += 1
        n = _nrows(c["rows"])
        h["rows"]["no bucket" if c["rows"] == "-" else str(n)] += 1
        h["sort"][flow.sort_histogram(c["sort"])] += 1
        h["skip"][flow.paging_class(c["skip"], n)] += 1
        h["limit"][flow.paging_class(c["limit"], n)] += 1
        h["filter"][c["filter"].split(".")[0]] += 1
        h["provider"][c["prov"].split(".")[0]] += 1
        h["seek"]["-" if c["seek"] == "-" else "seek"] += 1
        h["store"][c["store"]] += 1
    return {k: dict(sorted(v.items())) for k, v in h.items()}


def _hist_candidates(case):
    f = case.split(" ")
    out = []

    def put(i, v):
        g = list(f)
        g[i] = v
        out.append(" ".join(g))
    ops = f[7].split("/")
    for i in range(len(ops)):
        if len(ops) > 1:
            put(7, "/".join(ops[:i] + ops[i + 1:]))
    for i, o in enumerate(ops):
        if o.split(":")[0] in ("ad", "ada", "adx"):
            name, arg = o.split(":", 1)
            for v in flow.sort_variants(arg):
                put(7, "/".join(ops[:i] + [name + ":" + v] + ops[i + 1:]))
    if f[6] != "root":
        put(6, "root")
    if f[2] != "true":
        put(2, "true")
    for v in flow.sort_variants(f[3]):
        put(3, v)
    for v in flow.row_variants(f[1]):
        put(1, v)
    for v in flow.num_variants(f[4]):
        put(4, v)
    for v in flow.num_variants(f[5]):
        put(5, v)
    return out


def candidates(case):
    if _is_hist(case):
        return _hist_candidates(case)
    f = case.split(" ")
    out = []

    def put(i, v):
        g = list(f)
        g[i] = v
        out.append(" ".join(g))
    if len(f) > 8 and f[8] != "root":
        put(8, "root")
    for v in flow.prov_variants(f[6]):
        put(6, v)
    if f[7] != "-":
        put(7, "-")
    if f[2] != "true":
        put(2, "true")
    for v in flow.sort_variants(f[3]):
        put(3, v)
    for v in flow.row_variants(f[1]):
        put(1, v)
    for v in flow.num_variants(f[4]):
        put(4, v)
    for v in flow.num_variants(f[5]):
        put(5, v)
    return out


MATCHERS = {}

RULE = ("300 (quick) / 3000 (thorough) random datasets of 0-7 rows over tiny value pools (nulls, ties, empty string, "
        "-0.0/+0.0, +-Inf, NaN (two bit patterns), min/max int64, int32 stored under an int64 symbol, equal instants; every row has an fk owner or none) x 80/100 "
        "queries each: filter in {true, one comparison, = null, != null}, 0-6 sort fields in either direction with or without the "
        "ASC keyword, skip and limit from {absent, none, min64, -5, -1, 0, 1, 2, n-1, n, n+1, 2n, max64-1, max64} plus "
        "non-integer / out-of-range numbers, cursor provider in {none, IteratorMatchingAllOf/AnyOf with 0-4 values incl. duplicates and "
        "unknown values, OpenValueCursor, GetRelatedEntitiesCursor of an owner (fk back-references), nil}, optional Seek key, run against "
        "the root store, its plain child store or its extended child store; plus the no-bucket and empty-bucket stores; "
        "+ 160/2400 datasets whose stored types differ from the symbol types (one focus column filled with one or two foreign kinds: "
        "ints incl. 2^53+1, 2^24+1, min/max under a float64 or string symbol, floats incl. 5e-324, 1e21, NaN, bools, times) x 25/30 queries; "
        "+ 60/600 datasets x 30 queries over sort fields the parser resolves but the comparator may refuse (tags.k, owner.label, owner.id, owner, "
        "an AnyType symbol, the child stores' own symbol, set symbols and unknown names through a foreign symbol table); + 60/600 datasets x 30 queries whose sort lists (direction absent / ASC / asc / DESC / desc / DeSc) and filters use keyword-like ALIAS names of the "
        "stored fields (shortDesc, sortBy, idx, limitX, skipper, basc, nota, android, betweenx, t_desc, the quoted identifier 'desc', ...); thorough adds every skip x "
        "limit pool pair x 14 sort specs on datasets of 0..6 rows. Each case runs QueryIds, QueryIdsC twice on one query object (+ the "
        "skip/limit left in it), QueryWithCursorC (bucket cursor and the provider), IterateIds drained, Seek on the unpaged cursor, the sub-query "
        "cursor scanner of the owner's things, and QueryIdsC with a foreign-parsed query. "
        "+ 80/800 datasets x 30 HISTORIES on one parsed query object (case lines `h`): 2-11 calls, executions (QueryIdsC, QueryWithCursorC, "
        "IterateIds drained) and reads (GetSortFields) interleaved with the mutators of the ast.Query interface (AdoptSortFields of another "
        "parsed query incl. one without sort clause, with alias names, or parsed against a foreign symbol table; SetSkip / SetLimit over the "
        "boundary pool; SetPredicate), every mutator followed by an execution, 4 of 5 histories starting with an execution or a read; "
        "a history is non-trivial when an execution matching >= 2 rows follows a mutator. non-trivial = at least two rows match and a sort field, "
        "skip or limit is present; distinct = (dataset, filter, sort, skip, limit, provider, store)")


def run(ctx, replay_cases=None):
    ctx.assumptions += [
        "bbolt yields the keys of the entities bucket, of a set-index value bucket and of a list bucket in ascending byte order, descending for the reverse cursor (hypotheses BucketOrdered, IndexesMirror; exercised by every case)",
        "the set index and the fk back-reference lists mirror the entities (IndexesMirror; that the code keeps them so is C03 / C04)",
        "the biogo llrb tree: Insert = sorted-list insertion is proved for the node-by-node port (llrb_insert_is_sorted_insert); DeleteMax = drop the last element is compared on every case between the port and the list model (MODEL-SPLIT marker), not proved",
        "strconv.FormatFloat(x,'f',-1,64) of a float64-stored value read through a string symbol is data supplied with the value by the harness (computed with strconv outside /repo)",
        "fewer than 2^63 rows (the counters are int64; hypothesis of every scan theorem)",
        "filter semantics are those of the small fragment in Query/Filter.lean (true, one typed comparison, = null, != null); the filter language as a whole is C01's",
        "Go's <, > and x != x on float64 agree with the integer image / NaN test of the bit pattern used in the model (exercised with -0.0, +0.0, +-Inf, NaN and ties)",
    ]
    return flow.flow(ctx, "c02", MODULE, THEOREMS, MATCHERS, nontrivial, describe, RULE, histogram, candidates,
                     table_obligations=TABLE, replay_cases=replay_cases)
