"""C08 — entity events: exactly once per committed change, none for undone work."""
from . import c07_c08_flow as flow

MODULE = "StorageModel.Properties.C08"
THEOREMS = ["table_is_expected", "delivery_is_expected", "events_exactly_once", "events_count",
            "constraint_posts_exactly_once", "events_final_state_create", "events_final_state_update",
            "events_last_state_delete", "child_change_parent_event", "plain_parent_no_child_event",
            "rolled_back_no_events", "rejected_op_tx_fails", "commit_actions_once", "commit_actions_once_tx_context", "batch_runs_tx_complete",
            # batch groups (several Db.Batch calls coalesced by bbolt into one batch), every schedule
            "batch_group_committed_once", "batch_group_all_return", "batch_group_events_exactly_once",
            "batch_group_constraint_posts_once", "batch_group_tx_complete_once", "batch_group_tx_complete_per_member",
            "batch_group_rolled_back_no_events", "batch_group_committed_is_accepted", "batch_group_single_is_batch"]

TABLE_OBLIGATIONS = [
    "table_is_expected (Generated/CrudReturns.lean, regenerated from boltz/store_crud.go and boltz/store.go)",
    "delivery_is_expected (Generated/CrudReturns.lean: post-commit work is started through tx.OnCommit only; the three listener adapters start `go f(x)` for asynchronous types and call f(x) otherwise, x = FinalState for create/update, InitialState for delete)",
]


def nontrivial(case, impl):
    # non-trivial: some committed transaction delivered at least one listener / constraint callback
    for rec in impl.split(" | "):
        f = flow.tx_fields(rec)
        # (a batch group reports one result per member call: ok+err:…)
        if "ok" in f.get("r", "").split("+") and (f.get("sync", "[]") != "[]" or f.get("async", "[]") != "[]"):
            return case
    return None


MATCHERS = {}  # no open finding (Db.Batch / tx-complete listeners: fixed in cb70ebf)

RULE = ("(a) registration matrix: each of AddEntityEventListener / AddEntityEventListenerF / AddListener / "
        "AddEntityIdListener x 12 change-type lists (single sync / async kinds, all sync, all async, sync+async of one "
        "kind, a duplicated kind, mixed) x registered on the parent, the first or the second child store, next to typed and untyped "
        "constraints, against a five-transaction history (multi-operation creates, updates through both stores, a "
        "rollback after events were queued, a Batch, deletes through both stores and DeleteWhere); (b) every "
        "one-operation body (25 operations through the parent and both child stores, incl. child data created over an "
        "existing parent entity and an entity with data in both child stores) x every "
        "failure kind (incl. index-stage vetoes of custom boltz.Constraint registrations on either store and vetoes "
        "carrying a RecordNotFoundError) x Update / Batch; (c) sampled faulty bodies of 2-5 operations; "
        "(d) random histories of 1-4 transactions with up to 5 registrations per store (listeners with 1-3 random "
        "types, constraints vetoing up to 2 random changes), reused contexts, commit / pre-commit actions, nested "
        "Update calls, swallowed vetoes; (e) batch groups: 2-4 Db.Batch calls coalesced by bbolt into one batch "
        "(MaxBatchSize = group size, MaxBatchDelay = 1 h, arrival order = member order), every member position x a fault on "
        "its 1st / 2nd / 3rd invocation (before, inside, after its work), members that fail always (caller error, "
        "pre-commit action, natural rejection) / once (fail1) / never, members working on the same entity, a MutateContext "
        "reused across a failed Update, the group and a later Update, and random histories mixing groups (random bodies, "
        "random faults) with the other transaction modes. Non-trivial = a committed transaction delivered at least one callback; "
        "distinct = distinct case line")


def run(ctx, replay_cases=None):
    ctx.assumptions += [
        "bbolt runs OnCommit handlers after a successful commit in registration order and never for a rolled-back transaction (modelled; exercised by the callback logs of every case)",
        "synchronous = on the goroutine that ran the transaction function (compared in order); asynchronous = on another goroutine (compared as a multiset after all goroutines started by the transaction have finished; order among asynchronous deliveries is not claimed)",
        "a listener callback cannot see which of its registered change types fired; deliveries are compared as (listener, rendered entity)",
        "commit actions belong to the MutateContext: a context used for a second transaction runs the actions registered during the first one again (reproduced, stated per context-and-transaction)",
        "child data may be created over an existing plain parent entity (legal since fix 8269ce9); custom index-stage constraints (boltz.Constraint via AddConstraint) only log and veto",
        "bbolt's DB.Batch (queueing, one shared transaction per round in arrival order, rollback + trySolo for the failing call, swap-removal from the batch, re-run of the rest) is modelled literally from go.etcd.io/bbolt db.go, not verified; which of {solo re-run, next round} gets the writer lock first is a scheduling fact: the order of the group's bbolt transactions is observed in the implementation's run (seq=) and handed to model and spec as the schedule (theorems hold for every schedule)",
        "'once per committed transaction' for a batch group is read per committed Db.Batch call (the tx-complete listener is handed that call's MutateContext): a shared bbolt transaction that commits with m members runs every tx-complete listener m times, once per member context (per-member closure registration in DbImpl.Batch)",
    ]
    return flow.run_flow(ctx, "c08", MODULE, THEOREMS, MATCHERS, nontrivial, RULE,
                         table_obligations=TABLE_OBLIGATIONS, replay_cases=replay_cases)
