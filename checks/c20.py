"""C20 — public-symbol validation sees every symbol a query references."""
import hashlib
import json
import os

from . import common

MODULE = "StorageModel.Properties.C20"
THEOREMS = ["table_complete", "table_nil_tolerant", "validator_shape", "validator_good", "table_complete_spelled", "visit_sees_all",
            "visit_sees_all_repo", "validate_total", "validate_iff", "validate_names", "validate_accepts_or_names",
            "validate_iff_repo", "validate_names_repo", "isPublic_good_eq_spec", "bad_shapes_witness",
            "single_nonpublic_named", "validate_iff_source", "transform_facts", "typed_tree_symbols", "typed_tree_admissible",
            "validate_iff_transform", "validate_names_transform", "validate_iff_transform_repo", "validate_is_stateful_run",
            "validate_panics_iff", "validate_iff_nopanic", "query_api_covered", "alias_sites_ok", "api_symbols_seen",
            "incomplete_table_witness", "map_element_public_iff", "map_element_public_iff_code", "composite_not_inherited",
            "explicit_element_marking", "validate_own_assignment", "isPublic_own_assignment", "child_nonpublic_rejected",
            "parent_fallback_witness", "keys_irrelevant", "isPublic_keys_irrelevant", "keyed_validate_iff", "key_lookup_witness"]
TABLE_OBLIGATIONS = [
    "table_complete (Generated/AcceptTable.lean, regenerated from the Accept methods of ast/*.go: every node-valued field forwarded, every symbol announced, no unrecognised statement, no field that could hide a node — interface, map, channel or func-typed fields whose type mentions anything but basic types are listed as opaque and only the alias AnyOfSetExprNode.seekablePredicate is allowed)",
    "query_api_covered (Generated.queryApi / symbolVia: every method of queryNode in the exported interface ast.Query is a recognised accessor — getter, elements-of-slice getter, setter, adoption, construction from scalars, scalar getter, evaluation — over node-valued fields that Accept forwards; every Symbol() returns a symbol-holding string field or delegates to a child)",
    "alias_sites_ok (Generated.aliasSites: every write of an alias field in package ast is a composite literal that also sets the aliased child to the same node)",
    "table_nil_tolerant (the nil children the parser leaves are guarded / nil-safe receivers)",
    "validator_shape (publicSymbolValidator overrides VisitSymbol only, has no state besides store and err; every DefaultVisitor method is empty)",
    "validator_good (Generated.validatorShape, the decision structure of BaseStore.IsPublicSymbol / publicSymbolValidator.VisitSymbol / ValidateSymbolsArePublic regenerated from boltz/store_query.go and boltz/validate.go, is a GoodShape: exact name or FIRST segment a listed MAP symbol, decided from the store's own publicSymbols / mapSymbols only, by NAME — a tree that asks `store.parent`, or looks anything up under a symbol's KEY (`mapSymbol.key`), is not good; first offending symbol kept; one fresh validator walked over the whole query by query.Accept)",
    "transform_facts (every node shape the modelled typing transformation builds is one the regenerated table describes: fields exist, single-valued children exactly those it fills; built and consumed kinds hold no symbol in their own strings except the symbol kinds, which keep it in `symbol` and announce it; SortByNode has only slice children, NullConstNode none)",
]

RULE = ("one case = one real tree x one public/non-public assignment. Trees: (p) every query atom of the generator "
        "(each operator x operand type x set function x sub-query x map element x composite symbol) alone and in random "
        "and/or/not compositions with sort/skip/limit clauses, parsed by the real ast.Parse; (s) real ast structs allocated "
        "field by field for every node kind of the regenerated table x every child position (the only occurrence of a "
        "non-public symbol below that child), nil in every single-valued position, one-symbol queries over 40+ plain, "
        "dotted and malformed names, and random well-typed trees, with typed nil pointers in interface-typed positions and nil / "
        "typed-nil slice elements; (a) queries assembled through the exported API (Parse, SetPredicate, AdoptSortFields, "
        "NewAndExprNode, NewInArrayExprNode + PostProcess, NewInt64BetweenOp, SetSkip, SetLimit; nil, typed-nil and zero-value "
        "arguments; each recipe carries the identifiers it hands to the API, computed from its inputs, which the specification "
        "counts as referenced, and the sort clause in force, which GetSortFields() must list exactly); (u) the untyped tree the "
        "parse listener builds. "
        "Assignments: all subsets of the symbols a tree references (up to the tier's cap, else all-public, each "
        "single-non-public and random ones), other symbols random. Stores: the validating store has no parent, or (every 4th/5th "
        "case again) is a child / grandchild store built with StoreDefinition.Parent + GrantSymbols whose own assignment is the "
        "case's while its ancestors expose everything / nothing / the complement / a random set, granted before or after "
        "(child set = inherited + own). Naming: every 3rd case again against a store (and every 12th against a child / "
        "grandchild of such a store) whose map, scalar and fk symbols are stored under keys that are the names of other symbols "
        "(three schemas: maps swapped, map keys = scalar names, map keys = names of always-public symbols), so that public maps "
        "have keys naming non-public symbols and vice versa; names and keys are read off the real stores. non-trivial = the tree references at least one symbol; "
        "distinct = (tree, set of referenced non-public symbols)")

DIAG = ("tree-changed", "symtab-changed", "cfg-mismatch", "parse-error", "unbuildable", "bad-case", "not-a-", "hidden-node", "panic-mismatch",
        "err-other")


def _names(s):
    return [] if s in ("-", "") else s.split(",")


def _unname(x):
    try:
        return bytes.fromhex(x[1:]).decode("utf-8", "replace")
    except ValueError:
        return x


def _entries(field):
    """one store's <maps> field `name[=key],…[;name[=key],…]` -> (map (name, key) pairs, other symbols' (name, key) pairs)"""
    parts = (field.split(";") + [""])[:2]
    out = []
    for part in parts:
        l = []
        for e in _names(part):
            n, _, k = e.partition("=")
            l.append((n, k or n))
        out.append(l)
    return out[0], out[1]


def parse_impl(a):
    """-> (verdict, named, visited) ; verdict in ok err panic - diag"""
    f = a.split(" ")
    v = None
    for t in f:
        if t.startswith("v="):
            v = _names(t[2:])
    if f[0] in ("ok", "-"):
        return f[0], None, v
    if f[0] == "err" and len(f) >= 2:
        return "err", f[1], v
    if f[0] == "panic" and len(f) == 1:
        return "panic", None, None
    return "diag", None, None


def parse_spec(s):
    d = {}
    for t in s.split(" "):
        if "=" in t:
            k, v = t.split("=", 1)
            d[k] = v
    if not {"wf", "cfg", "nc", "tt", "ty", "bad", "all"} <= set(d):
        return None
    return {"wf": d["wf"] == "1", "cfg": d["cfg"] == "1", "nc": d["nc"] == "1", "tt": d["tt"] == "1", "ty": d["ty"] == "1",
            "bad": _names(d["bad"]), "all": _names(d["all"])}


def judge(case, a, s):
    """the property, as a predicate over (implementation output, specification line); returns None if it holds"""
    tag = case.split(" ", 1)[0]
    sp = parse_spec(s)
    if sp is None:
        return "specification could not read the case"
    verdict, named, visited = parse_impl(a)
    if not sp["wf"] and tag == "p":
        return "the parser produced a typed query with a nil child in a mandatory position"
    if verdict == "diag":
        return None  # not judgeable: reported as a correspondence failure (impl != model)
    if verdict == "panic":
        # nil children / typed nil pointers where the parser never leaves one: a panic there is outside the property
        # (the model predicts it: validate_panics_iff); on parser-shaped trees validation must not panic
        return "validation panics on a tree whose nil children are only where the parser leaves them" if sp["wf"] else None
    if tag in ("s", "a") and not sp["nc"]:
        return None  # a built tree whose hoisted set-function name is announced by nothing below it: hypothesis Admissible fails
    # from here on: validation ran to completion, so it must have seen every symbol (theorem validate_iff_nopanic) —
    # also on trees with typed nil pointers / nil children that Go happens to tolerate
    if tag == "p" and not sp["tt"] and set(visited or []) <= set(sp["all"]) and set(visited or []) != set(sp["all"]):
        missing = sorted(set(sp["all"]) - set(visited or []))
        return ("the typed query and the query text do not reference the same symbols (a symbol of the text was dropped "
                "or a name was invented by the typing transformation); never validated: " + ", ".join(map(_unname, missing)))
    if set(visited or []) != set(sp["all"]):
        missing = sorted(set(sp["all"]) - set(visited or []))
        extra = sorted(set(visited or []) - set(sp["all"]))
        return ("the traversal does not announce referenced symbol(s) " + ", ".join(map(_unname, missing)) if missing
                else "the traversal announces symbol(s) the query does not reference: " + ", ".join(map(_unname, extra)))
    api = [t[2:] for t in a.split(" ") if t.startswith("g=")]
    if api and api[0] != "-":
        handed = [x for x in api[0].split(",") if x not in ("!", "?")]
        unseen = sorted(set(handed) - set(visited or []))
        if unseen:
            return "GetSortFields() hands out symbol(s) that validation never saw: " + ", ".join(map(_unname, unseen))
    if tag == "a":
        toks = case.split(" ")
        if "G" in toks and toks.index("G") + 1 < len(toks) and api:
            want = _names(toks[toks.index("G") + 1])
            got = [] if api[0] == "-" else api[0].split(",")
            if got != want:
                return ("GetSortFields() of the assembled query lists [%s], the sort clause in force by construction is [%s]"
                        % (", ".join(map(_unname, got)), ", ".join(map(_unname, want))))
    if any(t == "gp=0" for t in a.split(" ")):
        return "GetPredicate() does not return the node that Accept walks as the predicate"
    if tag == "u" or not sp["cfg"]:
        return None
    if verdict == "ok" and sp["bad"]:
        return "accepted although non-public symbol(s) are referenced: " + ", ".join(map(_unname, sp["bad"]))
    if verdict == "err" and not sp["bad"]:
        return "rejected (naming %s) although every referenced symbol is public" % _unname(named)
    if verdict == "err" and named not in sp["bad"]:
        return "rejection names %s, which is not a referenced non-public symbol" % _unname(named)
    return None


def tree_tokens(case):
    toks = case.split(" ")[5:]
    return toks[:toks.index("//")] if "//" in toks else toks


def kinds_and_slots(toks):
    """kinds and (kind, child label) pairs occurring in a serialised tree"""
    kinds, slots = set(), set()
    pos = 0

    def rec():
        nonlocal pos
        t = toks[pos]
        pos += 1
        if t == "Z":
            return 0, False
        if t == "T":
            pos += 1
            return 0, False
        kind = toks[pos]
        n = int(toks[pos + 1])
        pos += 2 + 2 * n
        k = int(toks[pos])
        pos += 1
        kinds.add(kind)
        depth = 0
        for _ in range(k):
            label = toks[pos]
            pos += 1
            d, nonnil = rec()
            depth = max(depth, d)
            if nonnil:
                slots.add((kind, label))
        return depth + 1, True

    try:
        depth, _ = rec()
    except (IndexError, ValueError):
        return kinds, slots, -1
    return kinds, slots, depth


def describe(case, impl, model, spec):
    f = case.split(" ")
    d = {"kind": {"p": "ast.Parse + ValidateSymbolsArePublic", "s": "built tree + ValidateSymbolsArePublic",
                  "u": "untyped listener tree, traversal only",
                  "a": "query assembled through the exported API (ast.Parse, SetPredicate, AdoptSortFields, NewAndExprNode, …) + ValidateSymbolsArePublic"}.get(f[0], f[0]),
         "public_symbols": [_unname(x) for x in _names(f[3].split("^")[0])] if len(f) > 3 else None,
         "map_symbols": [_unname(n) for n, _ in _entries(f[2].split("^")[0])[0]] if len(f) > 2 else None,
         "impl": impl, "model": model, "spec": spec, "case": case}
    if len(f) > 2:
        mk, sk = _entries(f[2].split("^")[0])
        if any(n != k for n, k in mk + sk):
            d["stored_under_key"] = {"map_symbols (name: key)": {_unname(n): _unname(k) for n, k in mk},
                                     "other_symbols (name: key)": {_unname(n): _unname(k) for n, k in sk}}
    if len(f) > 3 and "^" in f[3]:
        # child store: the validating store is built with StoreDefinition.Parent; the stores up its parent chain
        # (nearest first) have public sets of their own ("+<mask>": made public before GrantSymbols to the child)
        d["store"] = "child store (StoreDefinition.Parent set, symbols granted by parent.GrantSymbols); masks own^parent^…: " + f[1]
        d["parent_chain_public_symbols"] = [[_unname(x) for x in _names(p)] for p in f[3].split("^")[1:]]
    if len(f) > 4 and f[4] != "-":
        d["query"] = _unname(f[4])
        if f[0] == "a":
            t1, t2, ops = (d["query"].split("\x1f") + ["", "", ""])[:3]
            d["recipe"] = {"base": t1, "other": t2, "ops": ops.split(";")}
            if "X" in f and "G" in f:
                d["referenced_by_construction"] = [_unname(x) for x in _names(f[f.index("X") + 1])]
                d["sort_fields_in_force"] = [_unname(x) for x in _names(f[f.index("G") + 1])]
    sp = parse_spec(spec or "")
    if sp:
        d["referenced_symbols"] = [_unname(x) for x in sp["all"]]
        d["referenced_non_public"] = [_unname(x) for x in sp["bad"]]
    v, named, visited = parse_impl(impl or "")
    if named:
        d["impl_names"] = _unname(named)
    if visited is not None:
        d["impl_visited"] = [_unname(x) for x in visited]
    if len(f) > 5 and f[0] != "p":
        d["tree"] = " ".join(_unname(t) if t.startswith("x") and all(c in "0123456789abcdef" for c in t[1:]) else t
                             for t in f[5:])
    return d


MATCHERS = {}


def run(ctx, replay_cases=None):
    ctx.assumptions += [
        "the extractor's reading of the Accept bodies (six recognised statement shapes; anything else is `unknown` and fails table_complete) is faithful; the correspondence compares the model's traversal driven by that table with the real Accept methods on every case",
        "trees are read from / written to the real ast structs by reflection over their fields (harness/c20_reflect.go); a struct field that can hold a node but is neither a node interface, a *kind, a kind nor a slice of those would be invisible to both extractor and walker, except that interface/map fields are reported as opaque (table_complete allows only AnyOfSetExprNode.seekablePredicate, which the walker checks to alias `predicate`)",
        "hypothesis Admissible: AllOfSetExprNode.name / AnyOfSetExprNode.name is announced by a node below (SetFunctionNode.MoveUpTree keeps the set symbol as left operand); checked on every parsed tree of the run, and the specification counts the name as referenced, so a transformation that lost it is reported",
        "the typing transformation (ast/node_convert.go transformTypes and every TypeTransform / TypeTransformBool method of node_convert.go, node_query.go, node_symbol.go, node_expr.go) is modelled as a deterministic function `transform` on the generic tree, directed by the symbol types (read off the real ast.SymbolTypes per parsed case: GetSymbolType / GetSetSymbolTypes), the regenerated interface table (type assertions), GetType constants and enumeration constants; shaped / nilOk / namesCovered / symbol preservation are theorems about the tree it builds (transform_good); that it builds the real typed tree is checked by exact tree equality on every parsed case; unmodelled (the function returns an error, which the correspondence would flag): strings.ToUpper beyond ASCII and of non-string constants under icontains, a set function over a sub-query in a comparison; independently the symbols of both real trees are compared and the specification judges against their union",
        "hypothesis pubWF: an element of a non-public map is not itself marked public (MakeSymbolPublic(\"tags.k\")); such configurations are generated, compared with the model, and excluded from the accept-iff judgement (theorem explicit_element_marking)",
        "naming: a symbol's NAME (what publicSymbols / mapSymbols / symbols are keyed by and a query writes) and its stored KEY (AddMapSymbol(name, type, key), AddSymbolWithKey, AddFkSymbolWithKey) are separate in the model (PubCfg.mapKeys / symKeys, arbitrary lists; NameE.mapKey / symKey are the only expressions that read them) and in the harness (keyed schemas k1..k3, names and keys read off the real stores by reflection / GetPath()); 'public' is judged by names only; the keys of the stores up the parent chain are not carried into the model (a child registers inherited maps under their key, name = key, see notes)",
        "symbols inside a sub-query are validated against the outer store (the store passed to ValidateSymbolsArePublic), as the code does and the property says ('public for the store')",
        "typed nil pointers stored in interface-typed fields, nil slice elements and nil children in every position are generated (built trees, and recipes over the exported API: SetPredicate / NewAndExprNode / NewInt64BetweenOp with nil and typed-nil arguments, zero-value nodes); the model predicts exactly when validation panics (nil interface not guarded, nil receiver whose Accept reads a field, value receiver) and the implementation is compared with it; a panic outside the parser's nil positions is garbage-in and not counted against the property, but whenever validation returns it is judged for having seen every symbol",
        "what the Query interface hands out besides Accept — GetSortFields()[i].Symbol(), GetPredicate() — is observed on every case and compared with the model's reading of the regenerated accessor table (Generated.queryApi, symbolVia)",
    ]
    os.environ["VERIF_ACCEPT_FACTS"] = os.path.join(common.FACTS, "accept.json")
    with common.Lock():
        common.build_tools(ctx)
        built = common.prove(ctx, MODULE, THEOREMS, TABLE_OBLIGATIONS)
    trusted = common.BASE_TRUST + [
        "reflect/unsafe access to unexported fields of the repository's ast structs in the harness (reads and writes fields only)"]
    if not (ctx.harness_ok and ctx.driver_ok):
        ctx.obligation("harness and model driver build against /repo", False,
                       (ctx.harness_log if not ctx.harness_ok else ctx.driver_log)[-400:])
        common.violation(ctx, "tie-broken", None,
                         {"reason": "harness or Lean driver does not build against the current tree",
                          "log": (ctx.harness_log if not ctx.harness_ok else ctx.driver_log)[-2000:]}, no_input=True)
        return common.finish(ctx, trusted_base=trusted)
    try:
        facts = json.load(open(os.environ["VERIF_ACCEPT_FACTS"]))
    except (OSError, ValueError):
        facts = {"kinds": [], "note": "facts/accept.json unreadable"}
    ctx.obligation("extractor read ast/*.go and boltz/validate.go", not facts.get("note") and len(facts["kinds"]) > 0,
                   facts.get("note", ""))
    if replay_cases is not None:
        lines = replay_cases
    else:
        lines = common.corpus_cases("c20") + [l for l in common.gen_cases(ctx, "c20").split("\n") if l]
    text = "\n".join(lines) + "\n"
    impl, model, spec = common.run_cases(ctx, "c20", text)
    n = len(lines)
    if len(impl) != n or len(model) != n or len(spec) != n:
        ctx.obligation("output streams aligned", False, f"cases {n} impl {len(impl)} model {len(model)} spec {len(spec)}")
        common.violation(ctx, "tie-broken", None, {"reason": "output streams not aligned (crash?)", "cases": n,
                                                   "impl": len(impl), "model": len(model), "impl_tail": impl[-3:],
                                                   "model_tail": model[-3:]}, no_input=True)
        return common.finish(ctx, trusted_base=trusted)

    if ctx.replay_mode:
        for i in range(n):
            print(json.dumps(dict(describe(lines[i], impl[i], model[i], spec[i]), verdict=judge(lines[i], impl[i], spec[i]) or "property holds on this input"), indent=1))
    spec_bad, corr_bad, typing_bad = [], [], []
    keys = set()
    hist = {"tag": {}, "verdict": {}, "depth": {}, "referenced_symbols": {}, "non_public_referenced": {}, "kind": {},
            "store_chain": {}, "naming_schema": {},
            "keyed_store": {"referenced_element_of_public_map_whose_key_is_not_public": 0,
                            "referenced_element_of_non_public_map_whose_key_is_public": 0,
                            "referenced_symbol_public_but_key_not_or_vice_versa": 0},
            "child_store": {"referenced_non_public_on_child_but_public_on_an_ancestor": 0,
                            "referenced_public_on_child_but_non_public_on_parent": 0},
            "hypotheses": {"nil_outside_parser_positions": 0, "element_marked_public_alone": 0, "name_not_covered": 0,
                           "typed_tree_and_text_reference_different_symbols": 0}}
    seen_kinds, seen_slots = set(), set()

    def bump(h, k):
        h[str(k)] = h.get(str(k), 0) + 1

    for i in range(n):
        c, a, m, s = lines[i], impl[i], model[i], spec[i]
        why = judge(c, a, s)
        if why is not None:
            spec_bad.append((c, a, m, s, why))
        elif a != m:
            corr_bad.append((c, a, m, s, "implementation and model outputs differ"))
        elif (parse_spec(s) or {}).get("ty") is False:
            typing_bad.append((c, a, m, s, "the modelled typing transformation `transform` does not yield the real typed tree from the real untyped tree"))
        toks = tree_tokens(c)
        kinds, slots, depth = kinds_and_slots(toks)
        seen_kinds |= kinds
        seen_slots |= slots
        sp = parse_spec(s) or {"wf": True, "cfg": True, "nc": True, "tt": True, "ty": True, "bad": [], "all": []}
        bump(hist["tag"], c.split(" ", 1)[0])
        bump(hist["verdict"], parse_impl(a)[0])
        bump(hist["depth"], depth)
        bump(hist["referenced_symbols"], len(sp["all"]))
        bump(hist["non_public_referenced"], len(sp["bad"]))
        for k in kinds:
            bump(hist["kind"], k)
        cf = c.split(" ", 4)
        chain_pubs = cf[3].split("^") if len(cf) > 3 else [""]
        bump(hist["store_chain"], {1: "no parent", 2: "child of a parent", 3: "grandchild"}.get(len(chain_pubs), "deeper"))
        mk_, sk_ = _entries(cf[2].split("^")[0]) if len(cf) > 2 else ([], [])
        bump(hist["naming_schema"], cf[1].split(":")[0] if len(cf) > 1 and ":" in cf[1] else "name=key")
        if any(n_ != k_ for n_, k_ in mk_ + sk_):
            own = set(_names(chain_pubs[0]))
            mkd, skd = dict(mk_), dict(sk_)
            for x in sp["all"]:
                raw = _unname(x)
                base = ("x" + raw.split(".")[0].encode().hex()) if "." in raw else None
                if base is not None and base in mkd:
                    if base in own and mkd[base] not in own:
                        hist["keyed_store"]["referenced_element_of_public_map_whose_key_is_not_public"] += 1
                    if base not in own and mkd[base] in own:
                        hist["keyed_store"]["referenced_element_of_non_public_map_whose_key_is_public"] += 1
                elif x in skd and (x in own) != (skd[x] in own):
                    hist["keyed_store"]["referenced_symbol_public_but_key_not_or_vice_versa"] += 1
        if len(chain_pubs) > 1:
            maps = set(n for n, _ in _entries(cf[2].split("^")[0])[0])
            anc = [set(_names(p)) for p in chain_pubs[1:]]

            def pub_in(pubset, name):
                raw = _unname(name)
                base = ("x" + raw.split(".")[0].encode().hex()) if "." in raw else None
                return (base in pubset) if (base is not None and base in maps) else (name in pubset)
            if any(pub_in(a_, x) for x in sp["bad"] for a_ in anc):
                hist["child_store"]["referenced_non_public_on_child_but_public_on_an_ancestor"] += 1
            if any(not pub_in(anc[0], x) for x in sp["all"] if x not in sp["bad"]):
                hist["child_store"]["referenced_public_on_child_but_non_public_on_parent"] += 1
        hist["hypotheses"]["nil_outside_parser_positions"] += 0 if sp["wf"] else 1
        hist["hypotheses"]["element_marked_public_alone"] += 0 if sp["cfg"] else 1
        hist["hypotheses"]["name_not_covered"] += 0 if sp["nc"] else 1
        hist["hypotheses"]["typed_tree_and_text_reference_different_symbols"] += 0 if sp["tt"] else 1
        if sp["all"]:
            keys.add((hashlib.sha1(" ".join(toks).encode()).hexdigest(), tuple(sorted(sp["bad"]))))

    ctx.coverage.update({
        "evaluations": n,
        "distinct_nontrivial": len(keys),
        "rule": RULE,
        "samples": [describe(lines[i], impl[i], model[i], spec[i]) for i in sorted(set([0, n // 3, n // 2, n - 1])) if 0 <= i < n],
        "impl_vs_spec_disagreements": len(spec_bad),
        "impl_vs_model_disagreements": len(corr_bad) + len([b for b in spec_bad if b[1] != b[2]]),
        "input_histogram": hist,
    })
    ncorr = len(corr_bad) + len([b for b in spec_bad if b[1] != b[2]])
    ctx.obligation("correspondence: implementation output (verdict, named symbol, sequence of VisitSymbol calls) = model output on every generated case",
                   ncorr == 0, f"{ncorr} disagreement(s)")
    ctx.obligation("correspondence of the typing model: `transform` (C20/Transform.lean) applied to the real untyped listener tree, for the symbol types the real SymbolTypes reports, yields exactly the real typed query (kinds, string and enumeration fields, children) on every parsed case",
                   not typing_bad, f"{len(typing_bad)} tree(s) differ")
    corr_bad += typing_bad
    if replay_cases is None:
        table_kinds = [k["name"] for k in facts["kinds"]]
        missing = sorted(set(table_kinds) - seen_kinds)
        ctx.obligation("generator reaches every node kind of the regenerated table", not missing and bool(table_kinds),
                       "not reached: " + ", ".join(missing) if missing else f"{len(table_kinds)} kinds")
        table_slots = {(k["name"], c["field"]) for k in facts["kinds"] for c in k["children"]}
        miss_slots = sorted(table_slots - seen_slots)
        ctx.obligation("generator fills every child position of every node kind", not miss_slots,
                       "not filled: " + ", ".join(f"{k}.{f}" for k, f in miss_slots) if miss_slots else f"{len(table_slots)} positions")
        cs = hist["child_store"]
        ctx.obligation("generator reaches child stores (StoreDefinition.Parent, GrantSymbols) whose own public set differs from an ancestor's on a referenced symbol, in both directions",
                       min(cs.values()) > 0, ", ".join(f"{k}: {v}" for k, v in cs.items()))
        ks = hist["keyed_store"]
        ctx.obligation("generator reaches stores whose symbols are stored under keys that differ from their names, with a referenced element of a public map whose key is not public, of a non-public map whose key is public, and a plain symbol whose name and key differ in visibility",
                       min(ks.values()) > 0, ", ".join(f"{k}: {v}" for k, v in ks.items()))
        ctx.coverage["kinds_reached"] = len(set(table_kinds) & seen_kinds)
        ctx.coverage["child_positions_reached"] = len(table_slots & seen_slots)
    try:
        exp = json.load(open(os.path.join(common.VERIF, "checks", "expect", "c20_sources.json")))
        diff = {k: v for k, v in facts.get("sourceHashes", {}).items() if exp.get(k) != v}
        if diff:
            ctx.notes.append("validate.go / IsPublicSymbol source text differs from the text recorded when the check was written "
                             "(informational: the validator is interpreted from the regenerated shape, obligation validator_good): "
                             + ", ".join(sorted(diff)))
    except (OSError, ValueError):
        pass

    unknown = []
    for b in spec_bad:
        if common.classify(ctx, MATCHERS, b[0], {"impl": b[1], "model": b[2], "spec": b[3]}) is None:
            unknown.append(b)
    if unknown:
        c, a, m, s, why = min(unknown, key=lambda u: ("pasu".find(u[0][0]), len(u[0]), u[0]))
        common.violation(ctx, "property-fails-on-input", c,
                         dict(describe(c, a, m, s), what_fails=why, unlisted_failing_cases=len(unknown),
                              more=[u[0] for u in sorted(unknown, key=lambda u: len(u[0]))[1:6]]))
    elif corr_bad:
        c, a, m, s, why = min(corr_bad, key=lambda u: ("pasu".find(u[0][0]), len(u[0]), u[0]))
        common.violation(ctx, "correspondence-broken", c,
                         dict(describe(c, a, m, s), disagreements=len(corr_bad),
                              reason="implementation and Lean model disagree although the implementation still meets the spec on every explored input; the theorems no longer speak about this code"),
                         no_input=True)
    elif not built or ctx.broken:
        common.violation(ctx, "obligation-broken", None,
                         {"reason": "a proof obligation no longer checks; the search over the generated cases found no (unlisted) input on which the property fails",
                          "broken": [f"{n}: {d}" if d else n for n, ok, d in ctx.obligations if not ok],
                          "lean_errors": [l for l in getattr(ctx, "lean_log", "").splitlines() if "error" in l][:10]},
                         no_input=True)
    return common.finish(ctx, trusted_base=trusted)
