"""C09 — integrity check: sound, complete, read-only in check mode, convergent in fix mode.

Flow (composed from common's pieces; the standard one-line-in/one-line-out flow does not fit
because the spec judges the implementation's *observations*):

  cases  = corpus + `harness c09 gen`      history through the real API + raw bbolt corruptions;
                                           the generator embeds the resulting canonical state
  impl   = `harness c09 exec`              check-only / fix / check-only / fix on the real code
  model  = `driver_c09`                    the Lean model run on the embedded state
  spec   = `driver_c09 spec`               the property's clauses (Spec.lean: inconsistencies,
                                           Unfixable, conflicts) evaluated on case + impl output

  impl != model  -> the theorems do not speak about this code (correspondence)
  spec != ok     -> the property fails on this input; every failing clause must be explained by a
                    `finding:` line of known-findings.txt, otherwise VIOLATION

  Clauses of the spec verdict: aborted (a CheckIntegrity call returned an error: the run stopped there and
  its transaction is rolled back), sound, complete, readonly, fixsound, flags, converge, entities, idempotent.
"""
import re

from . import common
from . import universe

MODULE = "StorageModel.Properties.C09"
THEOREMS = ["code_shape_is_repaired", "check_readonly", "check_reports_unfixed", "check_complete", "check_sound_reports",
            "check_sound", "check_clean_iff", "fix_converges", "fix_idempotent", "fix_noop_on_consistent",
            "fix_preserves_wf", "fix_mirrors", "run_never_fails", "store_run_never_fails", "fix_run_repairs",
            "universe_schema_ok", "empty_alias_clean", "one_transaction_fix_converges", "dup_and_missing_entry_converges",
            "junk_at_missing_value_converges", "emptied_store_converges",
            "layered_scan_is_view", "layered_access_is_view", "layered_check_sound", "layered_check_sound_reports",
            "layered_check_complete", "layered_check_readonly", "layered_fix_converges", "layered_healthy_clean",
            "key_nil_iff", "empty_string_key_nil_type_not", "fk_index_empty_is_no_reference",
            "fk_constraint_empty_is_no_reference", "empty_string_refs_clean",
            "named_run_is_flat_run", "named_stores_run_is_flat_run", "named_check_readonly", "named_check_reports_unfixed",
            "named_check_complete", "named_check_sound_reports", "named_check_sound", "named_check_clean_iff",
            "named_fix_converges", "named_fix_mirrors", "named_fix_idempotent", "named_fix_noop_on_consistent",
            "named_fix_writes_declared_paths", "named_fix_run_repairs", "naming_irrelevant",
            "nested_nullable_fk_is_repaired", "old_nested_nullable_fk_not_repaired"]
TABLE_OBLIGATIONS = ["code_shape_is_repaired (Generated/C09Quirks.lean, regenerated from boltz/link_collection.go and "
                     "boltz/indexes.go: IterateLinks is a read-only lookup, the unique-index entity loop skips an empty "
                     "value like nil, dangling links are removed after the link-cursor loop, fkIndex / fkConstraint clear a dangling nullable "
                     "reference at the symbol's path prefix ++ [key])"]


PROP = "c09"


# ----------------------------------------------------------------------------------- parsing

def parse_case(line):
    m = re.match(r"^(\S+) @H(.*?) @C(.*?) @S ?(.*)$", line)
    if not m:
        return None
    sp = lambda s: [x.strip() for x in s.split(";") if x.strip()]
    return {"mode": m.group(1), "history": sp(m.group(2)), "corrupt": sp(m.group(3)), "state": m.group(4).strip()}


def tx_mode(mode):
    """sep | tx1 | tx1r; a case over a schema of the naming / declaring-store family has mode N:<txmode>:<descriptor>"""
    return mode.split(":")[1] if mode.startswith("N:") else mode


def with_tx_mode(mode, tx):
    if mode.startswith("N:"):
        p = mode.split(":", 2)
        return f"N:{tx}:{p[2]}"
    return tx


def mode_key(mode):
    """the mode without the schema descriptor; for a family schema the naming variant is recognised from the path of
    things.name: same / suffixed / rotated / nested"""
    if not mode.startswith("N:"):
        return mode
    m = re.search(r"s/things/name/([^,]*)", mode)
    path = m.group(1) if m else ""
    nv = "same" if path == "name" else "suffixed" if path == "nameK" else "nested" if ">" in path else "rotated"
    return "N:" + tx_mode(mode) + ":" + nv


def make_case(mode, history, corrupt, state):
    return f"{mode} @H {';'.join(history)} @C {';'.join(corrupt)} @S {state}"


def parse_obs(out):
    parts = out.split(" | ")
    if len(parts) != 8:
        return None
    rep = lambda s: [] if s[3:].strip() in (".", "") else s[3:].split(" ")
    return {"R1": rep(parts[0]), "ro1": parts[1], "R2": rep(parts[2]), "D2": parts[3][3:], "R3": rep(parts[4]),
            "ro3": parts[5], "R4": rep(parts[6]), "s4": parts[7]}


def parse_verdict(v):
    """'fail:sound[a;b],readonly[ro1]' -> {'sound': ['a','b'], 'readonly': ['ro1']}"""
    if v == "ok":
        return {}
    if not v.startswith("fail:"):
        return {"verdict": [v]}
    res = {}
    for m in re.finditer(r"([a-z-]+)(?:\[([^\]]*)\])?", v[5:]):
        res[m.group(1)] = [x for x in (m.group(2) or "").split(";") if x]
    return res


# ---------------------------------------------------------------------------------- matchers
# a matcher sees (case line, info) with info = {"clause", "items", "impl", "model", "obs", "case"} and says
# whether a known finding explains THIS failing clause of this case.  The three findings of the first
# round (link check creating buckets in check-only mode, "" in a nullable unique index, cursor-delete
# skip in one transaction) are repaired in /repo (946f949, 6e61536, 0fc3c29), as is the one of round 8 (a dangling
# reference in a nullable fk stored under a prefix was never repaired; C09-nested-fk-repair); nothing is listed now.

MATCHERS = {}

RULE = ("random histories (4-17 operations through Create/Update/DeleteById/SetLinks on two stores with unique, "
        "nullable-unique, set, fk (nullable / non-nullable / self-referencing) indexes, fk constraints and a link "
        "collection pair) followed by 0-6 raw bbolt corruptions drawn from every supported class; one case in eight "
        "is run three times (separate transactions, one transaction things-then-owners, one transaction "
        "owners-then-things); plus a fixed 8-entity state (ids a1/a11 and b1/b11 in a prefix relation sharing every list) with every single corruption of a 46-entry catalogue and "
        "sampled pairs (quick) / every subset of <= 3 corruptions (thorough); plus INTERACTING corruptions: for 21 shared "
        "targets (a unique value of things.name / things.alias / owners.label, the set-index values r1 and r11, the fk "
        "pairs owner / home / boss, a link pair, one entity, and the stores emptied or never used) every class of "
        "corruption that can be aimed at the target, all pairs (both tiers; thorough also in the opposite order and "
        "inside one transaction in both store orders) and all triples (thorough) / a seeded sample of them (quick); one "
        "random history in three gets 2-3 corruptions aimed at one target chosen inside the state it produced. An "
        "error returned by CheckIntegrity is part of the compared outcome (clause `aborted`). LAYERED stores: things has "
        "an extended child store things_x (non-nullable unique badge, nullable unique tag, set index caps, non-nullable "
        "fk constraint sponsor) and a plain child store things_p (code, nick, marks); every thing of a random history is "
        "created / updated through the parent or one of the child stores (a thing may carry neither, one or both kinds of "
        "child data), corruptions also hit the child stores' indexes, fields and membership (data bucket deleted / created "
        "empty); all 64 assignments of {parent-only, extended, plain, both} to three ids as healthy databases and with one "
        "child-index corruption; 8 more shared targets inside the child stores. The EMPTY STRING: one random history in five writes "" through the API "
        "into alias / owner / dep / boss / tag / nick / label (accepted as no value) and tries empty list elements and links "
        "to the id \"\" (refused); all 128 subsets of those seven fields set to \"\" as healthy databases and with a stale "
        "back-reference; raw writes of \"\" into every fk field. SCHEMA FAMILY (cases N:...): the schema is drawn per case and "
        "carried by the case line - per scalar symbol a NAME and a stored PATH (key == name / key = name+K / the keys of a "
        "store's symbols rotated so that the key of one is the name of another / unique-indexed and non-nullable-fk symbols "
        "under a prefix bucket / the nullable fks under a prefix as well), and the store (things root, things_x extended "
        "child, things_p plain child) that OWNS AND DECLARES each of: the nullable fk index owner -> owners.things, the "
        "nullable fk constraint dep (also: declared by things_x on the parent's granted symbol), the nullable fk index "
        "boss -> things.minions, the link collection groups <-> owners.members; the nullable fk index owners.fav points at "
        "a root or child store (back-references inside the child's data bucket); generic stores wired through "
        "AddSymbolWithKey / AddFkSymbolWithKey; corruptions addressed physically (path, bucket); the state dump lists, per "
        "entity bucket, the value at every declared PATH and every key no symbol accounts for; for every naming variant x "
        "declaring store a healthy population with one corruption of every class on every declared index / symbol, "
        "sampled pairs (also inside one transaction, both store orders), and random schemas x random histories x 0-4 "
        "corruptions. non-trivial = at least one corruption "
        "applied and at least one report in the check-only phase; distinct = (mode, sorted set of (class, index) "
        "pairs reported in phase 1, number of reports in phase 3)")


def nontrivial(case, impl):
    c, obs = parse_case(case), parse_obs(impl)
    if not c or not obs or not c["corrupt"] or not obs["R1"]:
        return None
    return (mode_key(c["mode"]), tuple(sorted(set(":".join(r.split(":")[:2]) for r in obs["R1"]))), len(obs["R3"]))


def describe(case, impl, model, spec):
    c = parse_case(case) or {}
    return {"mode": c.get("mode"), "history": c.get("history"), "corruptions": c.get("corrupt"),
            "state": c.get("state"), "impl": impl, "model": model, "spec": spec, "case": case}


# -------------------------------------------------------------------------------- execution

PARALLEL = 4          # harness / driver processes run side by side on large case sets


def _run_chunk(ctx, lines):
    text = "\n".join(lines) + "\n"
    impl, model, _ = common.run_cases(ctx, PROP, text, want_spec=False)
    if len(impl) != len(lines) or len(model) != len(lines):
        return impl, model, None
    spec_in = "\n".join(f"{c} @O {a}" for c, a in zip(lines, impl)) + "\n"
    rc, out = common.sh([common.DRIVER, "spec"], inp=spec_in.encode(), timeout=3600)
    spec = out.split("\n")
    if spec and spec[-1] == "":
        spec.pop()
    return impl, model, spec


def run_all(ctx, lines):
    """implementation, model and spec verdict per case line; large sets are cut into PARALLEL contiguous chunks that
    run side by side (every case is independent: a fresh database per case) and are concatenated in order"""
    if len(lines) < 1000:
        return _run_chunk(ctx, lines)
    from concurrent.futures import ThreadPoolExecutor
    k = (len(lines) + PARALLEL - 1) // PARALLEL
    chunks = [lines[i:i + k] for i in range(0, len(lines), k)]
    with ThreadPoolExecutor(max_workers=PARALLEL) as ex:
        parts = list(ex.map(lambda ch: _run_chunk(ctx, ch), chunks))
    impl, model, spec = [], [], []
    for (a, m, sp), ch in zip(parts, chunks):
        if sp is None or len(sp) != len(ch):
            return impl + a, model + m, None
        impl += a
        model += m
        spec += sp
    return impl, model, spec


def embed_states(ctx, cands):
    """cands: list of (mode, history, corrupt) -> case lines with the state the real code produces"""
    probe = "\n".join(make_case(m, h, c, "?") for m, h, c in cands) + "\n"
    rc, out = common.sh([common.HARNESS, PROP, "exec"], inp=probe.encode(), timeout=600)
    res = []
    for (m, h, c), o in zip(cands, out.split("\n")):
        st = o[len("state-mismatch "):] if o.startswith("state-mismatch ") else None
        res.append(make_case(m, h, c, st) if st is not None else None)
    return res


def failure_signature(case, impl, model, spec):
    """what must be preserved while shrinking"""
    sig = set(parse_verdict(spec or "ok").keys())
    if impl != model:
        sig.add("correspondence")
    return sig


def shrink(ctx, case, want, unexplained):
    """greedy delta debugging over corruptions and history operations; `unexplained(case, impl, model, spec)`
    returns the set of failing clauses no known finding explains; a candidate is kept when it still has
    an unexplained clause of the original kind"""
    cur = parse_case(case)
    best = case
    for _ in range(40):
        cands = []
        for i in range(len(cur["corrupt"])):
            cands.append((cur["mode"], cur["history"], cur["corrupt"][:i] + cur["corrupt"][i + 1:]))
        for i in range(len(cur["history"])):
            cands.append((cur["mode"], cur["history"][:i] + cur["history"][i + 1:], cur["corrupt"]))
        if tx_mode(cur["mode"]) != "sep":
            cands.append((with_tx_mode(cur["mode"], "sep"), cur["history"], cur["corrupt"]))
        if not cands:
            break
        lines = embed_states(ctx, cands)
        live = [l for l in lines if l]
        if not live:
            break
        impl, model, spec = run_all(ctx, live)
        if spec is None:
            break
        progressed = False
        for l, a, m, s in sorted(zip(live, impl, model, spec), key=lambda t: len(t[0])):
            if unexplained(l, a, m, s) & want:
                cur, best, progressed = parse_case(l), l, True
                break
        if not progressed:
            break
    return best


def run(ctx, replay_cases=None):
    ctx.assumptions += [
        "bbolt: a cursor opened on a bucket that was not modified earlier in the same transaction iterates the "
        "keys present when it was opened, also across Cursor.Delete / Bucket.Delete of visited keys (modelled, not "
        "verified; exercised by every fix-mode case; the tx1/tx1r modes look for the other behaviour)",
        "ids, index keys and list elements are non-empty strings without whitespace; entity ids in the entities "
        "bucket are buckets (no plain keys); the index buckets exist (InitializeIndexes ran)",
        "CheckIntegrity runs inside a read-write transaction (in a read-only transaction GetOrCreatePath fails and "
        "the link check silently iterates nothing for entities without a link bucket)",
        "ref-counted link collections are outside the checker (rcLinkCollectionImpl has no CheckIntegrity)",
    ]
    with common.Lock():
        common.build_tools(ctx)
        built = common.prove(ctx, MODULE, THEOREMS, TABLE_OBLIGATIONS)
    trusted = common.BASE_TRUST + [
        "bbolt cursor semantics as described in StorageModel/C09/Model.lean (modelled, not verified)",
        "the canonical state dump of harness/c09_store.go (c09StateDump) faithfully abstracts the database for the "
        "modelled schema; the raw boltz.Traverse dump is used for the byte-for-byte read-only clause",
    ]
    if not (ctx.harness_ok and ctx.driver_ok):
        ctx.obligation("harness and model driver build against /repo", False,
                       (ctx.harness_log if not ctx.harness_ok else ctx.driver_log)[-400:])
        common.violation(ctx, "tie-broken", None,
                         {"reason": "harness or Lean driver does not build against the current tree",
                          "log": (ctx.harness_log if not ctx.harness_ok else ctx.driver_log)[-2000:]}, no_input=True)
        return common.finish(ctx, trusted_base=trusted)

    if replay_cases is not None:
        lines = list(replay_cases)
    else:
        corpus = common.corpus_cases(PROP)
        # corpus lines carry the state of the tree they were recorded on; re-embed it for this tree
        if corpus:
            parsed = [parse_case(l) for l in corpus]
            corpus = [l for l in embed_states(ctx, [(c["mode"], c["history"], c["corrupt"]) for c in parsed if c]) if l]
        lines = corpus + [l for l in common.gen_cases(ctx, PROP).split("\n") if l]
    impl, model, spec = run_all(ctx, lines)
    n = len(lines)
    if spec is None or len(spec) != n:
        ctx.obligation("output streams aligned", False, f"cases {n} impl {len(impl)} model {len(model)}")
        common.violation(ctx, "tie-broken", None,
                         {"reason": "output streams not aligned (crash?)", "cases": n, "impl": len(impl),
                          "model": len(model), "impl_tail": impl[-2:], "model_tail": model[-2:]}, no_input=True)
        return common.finish(ctx, trusted_base=trusted)

    # which (history, corruptions) agreed with the model when run in separate transactions
    sep_ok = {}
    for c, a, m in zip(lines, impl, model):
        pc = parse_case(c)
        if pc and tx_mode(pc["mode"]) == "sep":
            sep_ok[(with_tx_mode(pc["mode"], "sep"), tuple(pc["history"]), tuple(pc["corrupt"]))] = (a == m)

    def unexplained(c, a, m, s, record=False):
        pc, obs = parse_case(c), parse_obs(a)
        clauses = parse_verdict(s)
        if a != m:
            clauses = dict(clauses, correspondence=[])
        left = set()
        for cl, items in clauses.items():
            info = {"clause": cl, "items": items, "impl": a, "model": m, "obs": obs, "case": pc,
                    "twin_ok": sep_ok.get((with_tx_mode(pc["mode"], "sep"), tuple(pc["history"]), tuple(pc["corrupt"]))) if pc else None}
            if record:
                hit = common.classify(ctx, MATCHERS, c, info)
            else:
                hit = next((t for nme, t in common.load_known(ctx.prop) if MATCHERS.get(nme) and MATCHERS[nme](c, info)), None)
            if hit is None:
                left.add(cl)
        return left

    keys, hist = set(), {"mode": {}, "corruptions": {}, "things": {}, "phase1_classes": {}, "verdict_clauses": {}}
    bump = lambda d, k: d.__setitem__(k, d.get(k, 0) + 1)
    bad_spec, bad_corr = [], []
    for c, a, m, s in zip(lines, impl, model, spec):
        k = nontrivial(c, a)
        if k is not None:
            keys.add(k)
        pc, obs = parse_case(c), parse_obs(a)
        if pc:
            bump(hist["mode"], mode_key(pc["mode"]))
            bump(hist["corruptions"], str(len(pc["corrupt"])))
            bump(hist["things"], str(pc["state"].count("E things ")))
        if obs:
            for r in obs["R1"]:
                bump(hist["phase1_classes"], r.split(":")[0])
        for cl in parse_verdict(s):
            bump(hist["verdict_clauses"], cl)
        if a == m and s == "ok":
            continue
        left = unexplained(c, a, m, s, record=True)
        if left - {"correspondence"}:
            bad_spec.append((c, a, m, s, left))
        elif left:
            bad_corr.append((c, a, m, s, left))
    n_corr = sum(1 for a, m in zip(impl, model) if a != m)
    ctx.coverage.update({
        "evaluations": n,
        "distinct_nontrivial": len(keys),
        "rule": RULE,
        "samples": [describe(lines[i], impl[i], model[i], spec[i]) for i in sorted(set([0, n // 3, n // 2, n - 1])) if 0 <= i < n],
        "input_distribution": hist,
        "impl_vs_model_disagreements": n_corr,
        "impl_vs_spec_failures": sum(1 for s in spec if s != "ok"),
        "unexplained_property_failures": len(bad_spec),
        "unexplained_correspondence_failures": len(bad_corr),
    })
    ctx.obligation("correspondence: implementation output = model output on every generated case "
                   "(except disagreements explained by a known finding)", not bad_corr and not [b for b in bad_spec if b[1] != b[2]],
                   f"{n_corr} disagreement(s), {len(bad_corr) + len([b for b in bad_spec if b[1] != b[2]])} unexplained")
    universe.universe_stream(ctx, ["C09"])  # end of the generated-cases phase: the shared universe stream
    if bad_spec:
        c, a, m, s, left = min(bad_spec, key=lambda t: (len(t[0]), t[0]))
        if not ctx.replay_mode:
            c2 = shrink(ctx, c, left - {"correspondence"}, lambda *x: unexplained(*x))
            if c2 != c:
                ia, im, isp = run_all(ctx, [c2])
                c, a, m, s = c2, ia[0], im[0], isp[0]
                left = unexplained(c, a, m, s)
        common.violation(ctx, "property-fails-on-input", c,
                         dict(describe(c, a, m, s), failing_clauses=sorted(left), unlisted_failing_cases=len(bad_spec),
                              more=[b[0] for b in sorted(bad_spec, key=lambda t: len(t[0]))[1:4]]))
    elif bad_corr:
        c, a, m, s, left = min(bad_corr, key=lambda t: (len(t[0]), t[0]))
        if not ctx.replay_mode:
            c2 = shrink(ctx, c, left, lambda *x: unexplained(*x))
            if c2 != c:
                ia, im, isp = run_all(ctx, [c2])
                c, a, m, s = c2, ia[0], im[0], isp[0]
        common.violation(ctx, "correspondence-broken", c,
                         dict(describe(c, a, m, s), disagreements=len(bad_corr),
                              reason="implementation and Lean model disagree although the implementation still meets "
                                     "the spec on every explored input; the theorems no longer speak about this code"),
                         no_input=True)
    elif not built or ctx.broken:
        common.violation(ctx, "obligation-broken", None,
                         {"reason": "a proof obligation no longer checks; the search over the generated cases found no "
                                    "(unlisted) input on which the property fails",
                          "lean_errors": [l for l in getattr(ctx, "lean_log", "").splitlines() if "error" in l][:10]},
                         no_input=True)
    return common.finish(ctx, trusted_base=trusted)
