"""C11 — string literals denote exactly the intended string."""
from . import common

MODULE = "StorageModel.Properties.C11"
THEOREMS = ["table_is_good", "literal_denotes", "every_string_has_literal", "distinct_strings", "no_reread",
            "literal_lexes", "compare_matches", "eq_matches_exactly", "filter_matches", "filter_matches_written",
            "set_atoms_independent", "set_query_matches", "seek_finds_own_literal", "sorted_rows"]


def _unhex(w):
    return b"" if w == "-" else bytes.fromhex(w)


_META = b"*%_?.^$[]!~/|+{}()"
_ESC = b'\\"\n\t\r\f'


def _special(s):
    """the intended string contains a character that needs escaping or a pattern metacharacter"""
    return any(c in s for c in _ESC) or any(c in s for c in _META)


_STRUCT = {"A", "O", "N", "C", "I", "Q", "J", "any", "all", "eq", "ne", "in", "nin", "contains", "ncontains", "icontains", "nicontains"}


def nontrivial(case, impl):
    f = case.split(" ")
    if f[0] in ("m", "s"):
        s = _unhex(f[1])
        if _special(s):
            # the operator skeleton of the filter (everything that is not a hex string), fields excluded
            toks = f[2:f.index(".")] if "." in f else f[2:]
            skel = " ".join(t for t in toks if t in _STRUCT)
            return (f[0], skel, s)
        return None
    s = _unhex(f[2] if f[0] == "u" else f[3]) + (_unhex(f[5]) if f[0] in ("c", "d") else b"")
    # non-trivial: the intended string contains a character that needs escaping or a pattern metacharacter
    if _special(s):
        return (f[0], f[1] if f[0] in ("e", "b", "c", "d") else "", s)
    return None


def describe(case, impl, model, spec):
    f = case.split(" ")
    if f[0] == "m":
        dot = f.index(".") if "." in f else len(f)
        return {"kind": "ast.Parse+EvalBool on a whole filter (prefix form: A and, O or, N not, C <op> <literal> <intended>, "
                        "I <negated> <k> (<literal> <intended>)^k); one result bit per field value",
                "intended": _unhex(f[1]).decode("utf-8", "replace"),
                "filter": [(t if t in _STRUCT or len(t) == 1 and t != "-" else _unhex(t).decode("utf-8", "replace"))
                           for t in f[2:dot]],
                "fields": f[dot + 1:], "impl": impl, "model": model, "spec": spec, "case": case}
    if f[0] == "s":
        dot = f.index(".") if "." in f else len(f)
        return {"kind": "a whole filter over the string set symbols ta (0) / tb (1): ast.Parse+EvalBool over in-memory "
                        "symbols with one seekable cursor object per symbol AND Store.QueryIds on a bolt store with two "
                        "set symbols (prefix form: A and, O or, N not, Q <any|all> <sym> <op> <literal> <intended>, "
                        "J <any|all> <sym> <k> (<literal> <intended>)^k; rows: R starts an entity, S starts a set, "
                        "hex elements); one verdict bit per row, memory then bolt",
                "intended": _unhex(f[1]).decode("utf-8", "replace"),
                "filter": [(t if t in _STRUCT or len(t) == 1 and t != "-" else _unhex(t).decode("utf-8", "replace"))
                           for t in f[2:dot]],
                "rows": " ".join(f[dot + 1:]), "impl": impl, "model": model, "spec": spec, "case": case}
    if f[0] == "u":
        return {"kind": "ParseZqlString", "literal": _unhex(f[1]).decode("utf-8", "replace"),
                "intended": _unhex(f[2]).decode("utf-8", "replace"), "impl": impl, "model": model, "spec": spec,
                "case": case}
    return {"kind": "ast.Parse+EvalBool" if f[0] == "e" else "Store.QueryIds on a bolt store (`id <op> lit` and `name <op> lit`, one entity per value)", "op": f[1], "literal": _unhex(f[2]).decode("utf-8", "replace"),
            "intended": _unhex(f[3]).decode("utf-8", "replace"), "fields": f[4:], "impl": impl, "model": model,
            "spec": spec, "case": case}


MATCHERS = {}

RULE = ("all strings over the 10-character alphabet {a n t \\ \" space LF TAB x *} up to length 4 (quick) / 5 "
        "(thorough), plus random strings up to 24 characters over a wider alphabet; each as a ParseZqlString case "
        "(random per-occurrence choice of raw or escaped control character) and as an end-to-end ast.Parse + "
        "EvalBool case in a random operand position (= != in not-in contains not-contains) against the intended "
        "string and its plausible misreadings; for every string of length <= 2 and one longer string in eight additionally a bolt-store case: one entity per (non-empty, distinct) candidate value with id = name = value, `id <op> literal` and `name <op> literal` run through Store.QueryIds (the filter text is exactly that comparison, so any shortcut the store takes before parsing is on the path), and a c case: the literal and a neighbouring literal (blanks doubled / collapsed / added at an end, case changed) queried one after the other on the SAME store object, so anything the store remembers between queries is on the path; for one string in two an m case: a whole filter (2-4 comparisons / in-lists under and, or, not; operators drawn independently per comparison, icontains / not icontains included) whose literals come from a pool around the string (the string itself several times, its upper-case form, a prefix, a suffix, an extension), so the same token text occurs several times in one filter under different operators, evaluated on the candidate field values of every pool string; for one string in four an s case: a whole filter over two string SET symbols (2-4 comparisons anyOf/allOf(t) = != contains icontains lit and in-lists under and, or, not; mostly several comparisons naming the same set symbol with different literals, the seekable form anyOf(t) = lit twice) on 3-5 rows whose sets hold the literals, strings that sort between / right after them and what a pattern reading of a metacharacter would match, run over in-memory symbols and through Store.QueryIds of a bolt store; the alphabets contain glob / regex / LIKE metacharacters (* in the exhaustive alphabet, so at the beginning, in the middle and at the end of every short string; % _ ? . ^ $ ~ / | + { } .* in the random one) and the field values include the literal with a metacharacter dropped or replaced by one or two characters; literals also contain the keywords and punctuation of the filter language (not, in, or, and, null, true, contains, brackets, commas); non-trivial = intended string contains a character that needs "
        "escaping or a pattern metacharacter; distinct = (kind, operator, string)")


def run(ctx, replay_cases=None):
    ctx.assumptions += [
        "strings.NewReplacer / strings.Replace / TrimPrefix / TrimSuffix behave as the two interpreters in Zql/Unescape.lean (exercised by the correspondence on every run)",
        "the ANTLR lexer hands the STRING token text to the listener unchanged (exercised by the end-to-end cases)",
        "input strings are valid UTF-8 (ANTLR works on code points)",
        "set cases: the elements of a string set are served in byte order of their keys (bbolt cursor; all elements carry the same type byte) - the hypothesis `SetRow.sorted` of set_atoms_independent; `Cursor.Seek` positions on the first key not below the given key",
        "bolt-store cases: entity ids are non-empty byte strings usable as bbolt keys; the store resolves `id` to the entity key and `name` to the stored string field (C01's subject)",
    ]
    return common.standard_flow(ctx, "c11", MODULE, THEOREMS, MATCHERS, nontrivial, describe, RULE,
                                table_obligations=["table_is_good (Generated/UnescapeTable.lean, regenerated from zitiql/util.go)"],
                                replay_cases=replay_cases)
