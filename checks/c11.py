"""C11 — string literals denote exactly the intended string."""
from . import common

MODULE = "StorageModel.Properties.C11"
THEOREMS = ["table_is_good", "literal_denotes", "every_string_has_literal", "distinct_strings", "no_reread",
            "literal_lexes", "compare_matches", "eq_matches_exactly", "filter_matches", "filter_matches_written"]


def _unhex(w):
    return b"" if w == "-" else bytes.fromhex(w)


_STRUCT = {"A", "O", "N", "C", "I", "eq", "ne", "in", "nin", "contains", "ncontains", "icontains", "nicontains"}


def nontrivial(case, impl):
    f = case.split(" ")
    if f[0] == "m":
        s = _unhex(f[1])
        if any(c in s for c in b'\\"\n\t\r\f'):
            # the operator skeleton of the filter (everything that is not a hex string), fields excluded
            toks = f[2:f.index(".")] if "." in f else f[2:]
            skel = " ".join(t for t in toks if t in _STRUCT)
            return ("m", skel, s)
        return None
    s = _unhex(f[2] if f[0] == "u" else f[3]) + (_unhex(f[5]) if f[0] in ("c", "d") else b"")
    # non-trivial: the intended string contains a character that needs escaping
    if any(c in s for c in b'\\"\n\t\r\f'):
        return (f[0], f[1] if f[0] in ("e", "b", "c", "d") else "", s)
    return None


def describe(case, impl, model, spec):
    f = case.split(" ")
    if f[0] == "m":
        dot = f.index(".") if "." in f else len(f)
        return {"kind": "ast.Parse+EvalBool on a whole filter (prefix form: A and, O or, N not, C <op> <literal> <intended>, "
                        "I <negated> <k> (<literal> <intended>)^k); one result bit per field value",
                "intended": _unhex(f[1]).decode("utf-8", "replace"),
                "filter": [(t if t in _STRUCT or len(t) == 1 and t != "-" else _unhex(t).decode("utf-8", "replace"))
                           for t in f[2:dot]],
                "fields": f[dot + 1:], "impl": impl, "model": model, "spec": spec, "case": case}
    if f[0] == "u":
        return {"kind": "ParseZqlString", "literal": _unhex(f[1]).decode("utf-8", "replace"),
                "intended": _unhex(f[2]).decode("utf-8", "replace"), "impl": impl, "model": model, "spec": spec,
                "case": case}
    return {"kind": "ast.Parse+EvalBool" if f[0] == "e" else "Store.QueryIds on a bolt store (`id <op> lit` and `name <op> lit`, one entity per value)", "op": f[1], "literal": _unhex(f[2]).decode("utf-8", "replace"),
            "intended": _unhex(f[3]).decode("utf-8", "replace"), "fields": f[4:], "impl": impl, "model": model,
            "spec": spec, "case": case}


MATCHERS = {}

RULE = ("all strings over the 9-character alphabet {a n t \\ \" space LF TAB x} up to length 4 (quick) / 5 "
        "(thorough), plus random strings up to 24 characters over a wider alphabet; each as a ParseZqlString case "
        "(random per-occurrence choice of raw or escaped control character) and as an end-to-end ast.Parse + "
        "EvalBool case in a random operand position (= != in not-in contains not-contains) against the intended "
        "string and its plausible misreadings; for every string of length <= 2 and one longer string in eight additionally a bolt-store case: one entity per (non-empty, distinct) candidate value with id = name = value, `id <op> literal` and `name <op> literal` run through Store.QueryIds (the filter text is exactly that comparison, so any shortcut the store takes before parsing is on the path), and a c case: the literal and a neighbouring literal (blanks doubled / collapsed / added at an end, case changed) queried one after the other on the SAME store object, so anything the store remembers between queries is on the path; for one string in two an m case: a whole filter (2-4 comparisons / in-lists under and, or, not; operators drawn independently per comparison, icontains / not icontains included) whose literals come from a pool around the string (the string itself several times, its upper-case form, a prefix, a suffix, an extension), so the same token text occurs several times in one filter under different operators, evaluated on the candidate field values of every pool string; literals also contain the keywords and punctuation of the filter language (not, in, or, and, null, true, contains, brackets, commas); non-trivial = intended string contains a character that needs "
        "escaping; distinct = (kind, operator, string)")


def run(ctx, replay_cases=None):
    ctx.assumptions += [
        "strings.NewReplacer / strings.Replace / TrimPrefix / TrimSuffix behave as the two interpreters in Zql/Unescape.lean (exercised by the correspondence on every run)",
        "the ANTLR lexer hands the STRING token text to the listener unchanged (exercised by the end-to-end cases)",
        "input strings are valid UTF-8 (ANTLR works on code points)",
        "bolt-store cases: entity ids are non-empty byte strings usable as bbolt keys; the store resolves `id` to the entity key and `name` to the stored string field (C01's subject)",
    ]
    return common.standard_flow(ctx, "c11", MODULE, THEOREMS, MATCHERS, nontrivial, describe, RULE,
                                table_obligations=["table_is_good (Generated/UnescapeTable.lean, regenerated from zitiql/util.go)"],
                                replay_cases=replay_cases)
