"""Decision procedure shared by C02 and C19 (same observable contract as common.standard_flow,
composed from its pieces), with three additions:

  * the `paging` facts (facts/paging.json, regenerated from the source by /verif/extract) are
    compared with the committed expectation checks/expect/paging.json — one more obligation;
  * a failing case is shrunk (rows, field values, sort fields, filter, provider, seek, paging
    tokens) before it is written to the replay file;
  * the input distribution histogram goes into the evidence.
"""
import json
import os

from . import common


def _run3(ctx, prop_lc, lines):
    text = "\n".join(lines) + "\n"
    return common.run_cases(ctx, prop_lc, text, want_spec=True)


def facts_obligation(ctx):
    got_p = os.path.join(common.FACTS, "paging.json")
    exp_p = os.path.join(common.VERIF, "checks", "expect", "paging.json")
    try:
        got, exp = json.load(open(got_p)), json.load(open(exp_p))
    except (OSError, ValueError) as e:
        ctx.obligation("facts/paging.json equals the committed expectation", False, str(e))
        return
    diffs = []
    for pkg in sorted(set(got) | set(exp)):
        g, e = got.get(pkg, {}), exp.get(pkg, {})
        for k in sorted(set(g) | set(e)):
            if g.get(k) != e.get(k):
                diffs.append(f"{pkg}.{k}: {json.dumps(g.get(k))} (expected {json.dumps(e.get(k))})")
    ctx.obligation("facts/paging.json (setPaging, maxResults, eviction test, float64 comparator branch chain in boltz and objectz) equals the committed expectation",
                   not diffs, "; ".join(diffs)[:600])
    ctx.coverage["paging_facts"] = {pkg: dict({k: got[pkg].get(k) for k in ("recognised", "clampNegativeSkip", "overflowGuard", "evictStrict")},
                                              floatCmpRecognised=got[pkg].get("floatCmp", {}).get("recognised"),
                                              floatCmpNanFirst=got[pkg].get("floatCmp", {}).get("nanFirst"))
                                    for pkg in got}


def shrink(ctx, prop_lc, case, candidates, still_fails, rounds=40):
    """greedy delta debugging: candidates(case) -> list of smaller cases"""
    cur = case
    if ctx.replay_mode:
        return cur
    for _ in range(rounds):
        cands = [c for c in candidates(cur) if c != cur]
        if not cands:
            break
        impl, model, spec = _run3(ctx, prop_lc, cands)
        if len(impl) != len(cands) or len(spec) != len(cands) or len(model) != len(cands):
            break
        nxt = None
        for c, a, m, s in zip(cands, impl, model, spec):
            if still_fails(a, m, s):
                nxt = c
                break
        if nxt is None:
            break
        cur = nxt
    return cur


def flow(ctx, prop_lc, module, theorems, matchers, nontrivial, describe, rule, histogram, candidates,
         table_obligations=(), trusted=None, replay_cases=None):
    trusted = trusted or common.BASE_TRUST
    with common.Lock():
        common.build_tools(ctx)
        built = common.prove(ctx, module, theorems, table_obligations)
    facts_obligation(ctx)
    if not (ctx.harness_ok and ctx.driver_ok):
        ctx.obligation("harness and model driver build against /repo", False,
                       (ctx.harness_log if not ctx.harness_ok else ctx.driver_log)[-400:])
        common.violation(ctx, "tie-broken", None,
                         {"reason": "harness or Lean driver does not build against the current tree",
                          "log": (ctx.harness_log if not ctx.harness_ok else ctx.driver_log)[-2000:]}, no_input=True)
        return common.finish(ctx, trusted_base=trusted)
    if replay_cases is not None:
        lines = list(replay_cases)
    else:
        lines = common.corpus_cases(prop_lc) + [l for l in common.gen_cases(ctx, prop_lc).split("\n") if l]
    impl, model, spec = _run3(ctx, prop_lc, lines)
    n = len(lines)
    if len(impl) != n or len(model) != n or len(spec) != n:
        ctx.obligation("output streams aligned", False, f"cases {n} impl {len(impl)} model {len(model)} spec {len(spec)}")
        common.violation(ctx, "tie-broken", None, {"reason": "output streams not aligned (crash?)", "cases": n,
                                                   "impl": len(impl), "model": len(model), "spec": len(spec),
                                                   "impl_tail": impl[-2:], "model_tail": model[-2:]}, no_input=True)
        return common.finish(ctx, trusted_base=trusted)
    spec_bad, corr_bad, keys = [], [], set()
    for c, a, m, s in zip(lines, impl, model, spec):
        k = nontrivial(c, a)
        if k is not None:
            keys.add(k)
        if a != s:
            spec_bad.append((c, a, m, s))
        elif a != m:
            corr_bad.append((c, a, m, s))
    model_bad = len(corr_bad) + len([b for b in spec_bad if b[1] != b[2]])
    ctx.coverage.update({
        "evaluations": n,
        "distinct_nontrivial": len(keys),
        "rule": rule,
        "samples": [describe(lines[i], impl[i], model[i], spec[i]) for i in sorted(set([0, n // 3, n // 2, n - 1])) if 0 <= i < n],
        "impl_vs_spec_disagreements": len(spec_bad),
        "impl_vs_model_disagreements": model_bad,
        "input_histogram": histogram(lines),
    })
    if replay_cases is not None:
        for c, a, m, s in zip(lines, impl, model, spec):
            print(json.dumps(describe(c, a, m, s), indent=1))
    ctx.obligation("correspondence: implementation output = model output on every generated case", model_bad == 0,
                   f"{model_bad} disagreement(s)")
    unknown = []
    for b in spec_bad:
        if common.classify(ctx, matchers, b[0], {"impl": b[1], "model": b[2], "spec": b[3]}) is None:
            unknown.append(b)
    if unknown:
        c, a, m, s = common.shortest(unknown)
        small = shrink(ctx, prop_lc, c, candidates, lambda a_, m_, s_: a_ != s_ and not a_.startswith("panic") or (a_.startswith("panic") and a.startswith("panic")))
        a2, m2, s2 = [x[0] for x in _run3(ctx, prop_lc, [small])]
        common.violation(ctx, "property-fails-on-input", small,
                         dict(describe(small, a2, m2, s2), unlisted_failing_cases=len(unknown), original_case=c,
                              more=[u[0] for u in sorted(unknown, key=lambda u: len(u[0]))[1:4]]))
    elif corr_bad:
        c, a, m, s = common.shortest(corr_bad)
        small = shrink(ctx, prop_lc, c, candidates, lambda a_, m_, s_: a_ == s_ and a_ != m_)
        a2, m2, s2 = [x[0] for x in _run3(ctx, prop_lc, [small])]
        common.violation(ctx, "correspondence-broken", small,
                         dict(describe(small, a2, m2, s2), disagreements=len(corr_bad), original_case=c,
                              reason="implementation and Lean model disagree although the implementation still meets the spec on every explored input; the theorems no longer speak about this code"),
                         no_input=True)
    elif not built or ctx.broken:
        common.violation(ctx, "obligation-broken", None,
                         {"reason": "a proof obligation or the paging-facts expectation no longer checks; the search over the generated cases found no (unlisted) input on which the property fails",
                          "broken": list(ctx.broken),
                          "lean_errors": [l for l in getattr(ctx, "lean_log", "").splitlines() if "error" in l][:10]},
                         no_input=True)
    return common.finish(ctx, trusted_base=trusted)


# ----------------------------------------------------------------- case manipulation (shared format)

def split_rows(ds):
    return [] if ds in ("-", "0") else ds.split(";")


def join_rows(rows):
    return ";".join(rows) if rows else "0"


def row_variants(ds):
    """smaller datasets: one row removed; one field nulled"""
    rows = split_rows(ds)
    out = []
    for i in range(len(rows)):
        out.append(join_rows(rows[:i] + rows[i + 1:]))
    for i, r in enumerate(rows):
        f = r.split(",")
        for j in range(1, 7):
            if f[j] != "N":
                g = list(f)
                g[j] = "N"
                out.append(join_rows(rows[:i] + [",".join(g)] + rows[i + 1:]))
        if f[7] != "R":
            g = list(f)
            g[7] = "R"
            out.append(join_rows(rows[:i] + [",".join(g)] + rows[i + 1:]))
        if len(f) > 8 and f[8] != "C":
            g = list(f)
            g[8] = "C"
            out.append(join_rows(rows[:i] + [",".join(g)] + rows[i + 1:]))
        if len(f) > 9 and f[9] != "O":
            g = list(f)
            g[9] = "O"
            out.append(join_rows(rows[:i] + [",".join(g)] + rows[i + 1:]))
    return out


def prov_variants(tok):
    """smaller provider tokens: no provider; one value removed"""
    if tok == "-":
        return []
    out = ["-"]
    p = tok.split(".")
    if p[0] in ("all", "any") and len(p) > 1:
        for i in range(1, len(p)):
            out.append(".".join(p[:i] + p[i + 1:]))
    return out


def filter_variants(tok):
    """smaller filters: a sub-term of a nested filter (prefix notation over "~")"""
    toks = tok.split("~")
    if len(toks) == 1:
        return []
    out = []

    def parse(i):
        if toks[i] in ("and", "or"):
            j = parse(i + 1)
            k = parse(j)
            out.append("~".join(toks[i + 1:j]))
            out.append("~".join(toks[j:k]))
            return k
        if toks[i] == "not":
            j = parse(i + 1)
            out.append("~".join(toks[i + 1:j]))
            return j
        return i + 1
    try:
        parse(0)
    except IndexError:
        return []
    return [o for o in out if o]


def sort_variants(tok):
    if tok == "-":
        return []
    fs = tok.split(",")
    out = ["-"] if len(fs) == 1 else []
    for i in range(len(fs)):
        if len(fs) > 1:
            out.append(",".join(fs[:i] + fs[i + 1:]))
    return out


def num_variants(tok):
    out = []
    if tok not in ("-",):
        out.append("-")
    try:
        v = int(tok)
        for w in (0, 1, 2, -1, v // 2):
            if abs(w) < abs(v):
                out.append(str(w))
    except ValueError:
        pass
    return out


def sort_histogram(tok):
    if tok == "-":
        return "0 fields"
    fs = tok.split(",")
    return f"{len(fs)} field(s), first={'id' if fs[0][:-1] == 'id' else 'other'}"


def paging_class(tok, n):
    if tok in ("-", "none", "x", "big"):
        return {"-": "absent"}.get(tok, tok)
    v = int(tok)
    if v == -2 ** 63:
        return "min64"
    if v >= 2 ** 63 - 2:
        return "max64(-1)"
    if v < 0:
        return "negative"
    if v == 0:
        return "0"
    if v < n:
        return "inside"
    if v == n:
        return "n"
    return "beyond"
