"""C16 — system entities can only be changed from a system context."""
from . import c05_c16_flow as flow

MODULE = "StorageModel.Properties.C16"
THEOREMS = ["system_needs_system_ctx", "refused_tx_unchanged", "refused_aborts", "system_needs_system_ctx_tx",
            "system_ctx_allowed", "flag_immutable", "update_never_changes_flag", "setBaseValues_update_keeps",
            "ordinary_unaffected",
            "model_refines_spec"]


def _unhex(w):
    return "" if w == "-" else bytes.fromhex(w).decode("latin-1")


def normalise(impl):
    """what the spec speaks about: a failing call only *fails* (`!`), an uncommitted partial state is
    not described (`*`), and the storage form of the flag (last field of a view entry) is not part of
    the property (`_`)"""
    out = []
    for tx in impl.split(" "):
        p = tx.split("|")
        if len(p) != 3:
            return impl
        res = ["!" if r.startswith("!") else r for r in p[0].split(";")]
        ents = []
        for e in p[2].split(";"):
            if "=" in e and "/" in e:
                e = e.rsplit("/", 1)[0] + "/_"
            ents.append(e)
        out.append(";".join(res) + "|" + ("*" if p[1] else "") + "|" + ";".join(ents))
    return " ".join(out)


def nontrivial(case, impl):
    # non-trivial: the history contains a system entity at some point (committed or not) or a refusal
    if "/t/" in impl or "!sys" in impl:
        return case
    return None


def histogram(case, impl, h):
    f = case.split(" ")
    ntx = len(f) - 2
    h[f"transactions:{min(ntx, 9)}"] = h.get(f"transactions:{min(ntx, 9)}", 0) + 1
    for tx in f[2:]:
        head, _, body = tx.partition("!")
        h["tx-context:" + head[0]] = h.get("tx-context:" + head[0], 0) + 1
        h["tx-mode:" + ("abort" if head[1] == "a" else "keep-going")] = h.get("tx-mode:" + ("abort" if head[1] == "a" else "keep-going"), 0) + 1
        for op in body.split(";"):
            x = op.split(":")
            k = "op:" + x[0] + (":" + x[1] if x[0] in "cud" else "")
            h[k] = h.get(k, 0) + 1
            if x[0] == "u":
                h["update-checker:" + x[5]] = h.get("update-checker:" + x[5], 0) + 1
                k2 = "update-carries:IsSystem=" + x[3] + ",Migrate=" + x[6]
                h[k2] = h.get(k2, 0) + 1
            if x[0] == "c":
                k2 = "create-carries:IsSystem=" + x[3] + ",Migrate=" + x[5]
                h[k2] = h.get(k2, 0) + 1
    for tx in impl.split(" "):
        p = tx.split("|")
        for r in p[0].split(";"):
            if r.startswith("!"):
                k = "error:" + r[1:].split("(")[0]
                h[k] = h.get(k, 0) + 1
        if len(p) == 3 and p[1]:
            h["transactions-rolled-back"] = h.get("transactions-rolled-back", 0) + 1


def describe(case, impl, model, spec):
    f = case.split(" ")
    def rest(x):
        tag = "nil" if x[3] == "~" else repr(_unhex(x[3]))
        return f"Migrate={x[0]} CreatedAt={x[1]} UpdatedAt={x[2]} Tags[k]={tag}"

    def op(o):
        x = o.split(":")
        if x[0] == "c":
            return f"Create[{'system' if x[1] == 's' else 'ordinary'} ctx] id={_unhex(x[2])!r} IsSystem={x[3]} name={_unhex(x[4])!r} {rest(x[5:9])}"
        if x[0] == "u":
            return f"Update[{'system' if x[1] == 's' else 'ordinary'} ctx] id={_unhex(x[2])!r} IsSystem={x[3]} name={_unhex(x[4])!r} checker={x[5]} {rest(x[6:10])}"
        if x[0] == "d":
            return f"DeleteById[{'system' if x[1] == 's' else 'ordinary'} ctx] id={_unhex(x[2])!r}"
        return f"FindById id={_unhex(x[1])!r}"
    txs = []
    for tx in f[2:]:
        head, _, body = tx.partition("!")
        txs.append({"db.Update context": "system" if head[0] == "S" else "ordinary",
                    "on error": "abort" if head[1] == "a" else "ignore (except refused create) and commit",
                    "ops": [op(o) for o in body.split(";")]})
    return {"kind": "history", "pool": [_unhex(k) for k in f[1].split(",")], "transactions": txs,
            "impl": impl, "model": model, "spec": spec, "case": case}


MATCHERS = {}

RULE = ("each case is a history of Db.Update transactions over a real store of ext-entities with the system-entity "
        "constraint on a fresh bolt file; every Create/Update carries the WHOLE in-memory entity (IsSystem, Migrate, "
        "CreatedAt, UpdatedAt, Tags, name). (1) exhaustive two-step histories: create (ordinary|system ctx) x (IsSystem t|f) "
        "x (Migrate t|f), then delete / re-create / update (IsSystem t|f) x (Migrate t|f) x (checker nil, name, isSystem, "
        "all fields, empty) from either "
        "context, in the same or a later transaction, Db.Update handed an ordinary or a system context, body aborting "
        "at the first error or ignoring errors and committing, followed by a read-back transaction; (2) random histories "
        "(2-7 transactions of 1-4 operations over 2-4 ids) mixing both context kinds per operation and per transaction, "
        "IsSystem 1/2, Migrate 2/5, timestamps from {zero, 1000, 2000, 3000}, tags nil or a value, 11 checker shapes. "
        "After every operation the error kind, after a failing operation the uncommitted state, after every transaction "
        "FindById (IsSystemEntity, name, tag, createdAt, updatedAt as zero / given value / clock) and the raw isSystem key "
        "of every pool id are compared. non-trivial = the "
        "history holds a system entity at some point or contains a refusal; distinct = distinct case lines")


def candidates(case):
    # same shape as C05 histories except that there is one pool and a tx has a "<head>!" prefix
    f = case.split(" ")
    head, txs = f[:2], f[2:]
    out = []
    for i in range(len(txs)):
        if len(txs) > 1:
            out.append(" ".join(head + txs[:i] + txs[i + 1:]))
    for i, tx in enumerate(txs):
        h, _, body = tx.partition("!")
        ops = body.split(";")
        for j in range(len(ops)):
            if len(ops) > 1:
                out.append(" ".join(head + txs[:i] + [h + "!" + ";".join(ops[:j] + ops[j + 1:])] + txs[i + 1:]))
        if h[1] == "k":
            out.append(" ".join(head + txs[:i] + [h[0] + "a!" + body] + txs[i + 1:]))
    ids = head[1].split(",")
    for q in range(len(ids)):
        if len(ids) > 1:
            out.append(" ".join([head[0], ",".join(ids[:q] + ids[q + 1:])] + txs))
    return out


def run(ctx, replay_cases=None):
    ctx.assumptions += [
        "bbolt: Db.Update commits iff the body returns nil, otherwise nothing is written (exercised by the correspondence on every run)",
        "every typed setter of PersistContext/TypedBucket is a no-op once the bucket's error holder is set (ProceedWithSet; exercised by the keep-going histories: a refused update that is ignored and committed leaves the entity unchanged)",
        "the entity's PersistEntity uses BaseExtEntity.SetBaseValues (a store whose strategy writes isSystem itself is outside the model)",
        "a persisted timestamp is compared as: zero time / one of the values the generator hands out / anything else = the clock",
    ]
    return flow.flow(ctx, "c16", MODULE, THEOREMS, MATCHERS, normalise=normalise, nontrivial=nontrivial,
                     describe=describe, rule=RULE, histogram=histogram, candidates=candidates,
                     replay_cases=replay_cases, workers=4)
