"""C16 — system entities can only be changed from a system context."""
from . import c05_c16_flow as flow
from . import universe

MODULE = "StorageModel.Properties.C16"
THEOREMS = ["system_needs_system_ctx", "system_needs_system_ctx_parent_registration",
            "system_needs_system_ctx_child_registration", "system_needs_system_ctx_plain_shape",
            "plain_shape_no_child_data", "unchanged_update_refused", "unchanged_update_allowed",
            "every_setter_is_a_gated_write", "errored_bucket_never_written", "refused_update_any_strategy", "update_runs_strategy", "allowed_update_writes", "refused_tx_unchanged", "refused_aborts", "system_needs_system_ctx_tx",
            "ordinary_step_preserves_system", "ordinary_tx_preserves_system", "ordinary_history_preserves_system",
            "ordinary_history_preserves_system_parent_registration", "ordinary_history_preserves_system_child_registration",
            "step_reg", "cascade_never_deletes_system",
            "system_ctx_allowed", "flag_immutable", "flag_change_needs_system_child_create",
            "update_never_changes_flag", "setBaseValues_update_keeps", "createBaseValues_never_clears",
            "ordinary_unaffected",
            "model_refines_spec",
            "system_needs_system_ctx_unloadable", "system_ctx_unloadable", "rawName_repairs",
            "lordinary_step_preserves_system"]


def _unhex(w):
    return "" if w == "-" else bytes.fromhex(w).decode("latin-1")


def normalise(impl):
    """what the spec speaks about: a failing call only *fails* (`!`), an uncommitted partial state is
    not described (`*`), and neither the link set nor the storage form of the flag (last two fields of
    a view entry) is part of the property (`_`)"""
    out = []
    for tx in impl.split(" "):
        p = tx.split("|")
        if len(p) != 3:
            return impl
        res = ["!" if r.startswith("!") else r for r in p[0].split(";")]
        ents = []
        for e in p[2].split(";"):
            if "=" in e and "/" in e:
                e = e.rsplit("/", 2)[0] + "/_/_"
            ents.append(e)
        out.append(";".join(res) + "|" + ("*" if p[1] else "") + "|" + ";".join(ents))
    return " ".join(out)


def nontrivial(case, impl):
    # non-trivial: the history contains a system entity at some point (committed or not) or a refusal
    if "=t/t/" in impl or "!sys" in impl or "!via:sys" in impl or "loadErr" in impl:
        return case
    return None


_REG = {"H": "on-S", "HC": "on-child-store-only", "HB": "on-both", "HN": "nowhere", "HP": "on-S,plain-shape(no-child-store)"}
_CTX = {"o": "ordinary", "s": "system", "n": "nested-update-system", "m": "nested-update-own"}
_WITH_CTX = ("c", "u", "d", "C", "U", "D", "oc", "od", "w", "b")


def histogram(case, impl, h):
    def inc(k):
        h[k] = h.get(k, 0) + 1
    f = case.split(" ")
    ntx = len(f) - 2
    wide = len(f[0]) > 1 and f[0].endswith("W")
    base = f[0][:-1] if wide else f[0]
    inc("constraint-registered:" + _REG.get(base, base))
    inc("entity-strategy-setters:" + ("wide(every-setter)" if wide else "plain(SetString)"))
    inc(f"transactions:{min(ntx, 9)}")
    for tx in f[2:]:
        head, _, body = tx.partition("!")
        inc("tx-context:" + head[0])
        inc("tx-mode:" + ("abort" if head[1] == "a" else "keep-going"))
        for op in body.split(";"):
            x = op.split(":")
            inc("op:" + x[0] + (":" + x[1] if x[0] in _WITH_CTX else ""))
            if x[0] in ("u", "U"):
                inc("update-checker:" + x[5])
                inc("update-carries:IsSystem=" + x[3] + ",Migrate=" + x[6])
            if x[0] in ("c", "C"):
                inc("create-carries:IsSystem=" + x[3] + ",Migrate=" + x[5])
            if x[0] == "b":
                inc("write-back-checker:" + x[3])
            if x[0] == "z":
                inc("raw-name-write:" + x[2])
            if x[0] == "w":
                inc("delete-where:" + x[2] + (("=" + x[3]) if x[2] == "s" else ""))
    for tx in impl.split(" "):
        p = tx.split("|")
        for r in p[0].split(";"):
            if r.startswith("!"):
                inc("error:" + r[1:].split("(")[0])
        if len(p) == 3 and p[1]:
            inc("transactions-rolled-back")
        if len(p) == 3 and ("/!del/" in p[2] or "/!nil/" in p[2]):
            inc("transactions-ending-with-an-unloadable-entity:" + ("system" if ("=t/t/!del/" in p[2] or "=t/t/!nil/" in p[2]) else "ordinary"))


def describe(case, impl, model, spec):
    f = case.split(" ")

    def rest(x):
        tag = "nil" if x[3] == "~" else repr(_unhex(x[3]))
        out = f"Migrate={x[0]} CreatedAt={x[1]} UpdatedAt={x[2]} Tags[k]={tag}"
        if len(x) > 4:
            out += f" Owner={_unhex(x[4])!r}"
        if len(x) > 5:
            out += f" Level={_unhex(x[5])!r}"
        return out

    def ctx(k):
        return {"o": "ordinary ctx", "s": "system ctx", "n": "nested db.Update(ctx.GetSystemContext())",
                "m": "nested db.Update(ctx) after GetSystemContext() was derived"}.get(k, k)

    def op(o):
        x = o.split(":")
        k = x[0]
        if k in ("c", "C"):
            return f"{'Create' if k == 'c' else 'child-store Create'}[{ctx(x[1])}] id={_unhex(x[2])!r} IsSystem={x[3]} name={_unhex(x[4])!r} {rest(x[5:])}"
        if k in ("u", "U"):
            return f"{'Update' if k == 'u' else 'child-store Update'}[{ctx(x[1])}] id={_unhex(x[2])!r} IsSystem={x[3]} name={_unhex(x[4])!r} checker={x[5]} {rest(x[6:])}"
        if k == "b":
            return f"Update[{ctx(x[1])}] id={_unhex(x[2])!r} with the entity just loaded by FindById, unchanged; checker={x[3]}"
        if k in ("d", "D"):
            return f"{'DeleteById' if k == 'd' else 'child-store DeleteById'}[{ctx(x[1])}] id={_unhex(x[2])!r}"
        if k == "oc":
            return f"owners.Create[{ctx(x[1])}] id={_unhex(x[2])!r}"
        if k == "od":
            return f"owners.DeleteById[{ctx(x[1])}] id={_unhex(x[2])!r} (cascades to the referring entities)"
        if k == "w":
            q = {"T": "true", "n": "name = ", "o": "owner = ", "s": "isSystem = "}[x[2]]
            if x[2] in ("n", "o"):
                q += repr(_unhex(x[3]))
            elif x[2] == "s":
                q += {"t": "true", "f": "false"}[x[3]]
            return f"DeleteWhere[{ctx(x[1])}] {q}"
        if k == "z":
            what = {"del": "bucket.Delete(name)", "nil": "bucket.Put(name, TypeNil)"}.get(x[2]) or f"bucket.Put(name, string {_unhex(x[3])!r})"
            return (f"raw write on the entity bucket of id={_unhex(x[1])!r} (bare transaction): {what} — FillEntity reads the name "
                    "with GetStringOrError; a missing / nil name makes the entity unloadable")
        if k in ("l", "x"):
            return f"peers.{'AddLinks' if k == 'l' else 'RemoveLinks'}(tx, {_unhex(x[1])!r}, {_unhex(x[2])!r})"
        return f"FindById id={_unhex(x[1])!r}"
    txs = []
    for tx in f[2:]:
        head, _, body = tx.partition("!")
        txs.append({"db.Update context": "system" if head[0] == "S" else "ordinary",
                    "on error": "abort" if head[1] == "a" else "ignore (unless the failed call left partial writes) and commit",
                    "ops": [op(o) for o in body.split(";")]})
    pools = f[1].split("/")
    wide = len(f[0]) > 1 and f[0].endswith("W")
    base = f[0][:-1] if wide else f[0]
    return {"kind": "history", "system entity constraint registered": _REG.get(base, base),
            "entity strategy": ("WIDE: name / owner / level through GetAndSetString / SetStringP, a copy derived from the name "
                                "(level) through SetRequiredString, SetStringP, SetInt32, SetInt64, SetBool, SetTimeP, SetTime, "
                                "SetFloat64, SetStringList, GetAndSetStringList, SetMap, PutList (harness/c16_wide.go); a view "
                                "entry `<name>?<copy>` / level `?bad:<copy>` = that copy disagrees with the field")
            if wide else "plain: SetBaseValues, SetString(name), SetString(owner), child store SetString(level)",
            "pool": [_unhex(k) for k in pools[0].split(",")],
            "owner pool": [_unhex(k) for k in pools[1].split(",")] if len(pools) > 1 and pools[1] else [],
            "transactions": txs, "impl": impl, "model": model, "spec": spec, "case": case}


MATCHERS = {}

RULE = ("each case is a history of Db.Update transactions over real stores on a fresh bolt file: the constrained store S of "
        "ext-entities (system-entity constraint, fk `owner` with CascadeDelete to a second store O, link collection to O), "
        "a child store C of S; the constraint is registered on S (H), on C only (HC), on both (HB) or nowhere (HN), or on S in the "
        "PLAIN shape (HP: no child store exists, S has neither parent nor child store strategies), drawn per case; "
        "every Create/Update carries the WHOLE in-memory entity (IsSystem, Migrate, CreatedAt, "
        "UpdatedAt, Tags, name, owner). (1) exhaustive two-step histories on S: create (ordinary|system ctx) x (IsSystem t|f) "
        "x (Migrate t|f), then delete / re-create / update (IsSystem t|f) x (Migrate t|f) x (checker nil, name, isSystem, "
        "all fields, empty) from either context, in the same or a later transaction, Db.Update handed an ordinary or a "
        "system context, body aborting at the first error or ignoring errors and committing, followed by a read-back "
        "transaction; (2) exhaustive indirect paths: owner with two referrers (each system or not, either id order) deleted "
        "from every kind of context (own, GetSystemContext(), nested Db.Update with the system context, nested Db.Update "
        "with the own context after a system context was derived), DeleteWhere by 7 queries, child-store Create / Update / "
        "DeleteById over a system / ordinary / missing parent with or without child data, link / unlink and deleting the "
        "far end, each followed by direct attempts from an ordinary context and a read-back — all of (2) with the constraint on S, and "
        "thinned out (entities created through S or through C) with the constraint on C only and on both; (2b) updates that change nothing: the entity is loaded and written back unchanged with 5 checker shapes (nil, empty, "
        "unchanged fields, fields Update never writes) from 4 context kinds on a system / ordinary entity, same or later "
        "transaction, in the plain shape, with a child store, with the constraint on the child store; (2d) the WIDE entity strategies "
        "(kinds HPW, HW, HCW, HBW: name / owner / level persisted through GetAndSetString / SetStringP and, under the same checker "
        "bit, a copy derived from the name (level) through SetRequiredString, SetStringP (nil for empty), SetInt32, SetInt64, SetBool, "
        "SetTimeP, SetTime, SetFloat64, SetStringList, GetAndSetStringList, SetMap, PutList; every copy is read back and a "
        "disagreeing one shows in the view): a system / ordinary entity created through S or C, then one update (full, 8 checker "
        "shapes, empty name, changed owner, write-back, through S or C) from 4 context kinds, same / later transaction, abort / "
        "keep-going, read-back and ordinary probe; the two-step family (1), the indirect family (2) and the no-change family (2b) "
        "again with wide strategies; a quarter of the random histories use them; (3) random histories (2-7 "
        "transactions of 1-4 operations over 2-4 ids and 1-3 owners) mixing all operations and context kinds, IsSystem 1/2, "
        "Migrate 2/5, timestamps from {zero, 1000, 2000, 3000}, tags nil or a value, 16 checker shapes. After every "
        "operation the error kind, after a failing operation the uncommitted state, after every transaction FindById "
        "(IsSystemEntity, name, tag, createdAt, updatedAt as zero / given value / clock, owner), the child store's view, "
        "the link set, the raw isSystem key of every pool id and the presence of every owner are compared. non-trivial = "
        "the history holds a system entity at some point or contains a refusal; distinct = distinct case lines")


def candidates(case):
    # same shape as C05 histories except that there is one pool and a tx has a "<head>!" prefix
    f = case.split(" ")
    head, txs = f[:2], f[2:]
    out = []
    for i in range(len(txs)):
        if len(txs) > 1:
            out.append(" ".join(head + txs[:i] + txs[i + 1:]))
    for i, tx in enumerate(txs):
        h, _, body = tx.partition("!")
        ops = body.split(";")
        for j in range(len(ops)):
            if len(ops) > 1:
                out.append(" ".join(head + txs[:i] + [h + "!" + ";".join(ops[:j] + ops[j + 1:])] + txs[i + 1:]))
        if h[1] == "k":
            out.append(" ".join(head + txs[:i] + [h[0] + "a!" + body] + txs[i + 1:]))
    pools = head[1].split("/")
    ids = pools[0].split(",")
    oids = pools[1].split(",") if len(pools) > 1 and pools[1] else []
    def mk(a, b):
        return ",".join(a) + (("/" + ",".join(b)) if len(pools) > 1 else "")
    # a pool id is only dropped when no operation mentions it any more (the harness reports entities
    # outside the pools as EXTRA, which must not become the "failure" a shrunk case shows)
    used = set()
    for tx in txs:
        for o in tx.partition("!")[2].split(";"):
            used.update(o.split(":")[1:])
    for q in range(len(ids)):
        if len(ids) > 1 and ids[q] not in used:
            out.append(" ".join([head[0], mk(ids[:q] + ids[q + 1:], oids)] + txs))
    for q in range(len(oids)):
        if oids[q] not in used:
            out.append(" ".join([head[0], mk(ids, oids[:q] + oids[q + 1:])] + txs))
    return out


def run(ctx, replay_cases=None):
    ctx.assumptions += [
        "bbolt: Db.Update commits iff the body returns nil, otherwise nothing is written (exercised by the correspondence on every run)",
        "each setter of PersistContext/TypedBucket has the shape `if ProceedWithSet(field) { write }` (SetRequiredString: `… { if blank { SetError } else write }`): the model's Write.run; Update is modelled on the bucket with its error holder (Bkt, runWrites, updateWith) and refused_update_any_strategy holds for every list of such calls. Tie (a) by extraction: /verif/extract/c16setters.go classifies the source of every setter of *TypedBucket (taking a FieldChecker) and *PersistContext and of both ProceedWithSet functions (Generated/C16Setters.lean; obligation every_setter_is_a_gated_write), (b) by execution: the WIDE strategies (case kinds ending in W) put SetRequiredString, SetStringP, GetAndSetString, SetInt32, SetInt64, SetBool, SetTimeP, SetTime, SetFloat64, SetStringList, GetAndSetStringList, SetMap/PutMap, PutList on the path of every update and read every written copy back; SetLinkedIds and the untyped setTyped/SetNil/PutValue helpers are not called by any strategy of the harness",
        "the entity's PersistEntity uses BaseExtEntity.SetBaseValues (a store whose strategy writes isSystem itself is outside the model)",
        "the universe of the model: one constrained store with one nullable cascade-delete fk and one link collection to a second store, one plain child store, the system constraint registered after the fk constraint on the parent store, after the level symbol on the child store (registration on S / C / both / nowhere is a parameter) (other schemas: more fks, restrict instead of cascade, extended child stores, constraint orders are outside the model)",
        "link collections are outside the property: they take a bare *bbolt.Tx, no MutateContext, so the constraint cannot apply (the model records what they do; the theorems state everything but the link set of a system entity is untouched by ordinary contexts)",
        "a persisted timestamp is compared as: zero time / one of the values the generator hands out / anything else = the clock",
    ]
    return flow.flow(ctx, "c16", MODULE, THEOREMS, MATCHERS, normalise=normalise, nontrivial=nontrivial,
                     describe=describe, rule=RULE, histogram=histogram, candidates=candidates,
                     replay_cases=replay_cases, workers=4,
                     post_cases=lambda c: universe.universe_stream(c, ["C16"]))
