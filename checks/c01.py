"""C01 — filter evaluation returns exactly the entities satisfying the predicate.

Three output streams per case line (see lean/StorageModel/Driver/C01.lean, harness/c01*.go):

  implementation / model:   ok <typed-tree shape> <answer> [<answer without the seek shortcut>]   | err | panic "..."
  spec:                     wt <answer> [H:<hypothesis of the refinement theorem that fails on this case>...]  | ill

`ill` = the filter is not well-typed: the property does not speak about it, only the correspondence
(implementation = model, including the accept/reject decision) is checked.
"""
import os
import re

from . import common

NESTED = re.compile(r"\b(tags|meta|m|attrs|xattrs|inner|in|ktags)\.[A-Za-z_\-]+\.[A-Za-z_\-]+")

MODULE = "StorageModel.Properties.C01"
THEOREMS = [
    "transform_total", "eval_refines_sat", "seek_eq_scan", "query_shortcut_free", "subquery_count_exact",
    "null_rules", "engine_null_rules", "null_literal_rule", "not_forms_negate",
    "stacked_eq_flatMap", "resolve_refines_path", "world_refines_spec", "query_exact", "symbol_tables_exact",
    "map_element_names_node", "map_element_reads_node", "child_store_rows",
    "subquery_sort_irrelevant", "sort_is_permutation", "sort_order_irrelevant",
    "query_exact_partial", "query_exact_full_fails",
    "seek_sound", "seek_eq_scan_typed", "seekable_needs_string_symbol",
    "cursor_state_per_scan", "cursor_state_allocating", "code_policy_fresh", "skeleton_is_evalBool",
    "self_subquery_exact", "shared_cache_differs",
]


def _unhex(w):
    return b"" if w == "-" else bytes.fromhex(w)


def zql_of(case):
    f = case.split(" ")
    try:
        return _unhex(f[len(f) - 1 - f[::-1].index("@") + 1]).decode("utf-8", "replace")
    except (ValueError, IndexError):
        return "?"


def parse_out(line):
    """-> (status, shape, answers tuple)"""
    if line is None:
        return ("missing", "", ())
    f = line.split(" ")
    if f[0] == "ok":
        return ("ok", f[1] if len(f) > 1 else "", tuple(f[2:]))
    return (f[0], "", ())


def parse_spec(line):
    f = (line or "").split(" ")
    if f[0] == "wt":
        return ("wt", f[1] if len(f) > 1 else "", [x[2:] for x in f[2:] if x.startswith("H:")])
    return (f[0], "", [])


def describe(case, impl, model, spec):
    kind = {"m": "ast.Parse + Query.EvalBool over an in-memory ast.Symbols (per row, with and without seekable cursors)",
            "b": "Store.QueryIds / IterateIds over a bbolt store"}.get(case[:1], "?")
    return {"kind": kind, "filter": zql_of(case), "impl": impl, "model": model, "spec": spec,
            "case": case if len(case) < 6000 else case[:6000] + "...(truncated; full line in the replay file's case field)"}


def prop_ok(a, s):
    """does implementation output `a` meet the spec verdict `s` (for a well-typed case)?"""
    st, _shape, answers = parse_out(a)
    sst, sbits, _ = parse_spec(s)
    if sst != "wt":
        return True
    return st == "ok" and len(answers) >= 1 and all(x == sbits for x in answers)


def shrink_m(ctx, case):
    """an m case with a failing property: keep one row on which it still fails (the dataset of an m
    case is a list of independent rows)"""
    f = case.split(" ")
    try:
        nsym = int(f[1])
        syms = [f[2 + 4 * i + 2] == "1" for i in range(nsym)]
        p = 2 + 4 * nsym
        nrows = int(f[p])
        head, p = f[:p], p + 1
        rows = []
        for _ in range(nrows):
            start = p
            for isset in syms:
                p += 1 + (int(f[p][1:]) if isset else 0)
            rows.append(f[start:p])
        rest = f[p:]
    except (ValueError, IndexError):
        return None
    if nrows <= 1:
        return None
    cands = [" ".join(head + ["1"] + r + rest) for r in rows]
    impl, model, spec = common.run_cases(ctx, "c01", "\n".join(cands) + "\n")
    for i, c in enumerate(cands):
        if i < len(impl) and i < len(spec) and not prop_ok(impl[i], spec[i]):
            return c, impl[i], model[i], spec[i]
    return None


def _has_flag(flag):
    def m(case, info):
        # a hypothesis of the refinement theorem fails on this case (reported by the spec driver)
        # and the implementation does exactly what the model of the current code predicts
        return flag in parse_spec(info["spec"])[2] and info["impl"] == info["model"]
    return m


# open finding: an external symbol behind a null link (the proviso `extNamesOK` of query_exact_partial fails on
# the case, as reported by the spec driver, and implementation = model)
MATCHERS = {
    "ext-behind-null-link": _has_flag("extlink"),
}

RULE = ("non-trivial = well-typed filter accepted by ast.Parse whose answer separates the rows of its dataset (at least "
        "one row matches and one does not); distinct = distinct typed-tree shapes (node classes + symbol names + typed sort "
        "fields) among those. m cases: 18-symbol in-memory symbol table (string/int/float/bool/datetime/any scalars, 9 set "
        "symbols; seekable cursors over a string set, an any-typed and an int set holding values of several types), 6 rows "
        "per dataset drawn from boundary pools with 25% null and 4% values of another stored type; b cases: four bbolt "
        "stores - two linked root stores, a plain child store of the first (own symbols registered before and after "
        "GrantSymbols) and an extended child store of the second - with string/int32/int64/float/bool/time/nullable fields, "
        "string / int / any-typed sets, fk fields and link sets (also into the child stores), tag maps with nested maps, "
        "lists, missing levels and multi-bucket prefixes, external symbols (NewBoolFuncSymbol, NewStringFuncSymbol, a custom "
        "EntitySymbol) and mapped symbols (MapSymbol with NotNilStringMapper and two custom mappers), dotted symbols up to "
        "3 (one case in six: 4) segments, sub-queries with sort by / skip / limit, 0-6 + 0-4 entities, 25% null fields, 5% "
        "dangling references, half of the parent entities with child data; queries through every store; filters "
        "type-directed (1 in 6 atoms / sort fields ignores the typing rules), nesting depth <= 3 (quick) / 5 (thorough), one "
        "third single atoms, mixed and/or always parenthesised; plus the enumerated operator x left-type x literal-type x "
        "left-operand-shape product of single atoms, one atom per reachable symbol of every store, a stream that "
        "compares seekable sets with the rendering of one of their elements, and a stream over the self-referential link "
        "sets (things.peers -> things, owners.subs -> owners, kidthings.pals -> kidthings; data: the boss tree of depth 2, "
        "random forests with back edges and self-membership, chains closed to a cycle) whose filters use the set symbol a "
        "sub-query iterates again inside its predicate (isEmpty / count / anyOf / allOf, dotted s.s, s.s.s and s.s.field), "
        "nested two deep, twice at one level in both orders, over s.s, and through a pair of link sets that leads back to "
        "the scanned type")


def run(ctx, replay_cases=None):
    ctx.assumptions += [
        "stored (FieldType, payload) pairs are well-formed encodings (the decoded view SVal of the model); the codec itself is property C13",
        "strings.Contains / strings.ToUpper (on ASCII letters; the generator keeps lower-case non-ASCII letters out of case-insensitive operands) / strconv.FormatInt behave as isInfix / toUpper / fmtInt in Filter/Basic.lean (exercised by the correspondence)",
        "strconv.FormatFloat(x,'f',-1,64) is data supplied per case by the harness (FloatOps.fmt); float comparisons are Lean's IEEE Float in the driver, any FloatOps instance in the theorems",
        "a bbolt bucket iterates its keys in bytes.Compare order and Seek positions at the first key >= the argument (SortedStrs / SeekOK hypotheses; exercised by the b cases)",
        "the ANTLR parser hands the listener the tree the generator prints (mixed and/or always parenthesised; grouping of unparenthesised connectives is C12, syntax errors C10)",
        "a child store's data bucket does not overlap a map symbol's bucket path of its parent; MapSymbol wraps non-set symbols; child stores are one level deep (the model abstracts the nesting of child data into per-store rows: ChildRowsNested)",
        "predicate-less sub-queries (`from s where limit 2`), which the grammar admits and the listener rejects, are outside the model (parser/listener: C10/C12)",
        "the row-cursor allocation of the cursor machine (Filter/CursorsAlloc.lean) is the one extract/c01cursors.go reads off five syntactic shapes of boltz/query_cursor.go, query_scanners.go, store_query.go (Generated/C01Cursors.lean; `code_policy_fresh` fails to check when a shape changes); the machine covers the scan skeleton `skOf` of a typed filter (set functions in non-comparison operand positions stay atoms), and identifies a runtime set-symbol object with (row cursor, symbol name)",
    ]
    with common.Lock():
        common.build_tools(ctx)
        built = common.prove(ctx, MODULE, THEOREMS)
    trusted = common.BASE_TRUST + ["bbolt (ordered buckets, cursor semantics), Go strings/strconv/time, the ANTLR runtime and generated parser"]
    if not (ctx.harness_ok and ctx.driver_ok):
        ctx.obligation("harness and model driver build against /repo", False,
                       (ctx.harness_log if not ctx.harness_ok else ctx.driver_log)[-400:])
        common.violation(ctx, "tie-broken", None,
                         {"reason": "harness or Lean driver does not build against the current tree",
                          "log": (ctx.harness_log if not ctx.harness_ok else ctx.driver_log)[-2000:]}, no_input=True)
        return common.finish(ctx, trusted_base=trusted)
    # The cases are generated into a file and run chunk by chunk: only counters, a few samples and the
    # failing cases are kept (the case lines are long; holding a whole thorough run took > 2 GB).
    import subprocess, tempfile
    CHUNK = 3000

    def chunks():
        if replay_cases is not None:
            yield list(replay_cases)
            return
        first = common.corpus_cases("c01")
        with tempfile.TemporaryFile(mode="w+", dir=common.BUILD) as tmp:
            rc = subprocess.run([common.HARNESS, "c01", "gen", "-tier", ctx.tier, "-seed", str(ctx.seed)], stdout=tmp,
                                stderr=subprocess.PIPE).returncode
            if rc != 0:
                raise SystemExit("harness gen failed")
            tmp.seek(0)
            buf = first
            for l in tmp:
                l = l.rstrip("\n")
                if l:
                    buf.append(l)
                if len(buf) >= CHUNK:
                    yield buf
                    buf = []
            if buf:
                yield buf

    spec_bad, corr_bad, keys = [], [], set()
    hist = {"cases:m": 0, "cases:b": 0, "well-typed": 0, "ill-typed (correspondence only)": 0, "rejected by ast.Parse": 0,
            "uses seek shortcut candidate (BinStr!)": 0, "sub-query": 0, "dotted symbol": 0, "nested map element": 0,
            "queried through a child store": 0}
    evaluations = 0
    n = 0
    samples = []
    for lines in chunks():
        impl, model, spec = common.run_cases(ctx, "c01", "\n".join(lines) + "\n")
        k = len(lines)
        if len(impl) != k or len(model) != k or len(spec) != k:
            ctx.obligation("output streams aligned", False, f"cases {k} impl {len(impl)} model {len(model)} spec {len(spec)}")
            common.violation(ctx, "tie-broken", None, {"reason": "output streams not aligned (crash?)", "cases": k,
                                                       "impl": len(impl), "model": len(model), "spec": len(spec),
                                                       "impl_tail": impl[-3:], "model_tail": model[-3:]}, no_input=True)
            return common.finish(ctx, trusted_base=trusted)
        if len(samples) < 4:
            samples.append(describe(lines[k // 2], impl[k // 2], model[k // 2], spec[k // 2]))
        for i in range(k):
            c, a, m, s = lines[i], impl[i], model[i], spec[i]
            hist["cases:" + c[:1]] = hist.get("cases:" + c[:1], 0) + 1
            st, shape, answers = parse_out(a)
            sst, sbits, _flags = parse_spec(s)
            if st == "ok":
                if c[:1] == "m":
                    evaluations += len(answers[0]) if answers else 0
                else:
                    evaluations += next((int(x[2:]) for x in (s or "").split(" ") if x.startswith("n=")), 1)
                if "BinStr!" in shape:
                    hist["uses seek shortcut candidate (BinStr!)"] += 1
            else:
                hist["rejected by ast.Parse"] += 1
            if " sub " in c:
                hist["sub-query"] += 1
            if c[:1] == "b":
                z = zql_of(c).replace(".0", "").replace(".5", "")
                if "." in z:
                    hist["dotted symbol"] += 1
                if NESTED.search(z):
                    hist["nested map element"] += 1
                if "R:child" in (s or ""):
                    hist["queried through a child store"] += 1
            if sst == "wt":
                hist["well-typed"] += 1
                ok_ = prop_ok(a, s)
                if st == "ok" and ok_:
                    b = answers[0]
                    if c[:1] == "m":
                        if "0" in b and "1" in b:
                            keys.add(shape)
                    else:
                        nrows = next((int(x[2:]) for x in (s or "").split(" ") if x.startswith("n=")), 0)
                        nids = 0 if b in ("", "-") else b.count(",") + 1
                        if 0 < nids < nrows:
                            keys.add(shape)
                if not ok_:
                    spec_bad.append((c, a, m, s))
                    continue
            else:
                hist["ill-typed (correspondence only)"] += 1
            if a != m:
                corr_bad.append((c, a, m, s))
        n += k
        if len(spec_bad) + len(corr_bad) > 2000:
            ctx.notes.append(f"stopped after {n} cases: more than 2000 failing cases collected")
            break
    ctx.coverage.update({
        "evaluations": evaluations,
        "cases": n,
        "distinct_nontrivial": len(keys),
        "rule": RULE,
        "samples": samples,
        "input_histogram": hist,
        "impl_vs_spec_disagreements": len(spec_bad),
        "impl_vs_model_disagreements": len(corr_bad) + len([b for b in spec_bad if b[1] != b[2]]),
    })
    ctx.obligation("correspondence: implementation output = model output on every generated case (accept/reject, typed-tree shape, answers with and without the seek shortcut)",
                   not corr_bad and not [b for b in spec_bad if b[1] != b[2]],
                   f"{len(corr_bad) + len([b for b in spec_bad if b[1] != b[2]])} disagreement(s)")
    unknown = []
    for b in spec_bad:
        if common.classify(ctx, MATCHERS, b[0], {"impl": b[1], "model": b[2], "spec": b[3]}) is None:
            unknown.append(b)
    key = lambda u: (len(zql_of(u[0])), len(u[0]), u[0])
    if unknown:
        c, a, m, s = min(unknown, key=key)
        if c.startswith("m "):
            small = shrink_m(ctx, c)
            if small is not None:
                c, a, m, s = small
        common.violation(ctx, "property-fails-on-input", c,
                         dict(describe(c, a, m, s), unlisted_failing_cases=len(unknown),
                              more=[zql_of(u[0]) for u in sorted(unknown, key=key)[1:8]]))
    elif corr_bad:
        c, a, m, s = min(corr_bad, key=key)
        common.violation(ctx, "correspondence-broken", c,
                         dict(describe(c, a, m, s), disagreements=len(corr_bad),
                              reason="implementation and Lean model disagree although the implementation still meets the spec on every explored well-typed input; the theorems no longer speak about this code"),
                         no_input=True)
    elif not built or ctx.broken:
        common.violation(ctx, "obligation-broken", None,
                         {"reason": "a proof obligation no longer checks; the search over the generated cases found no (unlisted) input on which the property fails",
                          "lean_errors": [l for l in getattr(ctx, "lean_log", "").splitlines() if "error" in l][:10]},
                         no_input=True)
    return common.finish(ctx, trusted_base=trusted)
