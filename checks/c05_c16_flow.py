"""Decision procedure shared by the two history-based checks C05 and C16 (same observable contract
as common.standard_flow, composed from its pieces):

  * the implementation is run in several harness processes in parallel (each case = a whole
    history over a fresh bolt database, ~2 ms of real commits),
  * the spec line is compared with a *normalised* implementation line (the spec has no opinion on
    the return values of failing calls nor on uncommitted partial states),
  * a failing history is shrunk (delta debugging over transactions, operations, key lists, pools)
    before it is written to the replay file.
"""
import os
import subprocess
from concurrent.futures import ThreadPoolExecutor

from . import common


def _run(cmd, data, env=None):
    p = subprocess.run(cmd, input=data, stdout=subprocess.PIPE, stderr=subprocess.STDOUT, env=env)
    out = p.stdout.decode("utf-8", "replace").split("\n")
    if out and out[-1] == "":
        out.pop()
    return p.returncode, out


def run_parallel(ctx, prop_lc, lines, workers, want_spec=True):
    """-> (impl, model, spec) aligned with lines; a crashed chunk yields short output (detected by the caller)"""
    n = len(lines)
    if n == 0:
        return [], [], []
    workers = max(1, min(workers, (n + 199) // 200))
    size = (n + workers - 1) // workers
    chunks = [lines[i:i + size] for i in range(0, n, size)]
    env = dict(os.environ, GOMEMLIMIT="4GiB", GOMAXPROCS="2")

    def impl_chunk(ch):
        rc, out = _run([common.HARNESS, prop_lc, "exec"], ("\n".join(ch) + "\n").encode(), env)
        if rc != 0 or len(out) != len(ch):
            ctx.log(f"harness exec exited {rc} with {len(out)} lines for {len(ch)} cases: {out[-1][-300:] if out else ''}")
            out = (out + ["<harness-crashed>"] * len(ch))[:len(ch)]
        return out

    data = ("\n".join(lines) + "\n").encode()
    with ThreadPoolExecutor(max_workers=workers + 2) as ex:
        futs = [ex.submit(impl_chunk, ch) for ch in chunks]
        fm = ex.submit(_run, [common.DRIVER], data)
        fs = ex.submit(_run, [common.DRIVER, "spec"], data) if want_spec else None
        impl = [l for f in futs for l in f.result()]
        model = fm.result()[1]
        spec = fs.result()[1] if fs else [None] * n
    return impl, model, spec


def flow(ctx, prop_lc, module, theorems, matchers, *, normalise, nontrivial, describe, rule, histogram,
         candidates, replay_cases=None, trusted=None, workers=4, extra_coverage=None, post_cases=None):
    """normalise(impl_line) -> the part of an implementation line the spec speaks about;
    a spec line equal to "outside-vocabulary" means: compared with the model only.
    candidates(case) -> smaller variants of a case, for shrinking."""
    with common.Lock():
        common.build_tools(ctx)
        built = common.prove(ctx, module, theorems, ())
    trusted = trusted or common.BASE_TRUST
    if not (ctx.harness_ok and ctx.driver_ok):
        ctx.obligation("harness and model driver build against /repo", False,
                       (ctx.harness_log if not ctx.harness_ok else ctx.driver_log)[-400:])
        common.violation(ctx, "tie-broken", None,
                         {"reason": "harness or Lean driver does not build against the current tree",
                          "log": (ctx.harness_log if not ctx.harness_ok else ctx.driver_log)[-2000:]}, no_input=True)
        return common.finish(ctx, trusted_base=trusted)
    if replay_cases is not None:
        lines = list(replay_cases)
    else:
        lines = common.corpus_cases(prop_lc) + [l for l in common.gen_cases(ctx, prop_lc).split("\n") if l]
    impl, model, spec = run_parallel(ctx, prop_lc, lines, workers)
    n = len(lines)
    if len(impl) != n or len(model) != n or len(spec) != n:
        ctx.obligation("output streams aligned", False, f"cases {n} impl {len(impl)} model {len(model)} spec {len(spec)}")
        common.violation(ctx, "tie-broken", None, {"reason": "output streams not aligned (crash?)", "cases": n,
                                                   "impl": len(impl), "model": len(model), "spec": len(spec),
                                                   "model_tail": model[-2:]}, no_input=True)
        return common.finish(ctx, trusted_base=trusted)

    def verdict(a, m, s):
        """'spec' | 'model' | None"""
        if s != "outside-vocabulary" and normalise(a) != s:
            return "spec"
        if a != m:
            return "model"
        return None

    spec_bad, corr_bad, keys, hist = [], [], set(), {}
    outside = 0
    for i in range(n):
        c, a, m, s = lines[i], impl[i], model[i], spec[i]
        k = nontrivial(c, a)
        if k is not None:
            keys.add(k)
        histogram(c, a, hist)
        if s == "outside-vocabulary":
            outside += 1
        v = verdict(a, m, s)
        if v == "spec":
            spec_bad.append((c, a, m, s))
        elif v == "model":
            corr_bad.append((c, a, m, s))
    ctx.coverage.update({
        "evaluations": n,
        "distinct_nontrivial": len(keys),
        "rule": rule,
        "samples": [describe(lines[i], impl[i], model[i], spec[i]) for i in sorted(set([0, n // 3, (2 * n) // 3, n - 1])) if 0 <= i < n],
        "impl_vs_spec_disagreements": len(spec_bad),
        "impl_vs_model_disagreements": len(corr_bad) + len([b for b in spec_bad if b[1] != b[2]]),
        "cases_outside_vocabulary_compared_with_model_only": outside,
        "input_distribution": dict(sorted(hist.items())),
    })
    if extra_coverage:
        ctx.coverage.update(extra_coverage)
    if post_cases is not None:
        post_cases(ctx)  # end of the generated-cases phase: further streams of cases (checks/universe.py)
    ncorr = len(corr_bad) + len([b for b in spec_bad if b[1] != b[2]])
    ctx.obligation("correspondence: implementation output = model output on every generated history", ncorr == 0,
                   f"{ncorr} disagreement(s)")

    def shrink(case, kind):
        """greedy delta debugging: keep a smaller case while it still fails the same way"""
        cur = case
        budget = 40
        while budget > 0:
            budget -= 1
            cands = [c for c in candidates(cur) if c != cur]
            if not cands:
                break
            cands = cands[:400]
            ia, im, isp = run_parallel(ctx, prop_lc, cands, workers)
            if not (len(ia) == len(im) == len(isp) == len(cands)):
                break
            nxt = None
            for c, a, m, s in sorted(zip(cands, ia, im, isp), key=lambda t: len(t[0])):
                if verdict(a, m, s) == kind:
                    nxt = c
                    break
            if nxt is None:
                break
            cur = nxt
        a, m, s = run_parallel(ctx, prop_lc, [cur], 1)
        return cur, a[0], m[0], s[0]

    unknown = []
    for b in spec_bad:
        if common.classify(ctx, matchers, b[0], {"impl": b[1], "model": b[2], "spec": b[3]}) is None:
            unknown.append(b)
    if unknown:
        c0 = common.shortest(unknown)[0]
        c, a, m, s = shrink(c0, "spec") if not ctx.replay_mode else common.shortest(unknown)
        known = common.classify(ctx, matchers, c, {"impl": a, "model": m, "spec": s})
        if known is None:
            common.violation(ctx, "property-fails-on-input", c,
                             dict(describe(c, a, m, s), impl_normalised=normalise(a), unshrunk=c0,
                                  unlisted_failing_cases=len(unknown),
                                  more=[u[0] for u in sorted(unknown, key=lambda u: len(u[0]))[1:4]]))
    elif corr_bad:
        c0 = common.shortest(corr_bad)[0]
        c, a, m, s = shrink(c0, "model") if not ctx.replay_mode else common.shortest(corr_bad)
        common.violation(ctx, "correspondence-broken", c,
                         dict(describe(c, a, m, s), unshrunk=c0, disagreements=len(corr_bad),
                              reason="implementation and Lean model disagree although the implementation still meets the spec on every explored history; the theorems no longer speak about this code"),
                         no_input=True)
    elif not built or ctx.broken:
        common.violation(ctx, "obligation-broken", None,
                         {"reason": "a proof obligation no longer checks; the search over the generated histories found no (unlisted) input on which the property fails",
                          "lean_errors": [l for l in getattr(ctx, "lean_log", "").splitlines() if "error" in l][:10]},
                         no_input=True)
    return common.finish(ctx, trusted_base=trusted)


# ------------------------------------------------------------------ helpers for history cases
# case line:  KIND poolA poolB tx tx ...   tx = ops joined by ';'   op = fields joined by ':'

def history_candidates(case, list_fields, head_len=3):
    """smaller variants: drop a transaction, drop an operation, drop one key of a key list,
    drop a pool id.  list_fields(opcode) -> indices of the ':'-fields that are ','-lists."""
    f = case.split(" ")
    head, txs = f[:head_len], f[head_len:]
    out = []
    for i in range(len(txs)):
        if len(txs) > 1:
            out.append(" ".join(head + txs[:i] + txs[i + 1:]))
    for i, tx in enumerate(txs):
        ops = tx.split(";")
        for j in range(len(ops)):
            if len(ops) > 1:
                out.append(" ".join(head + txs[:i] + [";".join(ops[:j] + ops[j + 1:])] + txs[i + 1:]))
        for j, op in enumerate(ops):
            flds = op.split(":")
            for li in list_fields(flds[0]):
                if li < len(flds) and flds[li]:
                    ks = flds[li].split(",")
                    for q in range(len(ks)):
                        nf = flds[:li] + [",".join(ks[:q] + ks[q + 1:])] + flds[li + 1:]
                        out.append(" ".join(head + txs[:i] + [";".join(ops[:j] + [":".join(nf)] + ops[j + 1:])] + txs[i + 1:]))
    for pi in range(1, head_len):
        ids = head[pi].split(",") if head[pi] else []
        for q in range(len(ids)):
            if len(ids) > 1:
                nh = list(head)
                nh[pi] = ",".join(ids[:q] + ids[q + 1:])
                out.append(" ".join(nh + txs))
    return out
