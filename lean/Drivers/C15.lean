import StorageModel.Driver.C15
def main (args : List String) : IO UInt32 := do
  StorageModel.Driver.C15.run (args == ["spec"])
  return 0
