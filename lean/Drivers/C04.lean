import StorageModel.Driver.C04
def main (args : List String) : IO UInt32 := do
  StorageModel.Driver.C04.run (args == ["spec"])
  return 0
