import StorageModel.Driver.C06
def main (args : List String) : IO UInt32 := do
  StorageModel.Driver.C06.run (args == ["spec"])
  return 0
