import StorageModel.Driver.C19
def main (args : List String) : IO UInt32 := do
  StorageModel.Driver.C19.run (args == ["spec"])
  return 0
