import StorageModel.Driver.C18
def main (args : List String) : IO UInt32 := do
  StorageModel.Driver.C18.run (args == ["spec"])
  return 0
