import StorageModel.Driver.Universe
def main (_args : List String) : IO UInt32 := do
  StorageModel.Driver.Universe.run
  return 0
