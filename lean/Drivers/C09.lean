import StorageModel.Driver.C09
def main (args : List String) : IO UInt32 := do
  StorageModel.Driver.C09.run (args == ["spec"])
  return 0
