import StorageModel.Driver.C14
def main (args : List String) : IO UInt32 := do
  StorageModel.Driver.C14.run (args == ["spec"])
  return 0
