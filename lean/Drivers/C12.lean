import StorageModel.Driver.C12
def main (args : List String) : IO UInt32 := do
  StorageModel.Driver.C12.run (args == ["spec"])
  return 0
