import StorageModel.Driver.C20
def main (args : List String) : IO UInt32 := do
  StorageModel.Driver.C20.run (args == ["spec"])
  return 0
