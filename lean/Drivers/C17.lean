import StorageModel.Driver.C17
def main (args : List String) : IO UInt32 := do
  StorageModel.Driver.C17.run (args == ["spec"])
  return 0
