import StorageModel.Driver.C16
def main (args : List String) : IO UInt32 := do
  StorageModel.Driver.C16.run (args == ["spec"])
  return 0
