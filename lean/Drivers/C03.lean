import StorageModel.Driver.C03
def main (args : List String) : IO UInt32 := do
  StorageModel.Driver.C03.run (args == ["spec"])
  return 0
