import StorageModel.Driver.C01
def main (args : List String) : IO UInt32 := do
  StorageModel.Driver.C01.run (args == ["spec"])
  return 0
