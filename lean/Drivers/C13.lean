import StorageModel.Driver.C13
def main (args : List String) : IO UInt32 := do
  StorageModel.Driver.C13.run (args == ["spec"])
  return 0
