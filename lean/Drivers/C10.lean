import StorageModel.Driver.C10
def main (args : List String) : IO UInt32 := do
  StorageModel.Driver.C10.run (args == ["spec"])
  return 0
