import StorageModel.Driver.C08
def main (args : List String) : IO UInt32 := do
  StorageModel.Driver.C08.run (args == ["spec"])
  return 0
