import StorageModel.Driver.C02
def main (args : List String) : IO UInt32 := do
  StorageModel.Driver.C02.run (args == ["spec"])
  return 0
