import StorageModel.Driver.C05
def main (args : List String) : IO UInt32 := do
  StorageModel.Driver.C05.run (args == ["spec"])
  return 0
