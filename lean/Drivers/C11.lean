import StorageModel.Driver.C11
def main (args : List String) : IO UInt32 := do
  StorageModel.Driver.C11.run (args == ["spec"])
  return 0
