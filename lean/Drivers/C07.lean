import StorageModel.Driver.C07
def main (args : List String) : IO UInt32 := do
  StorageModel.Driver.C07.run (args == ["spec"])
  return 0
