import StorageModel.Zql.Unescape
/-
  Whole filters over one string field whose comparisons have string-literal operands, and the
  two stages of `ast` that handle the constants of such a filter.

  In the Go code a string literal becomes a *heap object*: `ToBoltListener.VisitTerminal`
  (ast/bolt_listener.go, case ZitiQlLexerSTRING) allocates `&StringConstNode{value:
  ParseZqlString(text)}` for every STRING token it visits, and the comparison nodes hold pointers
  to these objects.  `BinaryExprNode.handleCaseInsensitive` / `toUpper` (ast/node_convert.go)
  rewrite `l icontains r` to `toUpper(l) contains toUpper(r)`, where `toUpper` of a constant
  allocates a *new* `StringConstNode` holding the upper-cased value.  Whether a literal keeps its
  denotation in a filter with several comparisons therefore depends on who shares and who writes
  these objects; the model keeps them in an explicit heap of cells addressed by index:

  * `build`      (listener)   one fresh cell per STRING token, in source order;
  * `transform`  (TypeTransformBool) `icontains` / `not icontains` allocate a fresh cell with the
                 upper-cased operand and become `contains` / `not contains` on the upper-cased field;
  * `eval`       (EvalBool)   reads the cells.
-/
namespace StorageModel.Zql

open StorageModel

/-- a filter over the string field `f`; the leaves carry byte strings (STRING token texts when
    the filter is an input of `build`, intended strings when it is an input of `specEval`) -/
inductive Filter
  | cmp (op : LitOp) (lit : Bytes)            -- `f <op> lit`   (`in` / `not in`: a one-element list)
  | inl (neg : Bool) (lits : List Bytes)      -- `f [not] in [lit, …]`
  | and (a b : Filter)
  | or (a b : Filter)
  | not (a : Filter)
  deriving Repr

def Filter.map (g : Bytes → Bytes) : Filter → Filter
  | .cmp op l => .cmp op (g l)
  | .inl neg ls => .inl neg (ls.map g)
  | .and a b => .and (a.map g) (b.map g)
  | .or a b => .or (a.map g) (b.map g)
  | .not a => .not (a.map g)

/-- documented semantics of the filter when every leaf denotes the byte string it carries -/
def specEval (field : Bytes) : Filter → Bool
  | .cmp op s => evalLitOp op s field
  | .inl neg ss => neg != ss.any (fun s => field == s)
  | .and a b => specEval field a && specEval field b
  | .or a b => specEval field a || specEval field b
  | .not a => !specEval field a

/-- the heap of `StringConstNode` objects: cell `i` holds `value` of the i-th allocated node -/
abbrev Heap := List Bytes

def Heap.read (h : Heap) (r : Nat) : Bytes := (h[r]?).getD []

/-- the node tree: comparisons point to constant cells.  `upper` says the left operand is
    `toUpper(f)` (a `StringFuncNode` around the symbol) instead of `f`. -/
inductive Node
  | cmp (upper : Bool) (op : LitOp) (ref : Nat)
  | inl (neg : Bool) (refs : List Nat)
  | and (a b : Node)
  | or (a b : Node)
  | not (a : Node)
  deriving Repr

/-- `VisitTerminal` on the STRING tokens of an array, left to right: a fresh cell each -/
def allocAll (t : UnescapeTable) : List Bytes → Heap → List Nat × Heap
  | [], h => ([], h)
  | l :: ls, h =>
    let r := allocAll t ls (h ++ [unescape t l])
    (h.length :: r.1, r.2)

/-- the listener: every STRING token gets its own `StringConstNode` -/
def build (t : UnescapeTable) : Filter → Heap → Node × Heap
  | .cmp op lit, h => (.cmp false op h.length, h ++ [unescape t lit])
  | .inl neg lits, h => let r := allocAll t lits h; (.inl neg r.1, r.2)
  | .and a b, h =>
    let ra := build t a h
    let rb := build t b ra.2
    (.and ra.1 rb.1, rb.2)
  | .or a b, h =>
    let ra := build t a h
    let rb := build t b ra.2
    (.or ra.1 rb.1, rb.2)
  | .not a, h => let ra := build t a h; (.not ra.1, ra.2)

/-- `TypeTransformBool`: the case-insensitive operators become `contains` / `not contains` over
    upper-cased operands; the upper-cased constant is a NEW cell (`toUpper` returns
    `&StringConstNode{value: strings.ToUpper(…)}`), the literal's own cell is only read -/
def transform : Node → Heap → Node × Heap
  | .cmp u op r, h =>
    match op with
    | .icontains => (.cmp true .contains h.length, h ++ [upperAscii (h.read r)])
    | .notIcontains => (.cmp true .notContains h.length, h ++ [upperAscii (h.read r)])
    | _ => (.cmp u op r, h)
  | .inl neg rs, h => (.inl neg rs, h)
  | .and a b, h =>
    let ra := transform a h
    let rb := transform b ra.2
    (.and ra.1 rb.1, rb.2)
  | .or a b, h =>
    let ra := transform a h
    let rb := transform b ra.2
    (.or ra.1 rb.1, rb.2)
  | .not a, h => let ra := transform a h; (.not ra.1, ra.2)

/-- `EvalBool` on a non-null string field -/
def eval (h : Heap) (field : Bytes) : Node → Bool
  | .cmp u op r => evalLitOp op (h.read r) (if u then upperAscii field else field)
  | .inl neg rs => neg != rs.any (fun r => field == h.read r)
  | .and a b => eval h field a && eval h field b
  | .or a b => eval h field a || eval h field b
  | .not a => !eval h field a

/-- `ast.Parse` + `EvalBool` on a filter text whose STRING tokens are the leaves of `flt` -/
def runFilter (t : UnescapeTable) (flt : Filter) (field : Bytes) : Bool :=
  let b := build t flt []
  let tr := transform b.1 b.2
  eval tr.2 field tr.1

/-- every cell a node points to exists -/
def Node.refsBelow (n : Nat) : Node → Prop
  | .cmp _ _ r => r < n
  | .inl _ rs => ∀ r ∈ rs, r < n
  | .and a b => a.refsBelow n ∧ b.refsBelow n
  | .or a b => a.refsBelow n ∧ b.refsBelow n
  | .not a => a.refsBelow n

/-! ### the variant in which constants are shared and upper-cased in place

  What the same pipeline computes if the listener keeps one cell per distinct token text and
  `toUpper` overwrites the cell it is given (both look harmless alone).  Kept to state, on a
  concrete filter, that the theorem below is about alias freedom and not true by construction. -/

def Heap.write (h : Heap) (r : Nat) (v : Bytes) : Heap := h.set r v

def findText (texts : List Bytes) (l : Bytes) : Option Nat := texts.findIdx? (· == l)

def allocShared (t : UnescapeTable) : List Bytes → List Bytes × Heap → List Nat × (List Bytes × Heap)
  | [], s => ([], s)
  | l :: ls, (tx, h) =>
    match findText tx l with
    | some r => let q := allocShared t ls (tx, h); (r :: q.1, q.2)
    | none => let q := allocShared t ls (tx ++ [l], h ++ [unescape t l]); (h.length :: q.1, q.2)

/-- listener with a table `texts` of the token texts already seen (cell i belongs to text i) -/
def buildShared (t : UnescapeTable) : Filter → List Bytes × Heap → Node × (List Bytes × Heap)
  | .cmp op lit, (tx, h) =>
    match findText tx lit with
    | some r => (.cmp false op r, (tx, h))
    | none => (.cmp false op h.length, (tx ++ [lit], h ++ [unescape t lit]))
  | .inl neg lits, s => let r := allocShared t lits s; (.inl neg r.1, r.2)
  | .and a b, s =>
    let ra := buildShared t a s
    let rb := buildShared t b ra.2
    (.and ra.1 rb.1, rb.2)
  | .or a b, s =>
    let ra := buildShared t a s
    let rb := buildShared t b ra.2
    (.or ra.1 rb.1, rb.2)
  | .not a, s => let ra := buildShared t a s; (.not ra.1, ra.2)

def transformInPlace : Node → Heap → Node × Heap
  | .cmp u op r, h =>
    match op with
    | .icontains => (.cmp true .contains r, h.write r (upperAscii (h.read r)))
    | .notIcontains => (.cmp true .notContains r, h.write r (upperAscii (h.read r)))
    | _ => (.cmp u op r, h)
  | .inl neg rs, h => (.inl neg rs, h)
  | .and a b, h =>
    let ra := transformInPlace a h
    let rb := transformInPlace b ra.2
    (.and ra.1 rb.1, rb.2)
  | .or a b, h =>
    let ra := transformInPlace a h
    let rb := transformInPlace b ra.2
    (.or ra.1 rb.1, rb.2)
  | .not a, h => let ra := transformInPlace a h; (.not ra.1, ra.2)

def runShared (t : UnescapeTable) (flt : Filter) (field : Bytes) : Bool :=
  let b := buildShared t flt ([], [])
  let tr := transformInPlace b.1 b.2.2
  eval tr.2 field tr.1

end StorageModel.Zql
