import StorageModel.Zql.Unescape
namespace StorageModel.Zql
open StorageModel

/-- Decidable well-formedness of a replacement table that suffices for C11: one left-to-right
    pass, quotes trimmed, every `old` is backslash + one byte, and the first pair for each of the
    six required escapes yields the right byte. Pair order and extra escapes are irrelevant. -/
def required : List (UInt8 × UInt8) :=
  [(BS, BS), (DQ, DQ), (ch_f, FF), (ch_n, LF), (ch_r, CR), (ch_t, TAB)]

def lookupEsc (pairs : List (Bytes × Bytes)) (x : UInt8) : Option Bytes :=
  (pairs.find? fun p => p.1 == [BS, x]).map (·.2)

def GoodTable (t : UnescapeTable) : Bool :=
  t.mode == .single && t.trimQuotes &&
  t.pairs.all (fun p => match p.1 with | [b, _] => b == BS | _ => false) &&
  required.all (fun (x, y) => lookupEsc t.pairs x == some [y])

theorem firstMatch_esc (pairs : List (Bytes × Bytes))
    (hall : pairs.all (fun p => match p.1 with | [b, _] => b == BS | _ => false) = true)
    (x : UInt8) (l : Bytes) :
    firstMatch pairs (BS :: x :: l) = pairs.find? (fun p => p.1 == [BS, x]) := by
  induction pairs with
  | nil => rfl
  | cons p ps ih =>
    simp only [List.all_cons, Bool.and_eq_true] at hall
    obtain ⟨hp, hps⟩ := hall
    have ih' := ih hps
    simp only [firstMatch] at ih' ⊢
    obtain ⟨o, n⟩ := p
    match o, hp with
    | [b, c], hp =>
      have hb : b = BS := by simpa using hp
      subst hb
      by_cases hc : c = x
      · subst hc; simp [List.find?, List.isPrefixOf]
      · have h1 : (c == x) = false := by simpa using hc
        simp [List.find?, List.isPrefixOf, h1, ih']

theorem firstMatch_raw (pairs : List (Bytes × Bytes))
    (hall : pairs.all (fun p => match p.1 with | [b, _] => b == BS | _ => false) = true)
    (c : UInt8) (hc : c ≠ BS) (l : Bytes) :
    firstMatch pairs (c :: l) = none := by
  induction pairs with
  | nil => rfl
  | cons p ps ih =>
    simp only [List.all_cons, Bool.and_eq_true] at hall
    obtain ⟨hp, hps⟩ := hall
    have ih' := ih hps
    simp only [firstMatch] at ih' ⊢
    obtain ⟨o, n⟩ := p
    match o, hp with
    | [b, d], hp =>
      have hb : b = BS := by simpa using hp
      subst hb
      have : (BS == c) = false := by simpa using fun h => hc h.symm
      simp [List.find?, List.isPrefixOf, this, ih']


theorem good_parts {t : UnescapeTable} (h : GoodTable t = true) :
    t.mode = .single ∧ t.trimQuotes = true ∧
    t.pairs.all (fun p => match p.1 with | [b, _] => b == BS | _ => false) = true ∧
    ∀ x y, (x, y) ∈ required → lookupEsc t.pairs x = some [y] := by
  simp only [GoodTable, Bool.and_eq_true, beq_iff_eq, List.all_eq_true] at h
  obtain ⟨⟨⟨h1, h2⟩, h3⟩, h4⟩ := h
  refine ⟨h1, h2, ?_, ?_⟩
  · simpa [List.all_eq_true] using h3
  · intro x y hxy
    have := h4 (x, y) hxy
    simpa using this

theorem sp_pair_good {t : UnescapeTable} (h : GoodTable t = true) (x y : UInt8) (l : Bytes)
    (hxy : (x, y) ∈ required) :
    singlePassGo t.pairs 0 (BS :: x :: l) = y :: singlePassGo t.pairs 0 l := by
  obtain ⟨_, _, hall, hreq⟩ := good_parts h
  have hl := hreq x y hxy
  simp only [lookupEsc, Option.map_eq_some_iff] at hl
  obtain ⟨⟨o, n⟩, hf, hn⟩ := hl
  have ho : o = [BS, x] := by
    have := List.find?_some hf
    simpa using this
  simp only at hn
  subst hn ho
  simp [singlePassGo, firstMatch_esc t.pairs hall x l, hf]

theorem sp_raw_good {t : UnescapeTable} (h : GoodTable t = true) (c : UInt8) (l : Bytes) (hc : c ≠ BS) :
    singlePassGo t.pairs 0 (c :: l) = c :: singlePassGo t.pairs 0 l := by
  obtain ⟨_, _, hall, _⟩ := good_parts h
  simp [singlePassGo, firstMatch_raw t.pairs hall c hc l]

theorem singlePass_escaping_good {t : UnescapeTable} (h : GoodTable t = true) {s l : Bytes}
    (he : Escaping s l) : singlePass t.pairs l = s := by
  unfold singlePass
  induction he with
  | nil => rfl
  | bs _ ih => rw [sp_pair_good h BS BS _ (by decide), ih]
  | dq _ ih => rw [sp_pair_good h DQ DQ _ (by decide), ih]
  | ctl c e hmem _ ih =>
    have : (e, c) ∈ required := by
      simp only [ctlEscapes, List.mem_cons, Prod.mk.injEq, List.mem_nil_iff, or_false] at hmem
      rcases hmem with ⟨rfl, rfl⟩ | ⟨rfl, rfl⟩ | ⟨rfl, rfl⟩ | ⟨rfl, rfl⟩ <;> decide
    rw [sp_pair_good h e c _ this, ih]
  | raw c hbs _ _ ih => rw [sp_raw_good h c _ hbs, ih]

theorem trimSuffix_concat (l : Bytes) : trimSuffixDQ (l ++ [DQ]) = l := by
  simp [trimSuffixDQ]

theorem strip_quote (l : Bytes) : trimSuffixDQ (trimPrefixDQ (quote l)) = l := by
  simp [quote, trimPrefixDQ, trimSuffix_concat]

/-- For every well-formed table: unescaping the quoted escaping of `s` gives `s`. -/
theorem unescape_escaping_good {t : UnescapeTable} (h : GoodTable t = true) {s l : Bytes}
    (he : Escaping s l) : unescape t (quote l) = s := by
  obtain ⟨hm, htq, _, _⟩ := good_parts h
  simp only [unescape, htq, if_true, strip_quote, applyTable, hm]
  exact singlePass_escaping_good h he

end StorageModel.Zql
