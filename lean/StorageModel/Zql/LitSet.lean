import StorageModel.Zql.Unescape
/-
  Filters whose comparisons are about SET symbols: `anyOf(t) <op> lit`, `allOf(t) <op> lit`,
  `anyOf(t) in [lit, …]`, `allOf(t) in [lit, …]` under and / or / not, over one or several set symbols,
  and the per-query runtime state these comparisons share.

  In the Go code every comparison that names the set symbol `t` works on ONE object per query: the
  `entitySetSymbolRuntime` that `rowCursorImpl.getSymbol` caches in `symbolCache` (boltz/query_cursor.go,
  boltz/store_query.go GetSymbol).  That object holds the bbolt cursor of the current row's element
  bucket and its current key (`value`); `AnyOfSetExprNode.EvalBool` / `AllOfSetExprNode.EvalBool`
  (ast/node_set.go) open it (`OpenCursor`: position on the first element), then either

  * walk it (`for cursor.IsValid() { predicate.EvalBool(s); cursor.Next() }`), the predicate reading the
    current element through `Symbols.EvalString(t)`, or
  * for `anyOf(t) = lit` (`BinaryStringExprNode.IsSeekable`: op `=`, string symbol against a constant) take the
    shortcut `EvalBoolWithSeek`: `cursor.SeekToString(lit)` positions the cursor on the first element whose key is
    not below the typed key of the literal, and the predicate is evaluated on that one element.

  Whether a literal keeps its denotation when several comparisons name the same set symbol therefore depends on
  what the shared object remembers between two comparisons.  The model keeps that object explicit (`RtSym`) and
  threads it through the evaluation of a whole filter, in Go's evaluation order (short-circuit `&&` / `||`).
-/
namespace StorageModel.Zql

open StorageModel

/-- byte-wise order of bbolt keys (all elements of a string set carry the same type byte in front, so the order of
    the keys is the order of the strings) -/
def bytesLt : Bytes → Bytes → Bool
  | [], [] => false
  | [], _ :: _ => true
  | _ :: _, [] => false
  | a :: as, b :: bs => a < b || (a == b && bytesLt as bs)

/-- operators a literal can be compared with under `anyOf` / `allOf` -/
inductive SetOp | eq | ne | contains | notContains | icontains | notIcontains
  deriving DecidableEq, Repr

def SetOp.toLit : SetOp → LitOp
  | .eq => .eq | .ne => .ne | .contains => .contains | .notContains => .notContains
  | .icontains => .icontains | .notIcontains => .notIcontains

/-- what `BinaryStringExprNode.EvalBool` answers when the left operand is null -/
def SetOp.onNull : SetOp → Bool
  | .ne | .notContains | .notIcontains => true
  | _ => false

inductive Quant | any | all
  deriving DecidableEq, Repr

/-- a filter over set symbols (numbered); the leaves carry byte strings (STRING token texts for the model of the
    pipeline, intended strings for the documented semantics) -/
inductive SetFilter
  | cmp (q : Quant) (sym : Nat) (op : SetOp) (lit : Bytes)   -- `anyOf(t) <op> lit` / `allOf(t) <op> lit`
  | inl (q : Quant) (sym : Nat) (lits : List Bytes)          -- `anyOf(t) in [lit, …]` / `allOf(t) in [lit, …]`
  | and (a b : SetFilter)
  | or (a b : SetFilter)
  | not (a : SetFilter)
  deriving Repr

def SetFilter.map (g : Bytes → Bytes) : SetFilter → SetFilter
  | .cmp q i op l => .cmp q i op (g l)
  | .inl q i ls => .inl q i (ls.map g)
  | .and a b => .and (a.map g) (b.map g)
  | .or a b => .or (a.map g) (b.map g)
  | .not a => .not (a.map g)

/-- a row: the elements of each set symbol, in key order -/
abbrev SetRow := List (List Bytes)

def SetRow.elems (row : SetRow) (i : Nat) : List Bytes := (row[i]?).getD []

def quant (q : Quant) (l : List Bytes) (p : Bytes → Bool) : Bool :=
  match q with
  | .any => l.any p
  | .all => l.all p

/-- the stand-alone verdict of one comparison: decided by ITS string and the row's set alone -/
def atomSpec (q : Quant) (op : SetOp) (s : Bytes) (elems : List Bytes) : Bool :=
  quant q elems (fun e => evalLitOp op.toLit s e)

def atomInSpec (q : Quant) (ss : List Bytes) (elems : List Bytes) : Bool :=
  quant q elems (fun e => ss.any (fun s => e == s))

/-- documented semantics: the boolean combination of the stand-alone verdicts -/
def specSet (row : SetRow) : SetFilter → Bool
  | .cmp q i op s => atomSpec q op s (row.elems i)
  | .inl q i ss => atomInSpec q ss (row.elems i)
  | .and a b => specSet row a && specSet row b
  | .or a b => specSet row a || specSet row b
  | .not a => !specSet row a

/-! ### the runtime -/

/-- the per-query runtime object of one set symbol: `cur` = the elements from the cursor position on (head =
    `value`, empty = invalid cursor).  `memo` does not exist in the code: it is only written by the variant
    `cached := true` below (a seek key remembered on the runtime symbol), kept for the counter-example. -/
structure RtSym where
  cur : List Bytes
  memo : Option Bytes := none

/-- `rowCursorImpl.symbolCache`: one runtime object per symbol name, alive for the whole query -/
abbrev Rt := Nat → RtSym

def Rt.put (st : Rt) (i : Nat) (v : RtSym) : Rt := fun j => if j = i then v else st j

/-- `OpenCursor`: a new bbolt cursor on the row's element bucket, positioned on the first element -/
def openCur (row : SetRow) (st : Rt) (i : Nat) : Rt := st.put i { st i with cur := row.elems i }

/-- `cursor.Seek(key)`: the first element not below the key (absolute, not relative to the position) -/
def seekTo (key : Bytes) (elems : List Bytes) : List Bytes := elems.dropWhile (fun e => bytesLt e key)

/-- `for cursor.IsValid() { if pred { return true }; cursor.Next() }; return false` -/
def anyLoop (p : Bytes → Bool) : List Bytes → Bool × List Bytes
  | [] => (false, [])
  | e :: t => if p e then (true, e :: t) else anyLoop p t

/-- `for cursor.IsValid() { if !pred { return false }; cursor.Next() }; return true` -/
def allLoop (p : Bytes → Bool) : List Bytes → Bool × List Bytes
  | [] => (true, [])
  | e :: t => if p e then allLoop p t else (false, e :: t)

/-- the predicate on the symbol's current value (`EvalString` gives null on an invalid cursor) -/
def predOn (op : SetOp) (d : Bytes) : Option Bytes → Bool
  | some v => evalLitOp op.toLit d v
  | none => op.onNull

/-- one comparison node.  `cached`: the variant in which `SeekToString` builds the seek key on first use and keeps
    it on the runtime symbol. -/
def evalAtom (cached : Bool) (row : SetRow) (q : Quant) (i : Nat) (op : SetOp) (d : Bytes) (st : Rt) : Bool × Rt :=
  let st1 := openCur row st i
  match q, op with
  | .any, .eq =>
    -- EvalBoolWithSeek: SeekToString(d); if IsValid then EvalBool
    let key := if cached then ((st1 i).memo.getD d) else d
    let memo := if cached then some key else (st1 i).memo
    let cur := seekTo key (row.elems i)
    let st2 := st1.put i { cur := cur, memo := memo }
    (match cur.head? with
     | some v => predOn .eq d (some v)
     | none => false, st2)
  | .any, _ =>
    let r := anyLoop (fun e => predOn op d (some e)) (st1 i).cur
    (r.1, st1.put i { st1 i with cur := r.2 })
  | .all, _ =>
    let r := allLoop (fun e => predOn op d (some e)) (st1 i).cur
    (r.1, st1.put i { st1 i with cur := r.2 })

/-- `InStringArrayExprNode` under `anyOf` / `allOf` (never seekable) -/
def evalInAtom (row : SetRow) (q : Quant) (i : Nat) (ds : List Bytes) (st : Rt) : Bool × Rt :=
  let st1 := openCur row st i
  let p := fun e : Bytes => ds.any (fun d => e == d)
  let r := match q with
    | .any => anyLoop p (st1 i).cur
    | .all => allLoop p (st1 i).cur
  (r.1, st1.put i { st1 i with cur := r.2 })

/-- `EvalBool` of the whole filter on one row, threading the runtime objects in Go's evaluation order -/
def evalRt (cached : Bool) (row : SetRow) : SetFilter → Rt → Bool × Rt
  | .cmp q i op d, st => evalAtom cached row q i op d st
  | .inl q i ds, st => evalInAtom row q i ds st
  | .and a b, st =>
    let ra := evalRt cached row a st
    if ra.1 then evalRt cached row b ra.2 else (false, ra.2)
  | .or a b, st =>
    let ra := evalRt cached row a st
    if ra.1 then (true, ra.2) else evalRt cached row b ra.2
  | .not a, st => let ra := evalRt cached row a st; (!ra.1, ra.2)

/-- the runtime objects at the start of a query -/
def Rt.init : Rt := fun _ => { cur := [] }

/-- `ast.Parse` (listener: every STRING token is unescaped on its own) + `EvalBool` on one row, from the runtime state
    `st` the earlier rows of the query left behind -/
def runSetFilter (t : UnescapeTable) (flt : SetFilter) (row : SetRow) (st : Rt) : Bool :=
  (evalRt false row (flt.map (unescape t)) st).1

/-- the variant with the remembered seek key -/
def runSetFilterCached (t : UnescapeTable) (flt : SetFilter) (row : SetRow) (st : Rt) : Bool :=
  (evalRt true row (flt.map (unescape t)) st).1

/-- the rows of a query one after the other on the same runtime objects: one verdict per row -/
def runRows (cached : Bool) (flt : SetFilter) : List SetRow → Rt → List Bool
  | [], _ => []
  | row :: rows, st =>
    let r := evalRt cached row flt st
    r.1 :: runRows cached flt rows r.2

/-- elements in strictly ascending key order, as a bbolt bucket serves them -/
def Sorted : List Bytes → Prop
  | [] => True
  | e :: t => (∀ x ∈ t, bytesLt e x = true) ∧ Sorted t

def SetRow.sorted (row : SetRow) : Prop := ∀ i, Sorted (row.elems i)

/-- insertion into a sorted duplicate-free list (what writing the elements into a bucket does) -/
def insertSorted (x : Bytes) : List Bytes → List Bytes
  | [] => [x]
  | e :: t => if bytesLt x e then x :: e :: t else if x == e then e :: t else e :: insertSorted x t

def sortElems (l : List Bytes) : List Bytes := l.foldr insertSorted []

end StorageModel.Zql
