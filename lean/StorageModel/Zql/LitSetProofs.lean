import StorageModel.Zql.LitSet
/-
  Independence of the comparisons of a filter over set symbols: whatever the shared runtime object of a set symbol
  holds when a comparison starts (cursor position, anything an earlier comparison or an earlier row left), the
  comparison is decided by its own literal and the row's elements - including the seek shortcut, which seeks to the
  literal's own key.
-/
namespace StorageModel.Zql

open StorageModel

theorem bytesLt_irrefl (a : Bytes) : bytesLt a a = false := by
  induction a with
  | nil => rfl
  | cons c t ih => simp [bytesLt, ih]

theorem Rt.put_same (st : Rt) (i : Nat) (v : RtSym) : (st.put i v) i = v := by
  simp [Rt.put]

theorem anyLoop_fst (p : Bytes → Bool) (l : List Bytes) : (anyLoop p l).1 = l.any p := by
  induction l with
  | nil => rfl
  | cons e t ih =>
    unfold anyLoop
    cases h : p e <;> simp [h, ih]

theorem allLoop_fst (p : Bytes → Bool) (l : List Bytes) : (allLoop p l).1 = l.all p := by
  induction l with
  | nil => rfl
  | cons e t ih =>
    unfold allLoop
    cases h : p e <;> simp [h, ih]

/-- **the seek shortcut**: in a bucket (strictly ascending keys) the first element not below the literal's OWN key
    is the literal iff the literal is an element -/
theorem seek_own_key (d : Bytes) (l : List Bytes) (hs : Sorted l) :
    (match (seekTo d l).head? with
     | some v => v == d
     | none => false) = l.any (fun e => e == d) := by
  induction l with
  | nil => rfl
  | cons e t ih =>
    obtain ⟨hlt, hst⟩ := hs
    cases hed : bytesLt e d
    · -- the seek stops at e
      have hseek : seekTo d (e :: t) = e :: t := by simp [seekTo, List.dropWhile, hed]
      rw [hseek]
      simp only [List.head?_cons, List.any_cons]
      cases hev : (e == d)
      · -- d is not among the later elements either: they are all above e … and e is not below d
        have : t.any (fun x => x == d) = false := by
          rw [List.any_eq_false]
          intro x hx hxd
          have hxe : x = d := by simpa using hxd
          subst hxe
          have := hlt x hx
          rw [hed] at this
          exact Bool.false_ne_true this
        simp [this]
      · simp
    · -- e is below the key: skipped, and it is not the literal
      have hseek : seekTo d (e :: t) = seekTo d t := by simp [seekTo, List.dropWhile, hed]
      rw [hseek, ih hst]
      have hne : (e == d) = false := by
        cases hev : (e == d)
        · rfl
        · have : e = d := by simpa using hev
          subst this
          rw [bytesLt_irrefl] at hed
          exact absurd hed Bool.false_ne_true
      simp [hne]

/-- one comparison, from ANY state of the runtime objects: the stand-alone verdict -/
theorem evalAtom_fst (row : SetRow) (hrow : row.sorted) (q : Quant) (i : Nat) (op : SetOp) (d : Bytes) (st : Rt) :
    (evalAtom false row q i op d st).1 = atomSpec q op d (row.elems i) := by
  have hopen : (openCur row st i i).cur = row.elems i := by simp [openCur, Rt.put_same]
  cases q <;> cases op <;>
    simp only [evalAtom, atomSpec, quant, hopen, anyLoop_fst, allLoop_fst, predOn, Bool.false_eq_true, if_false]
  -- the seekable case
  have := seek_own_key d (row.elems i) (hrow i)
  cases hh : (seekTo d (row.elems i)).head? <;> simp only [hh, SetOp.toLit, evalLitOp] at this ⊢ <;> exact this

theorem evalInAtom_fst (row : SetRow) (q : Quant) (i : Nat) (ds : List Bytes) (st : Rt) :
    (evalInAtom row q i ds st).1 = atomInSpec q ds (row.elems i) := by
  have hopen : (openCur row st i i).cur = row.elems i := by simp [openCur, Rt.put_same]
  cases q <;> simp only [evalInAtom, atomInSpec, quant, hopen, anyLoop_fst, allLoop_fst]

/-- **independence**: for every filter, every row served in key order and every state of the shared runtime
    objects, the verdict is the boolean combination of the stand-alone verdicts -/
theorem evalRt_fst (row : SetRow) (hrow : row.sorted) (flt : SetFilter) (st : Rt) :
    (evalRt false row flt st).1 = specSet row flt := by
  induction flt generalizing st with
  | cmp q i op d => exact evalAtom_fst row hrow q i op d st
  | inl q i ds => exact evalInAtom_fst row q i ds st
  | and a b iha ihb =>
    simp only [evalRt, specSet]
    cases h : (evalRt false row a st).1
    · rw [← iha st, h]; simp
    · rw [← iha st, h, ← ihb (evalRt false row a st).2]; simp
  | or a b iha ihb =>
    simp only [evalRt, specSet]
    cases h : (evalRt false row a st).1
    · rw [← iha st, h, ← ihb (evalRt false row a st).2]; simp
    · rw [← iha st, h]; simp
  | not a iha => simp only [evalRt, specSet, iha st]

/-- a whole query: every row gets the documented verdict, whatever the rows before it left on the runtime objects -/
theorem runRows_spec (flt : SetFilter) (rows : List SetRow) (hrows : ∀ r ∈ rows, r.sorted) (st : Rt) :
    runRows false flt rows st = rows.map (fun r => specSet r flt) := by
  induction rows generalizing st with
  | nil => rfl
  | cons r rs ih =>
    simp only [runRows, List.map_cons]
    rw [evalRt_fst r (hrows r (List.mem_cons_self ..)), ih (fun x hx => hrows x (List.mem_cons_of_mem _ hx))]

/-! writing the elements into a bucket gives a sorted row (non-vacuity of `Sorted`, used by the driver) -/

theorem bytesLt_trans {a b c : Bytes} (h1 : bytesLt a b = true) (h2 : bytesLt b c = true) : bytesLt a c = true := by
  induction a generalizing b c with
  | nil =>
    cases b with
    | nil => simp [bytesLt] at h1
    | cons y ys =>
      cases c with
      | nil => simp [bytesLt] at h2
      | cons z zs => rfl
  | cons x xs ih =>
    cases b with
    | nil => simp [bytesLt] at h1
    | cons y ys =>
      cases c with
      | nil => simp [bytesLt] at h2
      | cons z zs =>
        simp only [bytesLt, Bool.or_eq_true, Bool.and_eq_true, decide_eq_true_eq, beq_iff_eq] at h1 h2 ⊢
        rcases h1 with h1 | ⟨rfl, h1⟩
        · rcases h2 with h2 | ⟨rfl, _⟩
          · exact Or.inl (UInt8.lt_trans h1 h2)
          · exact Or.inl h1
        · rcases h2 with h2 | ⟨rfl, h2⟩
          · exact Or.inl h2
          · exact Or.inr ⟨rfl, ih h1 h2⟩

theorem bytesLt_total {a b : Bytes} (h1 : bytesLt a b = false) (h2 : (a == b) = false) : bytesLt b a = true := by
  induction a generalizing b with
  | nil =>
    cases b with
    | nil => simp at h2
    | cons y ys => simp [bytesLt] at h1
  | cons x xs ih =>
    cases b with
    | nil => rfl
    | cons y ys =>
      simp only [bytesLt, Bool.or_eq_false_iff, decide_eq_false_iff_not, Bool.and_eq_false_imp, beq_iff_eq] at h1
      simp only [bytesLt, Bool.or_eq_true, Bool.and_eq_true, decide_eq_true_eq, beq_iff_eq]
      by_cases hxy : x = y
      · subst hxy
        refine Or.inr ⟨rfl, ih (h1.2 rfl) ?_⟩
        cases hh : (xs == ys)
        · rfl
        · have : xs = ys := by simpa using hh
          subst this
          simp at h2
      · refine Or.inl ?_
        have hle : ¬ x < y := h1.1
        have : y ≤ x := UInt8.not_lt.mp hle
        exact UInt8.lt_of_le_of_ne this (fun h => hxy h.symm)

theorem mem_insertSorted {x y : Bytes} {l : List Bytes} (h : y ∈ insertSorted x l) : y = x ∨ y ∈ l := by
  induction l with
  | nil => simp [insertSorted] at h; exact Or.inl h
  | cons e t ih =>
    unfold insertSorted at h
    split at h
    · simp only [List.mem_cons] at h ⊢; rcases h with h | h | h <;> simp [h]
    · split at h
      · exact Or.inr h
      · simp only [List.mem_cons] at h ⊢
        rcases h with h | h
        · exact Or.inr (Or.inl h)
        · rcases ih h with h | h
          · exact Or.inl h
          · exact Or.inr (Or.inr h)

theorem insertSorted_sorted (x : Bytes) (l : List Bytes) (hs : Sorted l) : Sorted (insertSorted x l) := by
  induction l with
  | nil => exact ⟨fun _ h => by simp at h, trivial⟩
  | cons e t ih =>
    obtain ⟨hlt, hst⟩ := hs
    unfold insertSorted
    split
    · next hxe =>
      refine ⟨fun y hy => ?_, hlt, hst⟩
      simp only [List.mem_cons] at hy
      rcases hy with rfl | hy
      · exact hxe
      · exact bytesLt_trans hxe (hlt y hy)
    · next hxe =>
      split
      · exact ⟨hlt, hst⟩
      · next hne =>
        refine ⟨fun y hy => ?_, ih hst⟩
        rcases mem_insertSorted hy with rfl | hy
        · exact bytesLt_total (by simpa using hxe) (by simpa using hne)
        · exact hlt y hy

theorem sortElems_sorted (l : List Bytes) : Sorted (sortElems l) := by
  induction l with
  | nil => trivial
  | cons x t ih => exact insertSorted_sorted x _ ih

end StorageModel.Zql
