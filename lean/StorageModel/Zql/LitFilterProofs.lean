import StorageModel.Zql.LitFilter
/-
  Alias freedom of the constant cells of a filter: the listener's cells are only ever extended
  (never overwritten) by the later stages, so the value a comparison reads is the value its own
  STRING token was unescaped to, whatever else the filter contains.
-/
namespace StorageModel.Zql

open StorageModel

theorem Heap.read_append_left {h : Heap} (e : Heap) {r : Nat} (hr : r < h.length) :
    Heap.read (h ++ e) r = Heap.read h r := by
  simp [Heap.read, List.getElem?_append_left hr]

theorem Heap.read_length (h e : Heap) (v : Bytes) : Heap.read (h ++ v :: e) h.length = v := by
  simp [Heap.read]

theorem any_read_append (h e : Heap) (field : Bytes) (rs : List Nat) (hx : ∀ r ∈ rs, r < h.length) :
    rs.any (fun r => field == Heap.read (h ++ e) r) = rs.any (fun r => field == Heap.read h r) := by
  induction rs with
  | nil => rfl
  | cons r rs ih =>
    simp only [List.any_cons, Heap.read_append_left e (hx r (List.mem_cons_self ..)),
      ih (fun x hx' => hx x (List.mem_cons_of_mem _ hx'))]

theorem Node.refsBelow_mono {n m : Nat} (hnm : n ≤ m) (x : Node) (hx : x.refsBelow n) : x.refsBelow m := by
  induction x with
  | cmp _ _ r => exact Nat.lt_of_lt_of_le hx hnm
  | inl _ rs => exact fun r hr => Nat.lt_of_lt_of_le (hx r hr) hnm
  | and a b iha ihb => exact ⟨iha hx.1, ihb hx.2⟩
  | or a b iha ihb => exact ⟨iha hx.1, ihb hx.2⟩
  | not a iha => exact iha hx

/-- a node whose cells all exist reads the same values after the heap has grown -/
theorem eval_append (h e : Heap) (field : Bytes) (x : Node) (hx : x.refsBelow h.length) :
    eval (h ++ e) field x = eval h field x := by
  induction x with
  | cmp u op r => simp only [eval, Heap.read_append_left e hx]
  | inl neg rs => simp only [eval, any_read_append h e field rs hx]
  | and a b iha ihb => simp only [eval, iha hx.1, ihb hx.2]
  | or a b iha ihb => simp only [eval, iha hx.1, ihb hx.2]
  | not a iha => simp only [eval, iha hx]

/-- the listener on an array: the heap only grows, the new references exist and hold the
    unescaped token texts -/
theorem allocAll_spec (t : UnescapeTable) (ls : List Bytes) (h : Heap) :
    ∃ e, (allocAll t ls h).2 = h ++ e ∧ (∀ r ∈ (allocAll t ls h).1, r < (allocAll t ls h).2.length) ∧
      ∀ field, (allocAll t ls h).1.any (fun r => field == Heap.read (allocAll t ls h).2 r)
        = (ls.map (unescape t)).any (fun s => field == s) := by
  induction ls generalizing h with
  | nil => exact ⟨[], by simp [allocAll]⟩
  | cons l ls ih =>
    obtain ⟨e, he, hb, hv⟩ := ih (h ++ [unescape t l])
    refine ⟨unescape t l :: e, ?_, ?_, ?_⟩
    · simp only [allocAll, he, List.append_assoc, List.singleton_append]
    · intro r hr
      simp only [allocAll, List.mem_cons] at hr ⊢
      rcases hr with rfl | hr
      · rw [he]; simp only [List.length_append, List.length_cons, List.length_nil]; omega
      · exact hb r hr
    · intro field
      simp only [allocAll, List.any_cons, List.map_cons, hv field]
      congr 2
      rw [he, List.append_assoc, List.singleton_append, Heap.read_length]

/-- the listener: the heap only grows, every reference of the built tree exists, and the tree
    evaluates as the documented semantics over the strings the tokens are unescaped to -/
theorem build_spec (t : UnescapeTable) (flt : Filter) (h : Heap) :
    ∃ e, (build t flt h).2 = h ++ e ∧ (build t flt h).1.refsBelow (build t flt h).2.length ∧
      ∀ field, eval (build t flt h).2 field (build t flt h).1 = specEval field (flt.map (unescape t)) := by
  induction flt generalizing h with
  | cmp op lit =>
    refine ⟨[unescape t lit], rfl, ?_, ?_⟩
    · simp [build, Node.refsBelow]
    · intro field
      simp only [build, eval, Filter.map, specEval, Heap.read_length, Bool.false_eq_true, if_false]
  | inl neg lits =>
    obtain ⟨e, he, hb, hv⟩ := allocAll_spec t lits h
    exact ⟨e, he, hb, fun field => by simp only [build, eval, Filter.map, specEval, hv field]⟩
  | and a b iha ihb =>
    obtain ⟨ea, hea, hba, hva⟩ := iha h
    obtain ⟨eb, heb, hbb, hvb⟩ := ihb (build t a h).2
    refine ⟨ea ++ eb, by show (build t b (build t a h).2).2 = _; rw [heb, hea, List.append_assoc], ?_, ?_⟩
    · refine ⟨Node.refsBelow_mono ?_ _ hba, hbb⟩
      simp only [build, heb, List.length_append]; omega
    · intro field
      simp only [build, eval, Filter.map, specEval, hvb field, ← hva field]
      congr 1
      rw [heb]; exact eval_append _ _ _ _ hba
  | or a b iha ihb =>
    obtain ⟨ea, hea, hba, hva⟩ := iha h
    obtain ⟨eb, heb, hbb, hvb⟩ := ihb (build t a h).2
    refine ⟨ea ++ eb, by show (build t b (build t a h).2).2 = _; rw [heb, hea, List.append_assoc], ?_, ?_⟩
    · refine ⟨Node.refsBelow_mono ?_ _ hba, hbb⟩
      simp only [build, heb, List.length_append]; omega
    · intro field
      simp only [build, eval, Filter.map, specEval, hvb field, ← hva field]
      congr 1
      rw [heb]; exact eval_append _ _ _ _ hba
  | not a iha =>
    obtain ⟨ea, hea, hba, hva⟩ := iha h
    exact ⟨ea, hea, hba, fun field => by simp only [build, eval, Filter.map, specEval, hva field]⟩

theorem upperByte_idem (c : UInt8) :
    (let g := fun c : UInt8 => if 97 ≤ c.toNat ∧ c.toNat ≤ 122 then UInt8.ofNat (c.toNat - 32) else c
     g (g c) = g c) := by
  intro g
  show (if 97 ≤ (g c).toNat ∧ (g c).toNat ≤ 122 then UInt8.ofNat ((g c).toNat - 32) else g c) = g c
  have : ¬ (97 ≤ (g c).toNat ∧ (g c).toNat ≤ 122) := by
    show ¬ (97 ≤ (if 97 ≤ c.toNat ∧ c.toNat ≤ 122 then UInt8.ofNat (c.toNat - 32) else c).toNat ∧
      (if 97 ≤ c.toNat ∧ c.toNat ≤ 122 then UInt8.ofNat (c.toNat - 32) else c).toNat ≤ 122)
    split
    · rw [UInt8.toNat_ofNat']; omega
    · assumption
  rw [if_neg this]

/-- `strings.ToUpper` is idempotent (the model's ASCII version) -/
theorem upperAscii_idem (b : Bytes) : upperAscii (upperAscii b) = upperAscii b := by
  simp only [upperAscii, List.map_map]
  apply List.map_congr_left
  intro c _
  exact upperByte_idem c

/-- the transformation: the heap only grows, references stay valid, and the value of the tree
    is unchanged — in particular every comparison that is not case-insensitive still reads the
    cell the listener wrote for its own token -/
theorem transform_spec (x : Node) (h : Heap) (hx : x.refsBelow h.length) :
    ∃ e, (transform x h).2 = h ++ e ∧ (transform x h).1.refsBelow (transform x h).2.length ∧
      ∀ field, eval (transform x h).2 field (transform x h).1 = eval h field x := by
  induction x generalizing h with
  | cmp u op r =>
    cases op
    case icontains =>
      refine ⟨[upperAscii (h.read r)], rfl, by simp [transform, Node.refsBelow], fun field => ?_⟩
      cases u <;> simp [transform, eval, Heap.read_length, evalLitOp, upperAscii_idem]
    case notIcontains =>
      refine ⟨[upperAscii (h.read r)], rfl, by simp [transform, Node.refsBelow], fun field => ?_⟩
      cases u <;> simp [transform, eval, Heap.read_length, evalLitOp, upperAscii_idem]
    all_goals exact ⟨[], by simp [transform], by simpa [transform] using hx, fun _ => rfl⟩
  | inl neg rs => exact ⟨[], by simp [transform], by simpa [transform] using hx, fun _ => rfl⟩
  | and a b iha ihb =>
    obtain ⟨ea, hea, hba, hva⟩ := iha h hx.1
    have hb1 : b.refsBelow (transform a h).2.length :=
      Node.refsBelow_mono (by rw [hea, List.length_append]; omega) _ hx.2
    obtain ⟨eb, heb, hbb, hvb⟩ := ihb (transform a h).2 hb1
    refine ⟨ea ++ eb, by show (transform b (transform a h).2).2 = _; rw [heb, hea, List.append_assoc], ?_, ?_⟩
    · refine ⟨Node.refsBelow_mono ?_ _ hba, hbb⟩
      show _ ≤ (transform b (transform a h).2).2.length
      rw [heb, List.length_append]; omega
    · intro field
      show (eval (transform b (transform a h).2).2 field (transform a h).1 &&
        eval (transform b (transform a h).2).2 field (transform b (transform a h).2).1) = _
      rw [hvb field, heb, eval_append _ _ _ _ hba, hva field, hea, eval_append _ _ _ _ hx.2]
      rfl
  | or a b iha ihb =>
    obtain ⟨ea, hea, hba, hva⟩ := iha h hx.1
    have hb1 : b.refsBelow (transform a h).2.length :=
      Node.refsBelow_mono (by rw [hea, List.length_append]; omega) _ hx.2
    obtain ⟨eb, heb, hbb, hvb⟩ := ihb (transform a h).2 hb1
    refine ⟨ea ++ eb, by show (transform b (transform a h).2).2 = _; rw [heb, hea, List.append_assoc], ?_, ?_⟩
    · refine ⟨Node.refsBelow_mono ?_ _ hba, hbb⟩
      show _ ≤ (transform b (transform a h).2).2.length
      rw [heb, List.length_append]; omega
    · intro field
      show (eval (transform b (transform a h).2).2 field (transform a h).1 ||
        eval (transform b (transform a h).2).2 field (transform b (transform a h).2).1) = _
      rw [hvb field, heb, eval_append _ _ _ _ hba, hva field, hea, eval_append _ _ _ _ hx.2]
      rfl
  | not a iha =>
    obtain ⟨ea, hea, hba, hva⟩ := iha h hx
    exact ⟨ea, hea, hba, fun field => by show (!eval (transform a h).2 field (transform a h).1) = _; rw [hva field]; rfl⟩

/-- **compositionality**: the pipeline listener → transform → EvalBool computes, for every filter
    and every table, the documented semantics over the strings the tokens are unescaped to: each
    occurrence of a literal denotes `unescape t text`, whatever operators and other literals
    (equal or different) the filter contains -/
theorem runFilter_compositional (t : UnescapeTable) (flt : Filter) (field : Bytes) :
    runFilter t flt field = specEval field (flt.map (unescape t)) := by
  obtain ⟨_, _, hb, hv⟩ := build_spec t flt []
  obtain ⟨_, _, _, hv'⟩ := transform_spec (build t flt []).1 (build t flt []).2 hb
  show eval (transform (build t flt []).1 (build t flt []).2).2 field _ = _
  rw [hv' field, hv field]

end StorageModel.Zql
