import StorageModel.Base.Bytes
/-
  Model of `zitiql.ParseZqlString` (zitiql/util.go).

  What the Go function does is described by an `UnescapeTable`, which is NOT written by
  hand: `/verif/extract` regenerates `StorageModel/Generated/UnescapeTable.lean` from the
  body of `ParseZqlString` on every run.  Two interpreters are defined here, one for each
  way the Go standard library can apply an ordered list of replacement pairs:

  * `Mode.passes` — `t = strings.Replace(t, old, new, -1)` statements executed one after
    the other: every pair is replaced globally (left to right, non-overlapping), and the
    next pair sees the output of the previous one;
  * `Mode.single` — `strings.NewReplacer(old1, new1, …).Replace(t)`: one left-to-right scan,
    at each position the first pair (in argument order) whose `old` is a prefix of the
    remaining input is applied, otherwise one byte is copied.

  Trusted: that `strings.Replace`, `strings.NewReplacer`, `strings.TrimPrefix/TrimSuffix`
  behave as these definitions say (exercised by the correspondence check on every run).
-/
namespace StorageModel.Zql

open StorageModel

def BS : UInt8 := 92   -- '\'
def DQ : UInt8 := 34   -- '"'
def LF : UInt8 := 10
def TAB : UInt8 := 9
def CR : UInt8 := 13
def FF : UInt8 := 12
def ch_n : UInt8 := 110
def ch_t : UInt8 := 116
def ch_r : UInt8 := 114
def ch_f : UInt8 := 102

inductive Mode | passes | single | unknown
  deriving DecidableEq, Repr

structure UnescapeTable where
  mode : Mode
  /-- whether the outer quotes are removed with TrimPrefix/TrimSuffix of `"` -/
  trimQuotes : Bool
  pairs : List (Bytes × Bytes)
  deriving DecidableEq, Repr

/-- `strings.Replace(s, old, new, -1)` for non-empty `old`: structural recursion with a
    skip counter (`k` bytes of a matched `old` remain to be dropped). -/
def replaceAllGo (old new : Bytes) : Nat → Bytes → Bytes
  | _, [] => []
  | k + 1, _ :: t => replaceAllGo old new k t
  | 0, c :: t =>
    if old.isPrefixOf (c :: t) then new ++ replaceAllGo old new (old.length - 1) t
    else c :: replaceAllGo old new 0 t

def replaceAll (old new : Bytes) (s : Bytes) : Bytes :=
  if old.isEmpty then s else replaceAllGo old new 0 s

def firstMatch (pairs : List (Bytes × Bytes)) (s : Bytes) : Option (Bytes × Bytes) :=
  pairs.find? fun p => !p.1.isEmpty && p.1.isPrefixOf s

/-- `strings.NewReplacer(pairs…).Replace(s)` for non-empty `old`s. -/
def singlePassGo (pairs : List (Bytes × Bytes)) : Nat → Bytes → Bytes
  | _, [] => []
  | k + 1, _ :: t => singlePassGo pairs k t
  | 0, c :: t =>
    match firstMatch pairs (c :: t) with
    | some p => p.2 ++ singlePassGo pairs (p.1.length - 1) t
    | none => c :: singlePassGo pairs 0 t

def singlePass (pairs : List (Bytes × Bytes)) (s : Bytes) : Bytes := singlePassGo pairs 0 s

def trimPrefixDQ : Bytes → Bytes
  | c :: t => if c = DQ then t else c :: t
  | [] => []

def trimSuffixDQ (s : Bytes) : Bytes :=
  if s.getLast? = some DQ then s.dropLast else s

def applyTable (t : UnescapeTable) (s : Bytes) : Bytes :=
  match t.mode with
  | .passes => t.pairs.foldl (fun acc p => replaceAll p.1 p.2 acc) s
  | .single => singlePass t.pairs s
  | .unknown => s

/-- The model of `ParseZqlString`. -/
def unescape (t : UnescapeTable) (text : Bytes) : Bytes :=
  let body := if t.trimQuotes then trimSuffixDQ (trimPrefixDQ text) else text
  applyTable t body

/-- Control characters that have an escape, with the letter that follows the backslash. -/
def ctlEscapes : List (UInt8 × UInt8) := [(LF, ch_n), (TAB, ch_t), (CR, ch_r), (FF, ch_f)]

/-- The property's writer-side relation: `Escaping s lit` says `lit` (without the outer
    quotes) is `s` with backslash and double quote backslash-escaped and, optionally
    (per occurrence), newline / tab / CR / FF written as `\n \t \r \f`. -/
inductive Escaping : Bytes → Bytes → Prop
  | nil : Escaping [] []
  | bs  {s l} : Escaping s l → Escaping (BS :: s) (BS :: BS :: l)
  | dq  {s l} : Escaping s l → Escaping (DQ :: s) (BS :: DQ :: l)
  | ctl {s l} (c e : UInt8) : (c, e) ∈ ctlEscapes → Escaping s l → Escaping (c :: s) (BS :: e :: l)
  | raw {s l} (c : UInt8) : c ≠ BS → c ≠ DQ → Escaping s l → Escaping (c :: s) (c :: l)

/-- A canonical (executable) escaping function: escapes everything that has an escape. -/
def escapeAll : Bytes → Bytes
  | [] => []
  | c :: t =>
    if c = BS then BS :: BS :: escapeAll t
    else if c = DQ then BS :: DQ :: escapeAll t
    else match ctlEscapes.lookup c with
      | some e => BS :: e :: escapeAll t
      | none => c :: escapeAll t

/-- A minimal escaping function: escapes only backslash and double quote. -/
def escapeMin : Bytes → Bytes
  | [] => []
  | c :: t =>
    if c = BS then BS :: BS :: escapeMin t
    else if c = DQ then BS :: DQ :: escapeMin t
    else c :: escapeMin t

def quote (l : Bytes) : Bytes := DQ :: l ++ [DQ]

/-- the body of a STRING token of ZitiQl.g4: `(ESC | SAFECODEPOINT)*` with
    `ESC: '\\' ["\\fnrt]` and `SAFECODEPOINT: ~["\\\u0000-\u001F]` (bytes ≥ 0x80 belong to
    multi-byte code points, all of which are safe) -/
def isStringBody : Bytes → Bool
  | [] => true
  | c :: t =>
    if c = BS then
      match t with
      | x :: t' => (x = DQ || x = BS || x = ch_f || x = ch_n || x = ch_r || x = ch_t) && isStringBody t'
      | [] => false
    else c != DQ && c ≥ 32 && isStringBody t

/-- strings the property quantifies over: printable characters, quotes, backslashes and the
    four escapable control characters -/
def Expressible (s : Bytes) : Prop := ∀ c ∈ s, c ≥ 32 ∨ c = LF ∨ c = TAB ∨ c = CR ∨ c = FF

def isInfix (needle hay : Bytes) : Bool :=
  (List.range (hay.length + 1)).any fun i => needle.isPrefixOf (hay.drop i)

/-- operand positions of a string literal: `f = lit`, `f != lit`, `f in [lit]`, `f not in [lit]`,
    `f contains lit`, `f not contains lit`, `f icontains lit`, `f not icontains lit` -/
inductive LitOp | eq | ne | inArr | notInArr | contains | notContains | icontains | notIcontains
  deriving DecidableEq, Repr

/-- `strings.ToUpper` on ASCII bytes (the case-insensitive operators upper-case both operands; the
    correspondence keeps non-ASCII letters out of these cases) -/
def upperAscii (b : Bytes) : Bytes :=
  b.map fun c => if 97 ≤ c.toNat ∧ c.toNat ≤ 122 then UInt8.ofNat (c.toNat - 32) else c

/-- documented semantics of `f <op> literal` on a non-null string field, when the literal
    denotes the byte string `d` -/
def evalLitOp (op : LitOp) (d field : Bytes) : Bool :=
  match op with
  | .eq => field == d
  | .ne => field != d
  | .inArr => field == d
  | .notInArr => field != d
  | .contains => isInfix d field
  | .notContains => !isInfix d field
  | .icontains => isInfix (upperAscii d) (upperAscii field)
  | .notIcontains => !isInfix (upperAscii d) (upperAscii field)

/-- The table the repaired `ParseZqlString` is expected to implement. -/
def expectedTable : UnescapeTable :=
  { mode := .single, trimQuotes := true,
    pairs := [([BS, BS], [BS]), ([BS, DQ], [DQ]), ([BS, ch_f], [FF]), ([BS, ch_n], [LF]),
              ([BS, ch_r], [CR]), ([BS, ch_t], [TAB])] }

/-- The table of the pinned tree (e54a121), kept to state why it violates C11. -/
def pinnedTable : UnescapeTable :=
  { mode := .passes, trimQuotes := true,
    pairs := [([BS, BS], [BS]), ([BS, DQ], [DQ]), ([BS, ch_f], [FF]), ([BS, ch_n], [LF]),
              ([BS, ch_r], [CR]), ([BS, ch_t], [TAB]), ([BS, BS], [BS])] }

end StorageModel.Zql
