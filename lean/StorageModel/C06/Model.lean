import StorageModel.C03.Model
/-
  C06 engine model: the universe that combines every index / constraint / link kind with
  parent / child layering (see /verif/harness/c06.go for the wiring):

    store A "things":  name (unique), alias (nullable unique), roles (set index),
                       owner (nullable fk index → B.things), dep (nullable fk constraint → B,
                       cascade delete), boss (nullable fk constraint → A itself, cascade delete:
                       deleting an entity deletes its transitive referrers, cycles included),
                       chief (nullable fk constraint → A itself, RESTRICT: an entity some `chief` names —
                       its own included — cannot be deleted),
                       groups (link collection ↔ B.members), rcB (ref-counted link collection ↔ B.rcA)
    store A1:          plain child of A (`ext1`), code (unique, non-nullable),
                       pals (link collection owned by the CHILD store ↔ B.palsOf)
                       peers (link collection of A WITH ITSELF through one symbol), mentors ↔ mentees
                       (link collection of A with itself through two symbols)
    store A2:          EXTENDED child of A (`ext2`), colour (nullable unique index of its own);
                       creates, updates and deletes through it
    store B "owners":  label (nullable unique), things (back-references), members / palsOf / rcA

  Follows boltz/store_crud.go (Create / Update / DeleteById / processDeleteConstraints /
  cleanupLinks), boltz/indexes.go (uniqueIndex, setIndex, fkIndex, fkDeleteConstraint,
  fkConstraint, fkDeleteCascadeConstraint), boltz/link_collection.go and
  boltz/link_collection_rc.go.  Unique / set index steps are the ones of the C03 model.

  Every bucket is an explicit map.  Link, ref-count and back-reference buckets live in maps of
  their own keyed by the owning entity's id; `lookup = none` means the bucket does not exist.
-/
namespace StorageModel.C06
open StorageModel
open StorageModel.C03 (Map Id Err setInsert setErase setOf uniqueAfter uniqueBeforeDelete setAfter setBeforeDelete
  Line typed nilField bU bIndexes bThings bName bAlias bRoles)

/-! ### a plain link collection: two families of list buckets -/

structure LinkPair where
  /-- owner id (declaring side) → keys of its link bucket -/
  fwd : Map Id (List Id)
  /-- other side's id → keys of its link bucket -/
  bwd : Map Id (List Id)
  deriving Repr

namespace LinkPair

def empty : LinkPair := ⟨[], []⟩

/-- `unlink`: local `DeleteListEntry`, then `otherField.RemoveLink` (silently nothing when the
    other entity or its bucket is missing) -/
def unlink (p : LinkPair) (bEx : Id → Bool) (a b : Id) : LinkPair :=
  let p1 := { p with fwd := p.fwd.insert a (setErase b ((p.fwd.lookup a).getD [])) }
  match bEx b, p1.bwd.lookup b with
  | true, some ms => { p1 with bwd := p1.bwd.insert b (setErase a ms) }
  | _, _ => p1

/-- `link`: local `SetListEntry`, then `otherField.AddLink` (not-found when the other entity is missing) -/
def link (p : LinkPair) (bEx : Id → Bool) (a b : Id) : Except Err LinkPair :=
  let p1 := { p with fwd := p.fwd.insert a (setInsert b ((p.fwd.lookup a).getD [])) }
  if bEx b then .ok { p1 with bwd := p1.bwd.insert b (setInsert a ((p1.bwd.lookup b).getD [])) }
  else .error .notFound

def linkAll (bEx : Id → Bool) (a : Id) : List Id → LinkPair → Except Err LinkPair
  | [], p => .ok p
  | b :: rest, p => match p.link bEx a b with
    | .ok p' => linkAll bEx a rest p'
    | .error e => .error e

/-- `SetLinks` by its effect: entries not requested are removed, requested ones not yet present
    are added (removals first); the sorted-merge loop itself is C05's subject -/
def setLinks (p : LinkPair) (bEx : Id → Bool) (a : Id) (req : List Id) : Except Err LinkPair :=
  let cur := (p.fwd.lookup a).getD []
  let want := setOf req
  let toRemove := cur.filter (fun k => !want.contains k)
  let toAdd := want.filter (fun k => !cur.contains k)
  -- getFieldBucket creates the bucket
  let p0 := { p with fwd := p.fwd.insert a cur }
  linkAll bEx a toAdd (toRemove.foldl (fun p k => p.unlink bEx a k) p0)

/-- one step of `EntityDeleted` for the owner of a `fwd` bucket -/
def cleanFwdStep (bEx : Id → Bool) (id : Id) (p : LinkPair) (b : Id) : LinkPair :=
  match bEx b, p.bwd.lookup b with
  | true, some ms => { p with bwd := p.bwd.insert b (setErase id ms) }
  | _, _ => p

/-- `EntityDeleted` on the declaring side: the other side of every link is removed; the local
    bucket goes with the entity -/
def cleanFwd (p : LinkPair) (bEx : Id → Bool) (id : Id) : LinkPair :=
  ((p.fwd.lookup id).getD []).foldl (cleanFwdStep bEx id) p

def cleanBwdStep (aEx : Id → Bool) (id : Id) (p : LinkPair) (a : Id) : LinkPair :=
  match aEx a, p.fwd.lookup a with
  | true, some gs => { p with fwd := p.fwd.insert a (setErase id gs) }
  | _, _ => p

/-- `EntityDeleted` of the collection declared by the other store -/
def cleanBwd (p : LinkPair) (aEx : Id → Bool) (id : Id) : LinkPair :=
  ((p.bwd.lookup id).getD []).foldl (cleanBwdStep aEx id) p

end LinkPair

/-! ### a link collection of a store WITH ITSELF through one symbol (`AddLinkCollection(sym, sym)`):
    one family of list buckets; both ends of a link are written into it -/

abbrev SelfMap := Map Id (List Id)

/-- `unlink`: local `DeleteListEntry`, then `otherField.RemoveLink` — on the same family of buckets -/
def selfUnlink (m : SelfMap) (ex : Id → Bool) (a b : Id) : SelfMap :=
  let m1 := m.insert a (setErase b ((m.lookup a).getD []))
  match ex b, m1.lookup b with
  | true, some ms => m1.insert b (setErase a ms)
  | _, _ => m1

/-- `link`: local `SetListEntry`, then `otherField.AddLink` (not-found when the other entity is missing) -/
def selfLink (m : SelfMap) (ex : Id → Bool) (a b : Id) : Except Err SelfMap :=
  let m1 := m.insert a (setInsert b ((m.lookup a).getD []))
  if ex b then .ok (m1.insert b (setInsert a ((m1.lookup b).getD []))) else .error .notFound

def selfLinkAll (ex : Id → Bool) (a : Id) : List Id → SelfMap → Except Err SelfMap
  | [], m => .ok m
  | b :: rest, m => match selfLink m ex a b with
    | .ok m' => selfLinkAll ex a rest m'
    | .error e => .error e

/-- `getFieldBucket`: the link bucket of the entity is created -/
def selfTouch (m : SelfMap) (a : Id) : SelfMap := m.insert a ((m.lookup a).getD [])

/-- `AddLinks(id, keys…)` -/
def selfAdd (m : SelfMap) (ex : Id → Bool) (a : Id) (ks : List Id) : Except Err SelfMap :=
  if !ex a then .error .other else selfLinkAll ex a ks (selfTouch m a)

/-- `RemoveLinks(id, keys…)` -/
def selfRemove (m : SelfMap) (ex : Id → Bool) (a : Id) (ks : List Id) : Except Err SelfMap :=
  if !ex a then .error .other else .ok (ks.foldl (fun m k => selfUnlink m ex a k) (selfTouch m a))

/-- `SetLinks(id, keys)` by its effect (removals first) -/
def selfSet (m : SelfMap) (ex : Id → Bool) (a : Id) (req : List Id) : Except Err SelfMap :=
  if !ex a then .error .other
  else
    let cur := (m.lookup a).getD []
    let want := setOf req
    let toRemove := cur.filter (fun k => !want.contains k)
    let toAdd := want.filter (fun k => !cur.contains k)
    selfLinkAll ex a toAdd (toRemove.foldl (fun m k => selfUnlink m ex a k) (selfTouch m a))

def selfCleanStep (ex : Id → Bool) (id : Id) (m : SelfMap) (k : Id) : SelfMap :=
  match ex k, m.lookup k with
  | true, some ms => m.insert k (setErase id ms)
  | _, _ => m

/-- `EntityDeleted`: the keys of the entity's bucket are collected first (fix b23d525), then the id is
    removed from the bucket of each of them — its own included when the entity is linked to itself -/
def selfClean (m : SelfMap) (ex : Id → Bool) (id : Id) : SelfMap :=
  ((m.lookup id).getD []).foldl (selfCleanStep ex id) m

/-! ### a ref-counted link collection: two families of count buckets -/

abbrev Counts := Map Id Nat

/-- `TypedBucket.IncrementLinkCount` -/
def bInc (c : Counts) (k : Id) : Counts × Int :=
  let n := match c.lookup k with
    | some v => v + 1
    | none => 1
  (c.insert k n, n)

/-- `TypedBucket.DecrementLinkCount`: -1 when there is no entry; the entry goes when the count
    reaches zero -/
def bDec (c : Counts) (k : Id) : Counts × Int :=
  match c.lookup k with
  | none => (c, -1)
  | some v => if v - 1 > 0 then (c.insert k (v - 1), (v : Int) - 1) else (c.erase k, (v : Int) - 1)

/-- `TypedBucket.SetLinkCount` (counts ≥ 0) -/
def bSet (c : Counts) (k : Id) (n : Nat) : Counts :=
  if n = 0 then (if (c.lookup k).isSome then c.erase k else c) else c.insert k n

structure RcPair where
  fwd : Map Id Counts
  bwd : Map Id Counts
  deriving Repr

namespace RcPair

def empty : RcPair := ⟨[], []⟩

/-- `IncrementLinkCount(a, b)` on the declaring side's collection -/
def inc (r : RcPair) (aEx bEx : Id → Bool) (a b : Id) : Except Err RcPair :=
  if !aEx a then .error .other                                    -- "… not found with id …"
  else
    let x := bInc ((r.fwd.lookup a).getD []) b
    let r1 := { r with fwd := r.fwd.insert a x.1 }
    if !bEx b then .error .notFound
    else
      let y := bInc ((r1.bwd.lookup b).getD []) a
      if x.2 ≠ y.2 then .error .other                             -- "unexpected mismatch …"
      else .ok { r1 with bwd := r1.bwd.insert b y.1 }

def dec (r : RcPair) (aEx bEx : Id → Bool) (a b : Id) : Except Err RcPair :=
  if !aEx a then .error .other
  else
    let x := bDec ((r.fwd.lookup a).getD []) b
    let r1 := { r with fwd := r.fwd.insert a x.1 }
    match bEx b, r1.bwd.lookup b with
    | true, some cb =>
      let y := bDec cb a
      if x.2 ≠ y.2 then .error .other else .ok { r1 with bwd := r1.bwd.insert b y.1 }
    | _, _ => if x.2 ≠ -1 then .error .other else .ok r1

def set (r : RcPair) (aEx bEx : Id → Bool) (a b : Id) (n : Nat) : Except Err RcPair :=
  if !aEx a then .error .other
  else
    let r1 := { r with fwd := r.fwd.insert a (bSet ((r.fwd.lookup a).getD []) b n) }
    if !bEx b then .error .notFound
    else .ok { r1 with bwd := r1.bwd.insert b (bSet ((r1.bwd.lookup b).getD []) a n) }

/-- `RefCountedLinkedSetSymbol.unlink`, for every key of the deleted entity's bucket -/
def cleanFwdStep (bEx : Id → Bool) (id : Id) (r : RcPair) (b : Id) : RcPair :=
  match bEx b, r.bwd.lookup b with
  | true, some cb => { r with bwd := r.bwd.insert b (cb.erase id) }
  | _, _ => r

def cleanFwd (r : RcPair) (bEx : Id → Bool) (id : Id) : RcPair :=
  (Map.keys ((r.fwd.lookup id).getD [])).foldl (cleanFwdStep bEx id) r

def cleanBwdStep (aEx : Id → Bool) (id : Id) (r : RcPair) (a : Id) : RcPair :=
  match aEx a, r.fwd.lookup a with
  | true, some ca => { r with fwd := r.fwd.insert a (ca.erase id) }
  | _, _ => r

def cleanBwd (r : RcPair) (aEx : Id → Bool) (id : Id) : RcPair :=
  (Map.keys ((r.bwd.lookup id).getD [])).foldl (cleanBwdStep aEx id) r

end RcPair

/-! ### entities and state -/

/-- an A entity's own fields (`u/things/<id>`), plus the child-store data -/
structure EntA where
  name : Bytes
  alias : Option Bytes
  roles : List Bytes
  owner : Option Bytes
  dep : Option Bytes
  /-- self reference (fk constraint → A, cascade delete) -/
  boss : Option Bytes
  /-- self reference (fk constraint → A, RESTRICT: `CascadeNone`) -/
  chief : Option Bytes
  /-- `ext1/code` (`none`: the entity has no child-store data) -/
  code : Option Bytes
  /-- `ext2/colour` (`none`: no data of the extended child store) -/
  colour : Option Bytes
  deriving DecidableEq, Repr

structure EntB where
  label : Option Bytes
  deriving DecidableEq, Repr

structure State where
  hasA : Bool
  hasB : Bool
  a : Map Id EntA
  b : Map Id EntB
  /-- A.groups ↔ B.members -/
  g : LinkPair
  /-- A1.pals (inside `ext1`) ↔ B.palsOf -/
  p : LinkPair
  /-- A.rcB ↔ B.rcA -/
  rc : RcPair
  /-- B id → keys of its `things` bucket (back-references of A.owner) -/
  thg : Map Id (List Id)
  uName : Map Bytes Id
  uAlias : Map Bytes Id
  uCode : Map Bytes Id
  uLabel : Map Bytes Id
  sRoles : Map Bytes (List Id)
  /-- `u/indexes/things/colour`: the extended child store's own unique index -/
  uColour : Map Bytes Id
  /-- A.peers ↔ A.peers: store A linked with itself through one symbol -/
  pe : SelfMap
  /-- A.mentors ↔ A.mentees: store A linked with itself through two symbols -/
  mt : LinkPair
  deriving Repr

def State.empty : State := ⟨false, false, [], [], .empty, .empty, .empty, [], [], [], [], [], [], [], [], .empty⟩

/-- the entity exists in store A / B / has child-store data -/
def State.aEx (s : State) (j : Id) : Bool := (s.a.lookup j).isSome
def State.bEx (s : State) (j : Id) : Bool := (s.b.lookup j).isSome
def State.cEx (s : State) (j : Id) : Bool := ((s.a.lookup j).bind (·.code)).isSome
def State.xEx (s : State) (j : Id) : Bool := ((s.a.lookup j).bind (·.colour)).isSome

structure ValsA where
  name : Bytes
  alias : Option Bytes
  roles : List Bytes
  owner : Option Bytes
  dep : Option Bytes
  groups : List Id
  boss : Option Bytes
  chief : Option Bytes
  deriving Repr

structure ChkA where
  name : Bool
  alias : Bool
  roles : Bool
  owner : Bool
  dep : Bool
  groups : Bool
  boss : Bool
  chief : Bool
  deriving Repr

inductive Op
  | createA (id : Id) (v : ValsA)
  | updateA (id : Id) (v : ValsA) (chk : Option ChkA)
  /-- `A.DeleteById`, or `A1.DeleteById` which delegates to the parent -/
  | deleteA (id : Id)
  /-- `A1.Create`: parent fields through the parent context, then the child's field and links -/
  | createA1 (id : Id) (v : ValsA) (code : Bytes) (pals : List Id)
  /-- `A2.Create` (extended child store) -/
  | createA2 (id : Id) (v : ValsA) (colour : Bytes)
  /-- `A2.Update`: parent fields and `colour` through the child store; `cc`: the checker selects `colour` -/
  | updateA2 (id : Id) (v : ValsA) (colour : Bytes) (chk : Option ChkA) (cc : Bool)
  | createB (id : Id) (label : Option Bytes)
  /-- `chk`: none = nil checker, some b = checker selecting `label` iff b -/
  | updateB (id : Id) (label : Option Bytes) (chk : Option Bool)
  | deleteB (id : Id)
  | rcInc (a b : Id)
  | rcDec (a b : Id)
  | rcSet (a b : Id) (n : Nat)
  /-- `AddLinks / RemoveLinks / SetLinks` on the collection A.peers ↔ A.peers -/
  | addPeers (id : Id) (ks : List Id)
  | removePeers (id : Id) (ks : List Id)
  | setPeers (id : Id) (ks : List Id)
  /-- `SetLinks` on the collection A.mentors ↔ A.mentees -/
  | setMentors (id : Id) (ks : List Id)
  deriving Repr

def proceed (chk : Option ChkA) (f : ChkA → Bool) : Bool :=
  match chk with
  | none => true
  | some c => f c

/-- the field setters of A's PersistEntity (the link field is handled by `setLinks`) -/
def persistFields (old : EntA) (v : ValsA) (chk : Option ChkA) : EntA :=
  { old with
    name := if proceed chk (·.name) then v.name else old.name
    alias := if proceed chk (·.alias) then v.alias else old.alias
    roles := if proceed chk (·.roles) then setOf v.roles else old.roles
    owner := if proceed chk (·.owner) then v.owner else old.owner
    dep := if proceed chk (·.dep) then v.dep else old.dep
    boss := if proceed chk (·.boss) then v.boss else old.boss
    chief := if proceed chk (·.chief) then v.chief else old.chief }

/-! ### fkIndex A.owner → B.things -/

/-- `getIndexBucket(b)` (GetOrCreatePath on the target entity) then DeleteListEntry / SetListEntry -/
def backrefDel (s : State) (b : Bytes) (id : Id) : Except Err State :=
  match s.b.lookup b with
  | none => .error .notFound
  | some _ => .ok { s with thg := s.thg.insert b (setErase id ((s.thg.lookup b).getD [])) }

def backrefAdd (s : State) (b : Bytes) (id : Id) : Except Err State :=
  match s.b.lookup b with
  | none => .error .notFound
  | some _ => .ok { s with thg := s.thg.insert b (setInsert id ((s.thg.lookup b).getD [])) }

/-- `fkIndex.ProcessAfterUpdate` (nullable) -/
def fkAfter (isCreate : Bool) (old new : Bytes) (id : Id) (s : State) : Except Err State :=
  if !isCreate && old == new then .ok s
  else do
    let s1 ← if old ≠ [] then backrefDel s old id else pure s
    if new ≠ [] then backrefAdd s1 new id else pure s1

/-- `fkIndex.ProcessBeforeDelete`; the back-reference removal is skipped when the target is already
    gone (fix 001d2d2) -/
def fkBeforeDelete (val : Bytes) (id : Id) (s : State) : Except Err State :=
  if val ≠ [] ∧ s.bEx val = true then backrefDel s val id else pure s

/-- `fkConstraint.ProcessAfterUpdate` (nullable): the target must exist; nothing is written -/
def depAfter (isCreate : Bool) (old new : Bytes) (s : State) : Except Err State :=
  if !isCreate && old == new then .ok s
  else if new ≠ [] then (if s.bEx new then .ok s else .error .notFound)
  else .ok s

/-- `fkConstraint.ProcessAfterUpdate` of the self reference A.boss → A (nullable): the target must be
    an entity of store A (the entity being written already is one); nothing is written -/
def bossAfter (isCreate : Bool) (old new : Bytes) (s : State) : Except Err Unit :=
  if !isCreate && old == new then .ok ()
  else if new ≠ [] then (if s.aEx new then .ok () else .error .notFound)
  else .ok ()

/-- the restrict check of `chief` (`fkDeleteCascadeConstraint.ProcessBeforeDelete` with `CascadeNone`):
    any entity whose `chief` is the id — the entity itself included — refuses the delete -/
def chiefCheck (s : State) (id : Id) : Except Err Unit :=
  if s.a.entries.any (fun p => decide (p.2.chief.getD [] = id)) then .error .refExists else .ok ()

/-! ### IndexingContext for A (constraints in registration order: chief (fk constraint, then its
    restrict check), boss (fk constraint, then its cascade), name, alias, roles, owner, dep) -/

structure Captured where
  name : Bytes
  alias : Bytes
  roles : List Bytes
  owner : Bytes
  dep : Bytes
  boss : Bytes
  chief : Bytes

def Captured.none : Captured := ⟨[], [], [], [], [], [], []⟩

def evName : Option EntA → Bytes
  | some e => e.name
  | none => []
def evAlias : Option EntA → Bytes
  | some e => e.alias.getD []
  | none => []
def evRoles : Option EntA → List Bytes
  | some e => e.roles
  | none => []
def evOwner : Option EntA → Bytes
  | some e => e.owner.getD []
  | none => []
def evDep : Option EntA → Bytes
  | some e => e.dep.getD []
  | none => []
def evBoss : Option EntA → Bytes
  | some e => e.boss.getD []
  | none => []
def evChief : Option EntA → Bytes
  | some e => e.chief.getD []
  | none => []
def evCode : Option EntA → Bytes
  | some e => e.code.getD []
  | none => []
def evColour : Option EntA → Bytes
  | some e => e.colour.getD []
  | none => []

def captureA (s : State) (id : Id) : Captured :=
  let e := s.a.lookup id
  ⟨evName e, evAlias e, evRoles e, evOwner e, evDep e, evBoss e, evChief e⟩

def afterUpdateA (isCreate : Bool) (cap : Captured) (s : State) (id : Id) : Except Err State := do
  let e := s.a.lookup id
  let _ ← bossAfter isCreate cap.chief (evChief e) s   -- the same fk-constraint code for `chief`
  let _ ← bossAfter isCreate cap.boss (evBoss e) s
  let un ← uniqueAfter isCreate false cap.name (evName e) id s.uName
  let ua ← uniqueAfter isCreate true cap.alias (evAlias e) id s.uAlias
  let sr ← setAfter cap.roles (evRoles e) id s.sRoles
  let s1 ← fkAfter isCreate cap.owner (evOwner e) id { s with uName := un, uAlias := ua, sRoles := sr }
  depAfter isCreate cap.dep (evDep e) s1

def beforeDeleteA (s : State) (id : Id) : Except Err State := do
  let e := s.a.lookup id
  let un := uniqueBeforeDelete (evName e) s.uName
  let ua := uniqueBeforeDelete (evAlias e) s.uAlias
  let sr ← setBeforeDelete (evRoles e) id s.sRoles
  fkBeforeDelete (evOwner e) id { s with uName := un, uAlias := ua, sRoles := sr }

/-! ### operations -/

/-- `SetLinkedIds("groups", …)` -/
def setGroups (s : State) (id : Id) (req : List Id) : Except Err State := do
  let g ← s.g.setLinks s.bEx id req
  pure { s with g := g }

/-- `SetLinkedIds("pals", …)` on the child store's collection -/
def setPals (s : State) (id : Id) (req : List Id) : Except Err State := do
  let p ← s.p.setLinks s.bEx id req
  pure { s with p := p }

def createA (s : State) (id : Id) (v : ValsA) : Except Err State :=
  if id = [] then .error .other
  else if (s.a.lookup id).isSome then .error .exists
  else do
    let e : EntA := ⟨v.name, v.alias, setOf v.roles, v.owner, v.dep, v.boss, v.chief, none, none⟩
    let s1 := { s with hasA := true, a := s.a.insert id e }
    let s2 ← setGroups s1 id v.groups                      -- an error stops the create
    afterUpdateA true Captured.none s2 id

def updateA (s : State) (id : Id) (v : ValsA) (chk : Option ChkA) : Except Err State :=
  if id = [] then .error .other
  else match s.a.lookup id with
    | none => .error .notFound
    | some old => do
      let cap := captureA s id
      let s1 := { s with a := s.a.insert id (persistFields old v chk) }
      let s2 ← if proceed chk (·.groups) then setGroups s1 id v.groups else pure s1
      afterUpdateA false cap s2 id

/-- `A1.Create`.  Only *child* data is checked for existence.  When the parent entity already
    exists, the parent indexing context's `ProcessBeforeUpdate` runs first (fix 8269ce9), so the
    parent's indexed values are captured and its index entries are replaced; the contexts are
    still create contexts (`IsCreate`), i.e. the equal-value shortcut does not apply. -/
def createA1 (s : State) (id : Id) (v : ValsA) (code : Bytes) (pals : List Id) : Except Err State :=
  if id = [] then .error .other
  else if s.cEx id then .error .exists
  else do
    let cap := if (s.a.lookup id).isSome then captureA s id else Captured.none
    -- data of the other child store stays in the entity bucket
    let e : EntA := ⟨v.name, v.alias, setOf v.roles, v.owner, v.dep, v.boss, v.chief, some code, (s.a.lookup id).bind (·.colour)⟩
    let s1 := { s with hasA := true, a := s.a.insert id e }
    let s2 ← setGroups s1 id v.groups
    let s2' ← setPals s2 id pals
    let s3 ← afterUpdateA true cap s2' id                  -- parent context first
    let uc ← uniqueAfter true false [] code id s3.uCode   -- then the child's own index
    pure { s3 with uCode := uc }

/-- `A2.Create`: like `A1.Create` (only the extended child's own data is checked for existence; over an
    existing parent the parent's indexed values are captured first), then the child's own unique index -/
def createA2 (s : State) (id : Id) (v : ValsA) (colour : Bytes) : Except Err State :=
  if id = [] then .error .other
  else if s.xEx id then .error .exists
  else do
    let cap := if (s.a.lookup id).isSome then captureA s id else Captured.none
    let e : EntA := ⟨v.name, v.alias, setOf v.roles, v.owner, v.dep, v.boss, v.chief, (s.a.lookup id).bind (·.code), some colour⟩
    let s1 := { s with hasA := true, a := s.a.insert id e }
    let s2 ← setGroups s1 id v.groups
    let s3 ← afterUpdateA true cap s2 id                   -- parent context first
    let uc ← uniqueAfter true true [] colour id s3.uColour -- then the child's own index (nullable)
    pure { s3 with uColour := uc }

/-- `SetString("colour", …)` under the checker -/
def newColour (chk : Option ChkA) (cc : Bool) (colour oc : Bytes) : Bytes :=
  if (match chk with | none => true | some _ => cc) then colour else oc

/-- `A2.Update`.  `FindById` of an extended store falls back to the parent's bucket, but the update
    needs the child's own bucket: without `ext2` data it is not-found.  Parent fields are written
    through the parent context under the same checker; parent constraints first, then the child's. -/
def updateA2 (s : State) (id : Id) (v : ValsA) (colour : Bytes) (chk : Option ChkA) (cc : Bool) : Except Err State :=
  if id = [] then .error .other
  else match s.a.lookup id with
    | none => .error .notFound
    | some old => match old.colour with
      | none => .error .notFound
      | some oc => do
        let cap := captureA s id
        let s1 := { s with a := s.a.insert id { persistFields old v chk with colour := some (newColour chk cc colour oc) } }
        let s2 ← if proceed chk (·.groups) then setGroups s1 id v.groups else pure s1
        let s3 ← afterUpdateA false cap s2 id
        let uc ← uniqueAfter false true oc (newColour chk cc colour oc) id s3.uColour
        pure { s3 with uColour := uc }

/-- the rounds of the extended child store and of the parent store, then `DeleteEntity` -/
def deleteA0Tail (s1 : State) (e : EntA) (id : Id) : Except Err State := do
  -- the extended child store: its `FindById` finds the parent entity, so this round always runs
  let tx ← beforeDeleteA s1 id
  let s1x := { tx with uColour := uniqueBeforeDelete (evColour (some e)) tx.uColour }
  -- then the parent's own processDeleteConstraints and cleanupLinks
  let s2 ← beforeDeleteA s1x id
  let s3 := { s2 with g := s2.g.cleanFwd s2.bEx id, rc := s2.rc.cleanFwd s2.bEx id,
                      pe := selfClean s2.pe s2.aEx id, mt := (s2.mt.cleanFwd s2.aEx id).cleanBwd s2.aEx id }
  -- DeleteEntity: the entity bucket with everything in it
  pure { s3 with a := s3.a.erase id, g := { s3.g with fwd := s3.g.fwd.erase id },
                 p := { s3.p with fwd := s3.p.fwd.erase id }, rc := { s3.rc with fwd := s3.rc.fwd.erase id },
                 pe := s3.pe.erase id, mt := { fwd := s3.mt.fwd.erase id, bwd := s3.mt.bwd.erase id } }

/-- `DeleteById` on store A when the cascade loops of `boss` find nothing (left) to delete -/
def deleteA0 (s : State) (id : Id) : Except Err State :=
  if id = [] then .error .notFound
  else match s.a.lookup id with
    | none => .error .notFound
    | some e => do
      -- child store first: its indexing context runs the parent's constraints, then its own, then
      -- the child store's cleanupLinks
      let s1 ← if e.code.isSome then (do
          let t ← beforeDeleteA s id
          pure { t with uCode := uniqueBeforeDelete (evCode (some e)) t.uCode, p := t.p.cleanFwd t.bEx id })
        else pure s
      deleteA0Tail s1 e id

/-! ### the cascading delete of `boss` referrers (`fkDeleteCascadeConstraint.ProcessBeforeDelete`) -/

/-- the entities whose `boss` is the id, in key order (`IterateValidIds` with the referrer filter) -/
def minions (s : State) (id : Id) : List Id :=
  setOf ((s.a.entries.filter (fun p => decide (p.2.boss.getD [] = id))).map (·.1))

/-- the cursor loop: a referrer whose own cascading delete is in progress is skipped (fix bda5470);
    the cursor is re-positioned with `Seek` after every delete, so a referrer that is gone by the
    time its turn comes is not visited; an error stops the loop -/
def cascadeLoop (del : State → Id → Except Err State) (busy : List Id) : List Id → State → Except Err State
  | [], s => .ok s
  | j :: rest, s =>
    if busy.contains j || !s.aEx j then cascadeLoop del busy rest s
    else match del s j with
      | .ok s' => cascadeLoop del busy rest s'
      | .error e => .error e

/-- the in-progress set while the referrers of `id` are cascaded (`inProgress[self]`, removed again
    by the deferred `delete` unless the call is nested in a delete of the same id) -/
def markBusy (busy : List Id) (id : Id) : List Id := if busy.contains id then busy else id :: busy

def cascadeBoss (del : List Id → State → Id → Except Err State) (busy : List Id) (s : State) (id : Id) :
    Except Err State :=
  cascadeLoop (del (markBusy busy id)) (markBusy busy id) (minions s id) s

/-- `A.DeleteById` (also reached from `A1.DeleteById` and from the cascades).  `busy`: the ids whose
    cascading delete is in progress in this mutate context.  The recursion is bounded by `fuel`
    (every nested call adds an existing entity to `busy`); running out of it is the stack overflow
    of the code before fix bda5470 and is reported as `panic`. -/
def deleteA : Nat → List Id → State → Id → Except Err State
  | 0, _, _, _ => .error .panic
  | fuel + 1, busy, s, id =>
    if id = [] then .error .notFound
    else match s.a.lookup id with
      | none => .error .notFound
      | some e => do
        -- child store first: its indexing context runs the parent's constraints (the cascade of
        -- `boss` referrers is the first of them to act), then its own, then the child store's cleanupLinks
        let s1 ← if e.code.isSome then (do
            let _ ← chiefCheck s id
            let t0 ← cascadeBoss (deleteA fuel) busy s id
            let t ← beforeDeleteA t0 id
            pure { t with uCode := uniqueBeforeDelete (evCode (some e)) t.uCode, p := t.p.cleanFwd t.bEx id })
          else pure s
        -- the extended child store: its `FindById` finds the parent entity, so this round always runs
        let _ ← chiefCheck s1 id
        let tx0 ← cascadeBoss (deleteA fuel) busy s1 id
        let tx ← beforeDeleteA tx0 id
        let s1x := { tx with uColour := uniqueBeforeDelete (evColour (some e)) tx.uColour }
        -- then the parent's own processDeleteConstraints and cleanupLinks
        let _ ← chiefCheck s1x id
        let s1' ← cascadeBoss (deleteA fuel) busy s1x id
        let s2 ← beforeDeleteA s1' id
        let s3 := { s2 with g := s2.g.cleanFwd s2.bEx id, rc := s2.rc.cleanFwd s2.bEx id,
                            pe := selfClean s2.pe s2.aEx id, mt := (s2.mt.cleanFwd s2.aEx id).cleanBwd s2.aEx id }
        -- DeleteEntity: the entity bucket with everything in it
        pure { s3 with a := s3.a.erase id, g := { s3.g with fwd := s3.g.fwd.erase id },
                       p := { s3.p with fwd := s3.p.fwd.erase id }, rc := { s3.rc with fwd := s3.rc.fwd.erase id },
                       pe := s3.pe.erase id, mt := { fwd := s3.mt.fwd.erase id, bwd := s3.mt.bwd.erase id } }

/-- a delete issued by the caller: nothing is in progress; the fuel covers every entity -/
def deleteATop (s : State) (id : Id) : Except Err State := deleteA (s.a.length + 1) [] s id

/-- the cursor loop of `dep`'s cascade on store B: a dependant that an earlier iteration's own
    cascade (through `boss`) already removed is not visited any more -/
def deleteAll : List Id → State → Except Err State
  | [], s => .ok s
  | id :: rest, s =>
    if !s.aEx id then deleteAll rest s
    else match deleteATop s id with
      | .ok s' => deleteAll rest s'
      | .error e => .error e

def createB (s : State) (id : Id) (label : Option Bytes) : Except Err State :=
  if id = [] then .error .other
  else if (s.b.lookup id).isSome then .error .exists
  else do
    let ul ← uniqueAfter true true [] (label.getD []) id s.uLabel
    pure { s with hasB := true, b := s.b.insert id ⟨label⟩, uLabel := ul }

def updateB (s : State) (id : Id) (label : Option Bytes) (chk : Option Bool) : Except Err State :=
  if id = [] then .error .other
  else match s.b.lookup id with
    | none => .error .notFound
    | some old => do
      let new : EntB := if chk.getD true then ⟨label⟩ else old
      let ul ← uniqueAfter false true (old.label.getD []) (new.label.getD []) id s.uLabel
      pure { s with b := s.b.insert id new, uLabel := ul }

/-- the referrers a cascading delete removes: the A entities whose `dep` is the id, in key order -/
def dependants (s : State) (id : Id) : List Id :=
  setOf ((s.a.entries.filter (fun p => decide (p.2.dep.getD [] = id))).map (·.1))

def deleteB (s : State) (id : Id) : Except Err State :=
  if id = [] then .error .notFound
  else match s.b.lookup id with
    | none => .error .notFound
    | some e =>
      let ul := uniqueBeforeDelete (e.label.getD []) s.uLabel
      -- fkDeleteConstraint: still referenced through `owner` → refused
      if (s.thg.lookup id).getD [] ≠ [] then .error .refExists
      else do
        -- fkDeleteCascadeConstraint: every dependant is deleted through its own store
        let s1 ← deleteAll (dependants s id) { s with uLabel := ul }
        -- cleanupLinks: members, palsOf, rcA
        let s2 := { s1 with g := s1.g.cleanBwd s1.aEx id, p := s1.p.cleanBwd s1.cEx id, rc := s1.rc.cleanBwd s1.aEx id }
        pure { s2 with b := s2.b.erase id, thg := s2.thg.erase id, g := { s2.g with bwd := s2.g.bwd.erase id },
                       p := { s2.p with bwd := s2.p.bwd.erase id }, rc := { s2.rc with bwd := s2.rc.bwd.erase id } }

def rcOp (s : State) (f : RcPair → Except Err RcPair) : Except Err State := do
  let r ← f s.rc
  pure { s with rc := r }

def peersOp (s : State) (f : SelfMap → Except Err SelfMap) : Except Err State := do
  let m ← f s.pe
  pure { s with pe := m }

/-- `SetLinks` on A.mentors (the owner must exist: `getFieldBucket`) -/
def setMentors (s : State) (id : Id) (ks : List Id) : Except Err State :=
  if !s.aEx id then .error .other
  else do
    let m ← s.mt.setLinks s.aEx id ks
    pure { s with mt := m }

def stepRaw (s : State) : Op → Except Err State
  | .createA id v => createA s id v
  | .updateA id v chk => updateA s id v chk
  | .deleteA id => deleteATop s id
  | .createA1 id v code pals => createA1 s id v code pals
  | .createA2 id v colour => createA2 s id v colour
  | .updateA2 id v colour chk cc => updateA2 s id v colour chk cc
  | .createB id l => createB s id l
  | .updateB id l chk => updateB s id l chk
  | .deleteB id => deleteB s id
  | .rcInc a b => rcOp s (fun r => r.inc s.aEx s.bEx a b)
  | .rcDec a b => rcOp s (fun r => r.dec s.aEx s.bEx a b)
  | .rcSet a b n => rcOp s (fun r => r.set s.aEx s.bEx a b n)
  | .addPeers id ks => peersOp s (fun m => selfAdd m s.aEx id ks)
  | .removePeers id ks => peersOp s (fun m => selfRemove m s.aEx id ks)
  | .setPeers id ks => peersOp s (fun m => selfSet m s.aEx id ks)
  | .setMentors id ks => setMentors s id ks

def applyOps : State → List Op → Nat → Except (Nat × Err) State
  | s, [], _ => .ok s
  | s, op :: rest, i =>
    match stepRaw s op with
    | .ok s' => applyOps s' rest (i + 1)
    | .error e => .error (i, e)

inductive Res
  | ok
  | err (e : Err)
  deriving DecidableEq, Repr

def txStep (s : State) (ops : List Op) : State × Res :=
  match applyOps s ops 0 with
  | .ok s' => (s', .ok)
  | .error (_, e) => (s, .err e)

def step (s : State) (op : Op) : State × Res := txStep s [op]

def run (txs : List (List Op)) : State := txs.foldl (fun s ops => (txStep s ops).1) State.empty

/-! ### Render -/

def bOwners : Bytes := [111, 119, 110, 101, 114, 115]
def bOwner : Bytes := [111, 119, 110, 101, 114]
def bDep : Bytes := [100, 101, 112]
def bBoss : Bytes := [98, 111, 115, 115]
def bChief : Bytes := [99, 104, 105, 101, 102]
def bGroups : Bytes := [103, 114, 111, 117, 112, 115]
def bExt1 : Bytes := [101, 120, 116, 49]
def bCode : Bytes := [99, 111, 100, 101]
def bExt2 : Bytes := [101, 120, 116, 50]
def bColour : Bytes := [99, 111, 108, 111, 117, 114]
def bLabel : Bytes := [108, 97, 98, 101, 108]
def bMembers : Bytes := [109, 101, 109, 98, 101, 114, 115]
def bPals : Bytes := [112, 97, 108, 115]
def bPalsOf : Bytes := [112, 97, 108, 115, 79, 102]
def bRcB : Bytes := [114, 99, 66]
def bRcA : Bytes := [114, 99, 65]
def bPeers : Bytes := [112, 101, 101, 114, 115]
def bMentors : Bytes := [109, 101, 110, 116, 111, 114, 115]
def bMentees : Bytes := [109, 101, 110, 116, 101, 101, 115]

/-- naming variant of the schema.  For the two string fields of A that carry a unique index: the
    symbol's name (`symbol.GetName()`, last element of the index path) and the key the entity strategy
    stores the value under (`AddSymbolWithKey`).  The third name of a field — the one the caller's
    `FieldChecker` knows it by (`PersistContext.WithFieldOverrides`) — does not reach the model: an
    update's checker is given as "which stored fields proceed" (`ChkA`), the harness translates. -/
structure Names where
  nameSym : Bytes
  nameKey : Bytes
  aliasSym : Bytes
  aliasKey : Bytes
  /-- the `FieldType` byte the entity strategy stores `alias` / `code` / `colour` / `label` with
      (`SetString` 5, `SetInt64` 3, `SetInt32` 2, `SetFloat64` 4, …): the symbol's node type.  A field's
      value in the model is its *raw stored bytes* (what `symbol.Eval` returns: the stored value without
      the type byte); every unique index is keyed by exactly these bytes (`uniqueIndex.ProcessAfterUpdate`
      puts, `ProcessBeforeDelete` deletes under `Eval`'s bytes — the index code never looks at the type),
      so the four unique indexes over these fields are indexes over symbols of any scalar type. -/
  aliasTy : UInt8 := 5
  codeTy : UInt8 := 5
  colourTy : UInt8 := 5
  labelTy : UInt8 := 5
  deriving Repr

/-- symbol = key = `name` / `alias` -/
def Names.std : Names := { nameSym := bName, nameKey := bName, aliasSym := bAlias, aliasKey := bAlias }
/-- symbols `title` / `nick`, keys `nm` / `aka` -/
def Names.alt : Names :=
  { nameSym := [116, 105, 116, 108, 101], nameKey := [110, 109], aliasSym := [110, 105, 99, 107], aliasKey := [97, 107, 97] }
/-- the typed variant: `alias` an int64 symbol, `code` int32, `colour` float64, `label` int32 — unique
    indexes over non-string symbols (keys = the little-endian encodings, 8 / 4 / 8 / 4 bytes) -/
def Names.typedV : Names := { Names.std with aliasTy := 3, codeTy := 2, colourTy := 4, labelTy := 2 }

/-- every bucket / field name of the schema -/
def reserved (nm : Names) : List Bytes :=
  [bU, bIndexes, bThings, bOwners, nm.nameSym, nm.nameKey, nm.aliasSym, nm.aliasKey, bRoles, bOwner, bDep, bBoss, bChief, bGroups, bExt1, bCode, bExt2, bColour, bLabel, bMembers,
   bPals, bPalsOf, bRcB, bRcA, bPeers, bMentors, bMentees]

def idxPathA (field : Bytes) : List Bytes := [bU, bIndexes, bThings, field]
def idxPathB (field : Bytes) : List Bytes := [bU, bIndexes, bOwners, field]
def pathA (id : Id) : List Bytes := [bU, bThings, id]
def pathB (id : Id) : List Bytes := [bU, bOwners, id]

def optField : Option Bytes → Bytes
  | none => nilField
  | some v => typed v

/-- `PrependFieldType(t, v)`: the stored form of a field of type `t` with raw bytes `v` -/
def tagged (t : UInt8) (v : Bytes) : Bytes := t :: v

/-- a nullable field of type `t` -/
def optFieldT (t : UInt8) : Option Bytes → Bytes
  | none => nilField
  | some v => tagged t v

/-- little-endian fixed-width form of a short byte string (`SetInt64` / `SetInt32` / `SetFloat64` of the
    number whose little-endian digits are `v`): how the typed schema variant turns a case's value into
    the raw stored bytes -/
def padTo (n : Nat) (v : Bytes) : Bytes := v ++ List.replicate (n - v.length) 0

/-- `Int32ToBytes`: type byte 2 and four little-endian bytes -/
def encCount (n : Nat) : Bytes :=
  [2, UInt8.ofNat (n % 256), UInt8.ofNat (n / 256 % 256), UInt8.ofNat (n / 65536 % 256), UInt8.ofNat (n / 16777216 % 256)]

/-- a bucket whose keys are typed ids / typed values with empty values -/
def listBucket (path : List Bytes) (keys : List Bytes) : List Line :=
  .bucket path :: keys.map (fun k => .kv path (typed k) [])

/-- a ref-count bucket: typed id → encoded count -/
def countBucket (path : List Bytes) (c : Counts) : List Line :=
  .bucket path :: c.entries.map (fun kv => .kv path (typed kv.1) (encCount kv.2))

def optBucket {α : Type} (f : α → List Line) : Option α → List Line
  | some x => f x
  | none => []

def renderA (nm : Names) (s : State) (p : Id × EntA) : List Line :=
  [ .bucket (pathA p.1),
    .kv (pathA p.1) nm.nameKey (typed p.2.name),
    .kv (pathA p.1) nm.aliasKey (optFieldT nm.aliasTy p.2.alias),
    .kv (pathA p.1) bOwner (optField p.2.owner),
    .kv (pathA p.1) bDep (optField p.2.dep),
    .kv (pathA p.1) bBoss (optField p.2.boss),
    .kv (pathA p.1) bChief (optField p.2.chief) ] ++
  listBucket (pathA p.1 ++ [bRoles]) p.2.roles ++
  optBucket (listBucket (pathA p.1 ++ [bGroups])) (s.g.fwd.lookup p.1) ++
  optBucket (countBucket (pathA p.1 ++ [bRcB])) (s.rc.fwd.lookup p.1) ++
  optBucket (listBucket (pathA p.1 ++ [bPeers])) (s.pe.lookup p.1) ++
  optBucket (listBucket (pathA p.1 ++ [bMentors])) (s.mt.fwd.lookup p.1) ++
  optBucket (listBucket (pathA p.1 ++ [bMentees])) (s.mt.bwd.lookup p.1) ++
  (match p.2.code with
   | some c => [ .bucket (pathA p.1 ++ [bExt1]), .kv (pathA p.1 ++ [bExt1]) bCode (tagged nm.codeTy c) ] ++
               optBucket (listBucket (pathA p.1 ++ [bExt1, bPals])) (s.p.fwd.lookup p.1)
   | none => []) ++
  (match p.2.colour with
   | some c => [ .bucket (pathA p.1 ++ [bExt2]), .kv (pathA p.1 ++ [bExt2]) bColour (tagged nm.colourTy c) ]
   | none => [])

def renderB (nm : Names) (s : State) (p : Id × EntB) : List Line :=
  [ .bucket (pathB p.1), .kv (pathB p.1) bLabel (optFieldT nm.labelTy p.2.label) ] ++
  optBucket (listBucket (pathB p.1 ++ [bMembers])) (s.g.bwd.lookup p.1) ++
  optBucket (listBucket (pathB p.1 ++ [bPalsOf])) (s.p.bwd.lookup p.1) ++
  optBucket (countBucket (pathB p.1 ++ [bRcA])) (s.rc.bwd.lookup p.1) ++
  optBucket (listBucket (pathB p.1 ++ [bThings])) (s.thg.lookup p.1)

def renderUnique (path : List Bytes) (p : Bytes × Id) : List Line := [ .kv path p.1 p.2 ]

def renderSetKey (path : List Bytes) (p : Bytes × List Id) : List Line := listBucket (path ++ [p.1]) p.2

def fixedLines (nm : Names) : List Line :=
  [ .bucket [bU], .bucket [bU, bIndexes], .bucket [bU, bIndexes, bThings], .bucket [bU, bIndexes, bOwners],
    .bucket (idxPathA nm.nameSym), .bucket (idxPathA nm.aliasSym), .bucket (idxPathA bRoles), .bucket (idxPathA bCode),
    .bucket (idxPathA bColour), .bucket (idxPathB bLabel) ]

def Render (nm : Names) (s : State) : List Line :=
  fixedLines nm ++
  (if s.hasA then [Line.bucket [bU, bThings]] else []) ++
  (if s.hasB then [Line.bucket [bU, bOwners]] else []) ++
  s.a.entries.flatMap (renderA nm s) ++
  s.b.entries.flatMap (renderB nm s) ++
  s.uName.entries.flatMap (renderUnique (idxPathA nm.nameSym)) ++
  s.uAlias.entries.flatMap (renderUnique (idxPathA nm.aliasSym)) ++
  s.uCode.entries.flatMap (renderUnique (idxPathA bCode)) ++
  s.uColour.entries.flatMap (renderUnique (idxPathA bColour)) ++
  s.uLabel.entries.flatMap (renderUnique (idxPathB bLabel)) ++
  s.sRoles.entries.flatMap (renderSetKey (idxPathA bRoles))

/-- the id occurs in a dump line: as a path element, key or value, plain or with the string type
    byte in front (the notion of `boltz.ValidateDeleted`, extended to path elements) -/
def Mentions (id : Id) : Line → Prop
  | .bucket path => id ∈ path ∨ typed id ∈ path
  | .kv path key val => id ∈ path ∨ typed id ∈ path ∨ key = id ∨ key = typed id ∨ val = id ∨ val = typed id

instance (id : Id) (l : Line) : Decidable (Mentions id l) := by
  cases l <;> unfold Mentions <;> exact inferInstance

end StorageModel.C06
