import StorageModel.C03.Model
/-
  C06 engine model: the universe that combines every index / constraint / link kind with
  parent / child layering (see /verif/harness/c06.go for the wiring):

    store A "things":  name (unique), alias (nullable unique), roles (set index),
                       owner (nullable fk index → B.things), groups (link collection ↔ B.members)
    store A1:          plain child of A (`ext1`), code (unique, non-nullable)
    store B "owners":  label (nullable unique), things (back-references), members (links)

  Follows boltz/store_crud.go (Create / Update / DeleteById / processDeleteConstraints /
  cleanupLinks), boltz/indexes.go (uniqueIndex, setIndex, fkIndex, fkDeleteConstraint) and
  boltz/link_collection.go.  Unique / set index steps are the ones of the C03 model.

  Every bucket is an explicit map.  Link buckets and back-reference buckets are kept in maps of
  their own (`grp`, `mem`, `thg`) keyed by the owning entity's id; `lookup = none` means the
  bucket does not exist.
-/
namespace StorageModel.C06
open StorageModel
open StorageModel.C03 (Map Id Err setInsert setErase setOf uniqueAfter uniqueBeforeDelete setAfter setBeforeDelete
  Line typed nilField bU bIndexes bThings bName bAlias bRoles)

/-- an A entity's own fields (`u/things/<id>`), plus the child-store data -/
structure EntA where
  name : Bytes
  alias : Option Bytes
  roles : List Bytes
  owner : Option Bytes
  /-- `ext1/code` (`none`: the entity has no child-store data) -/
  code : Option Bytes
  deriving DecidableEq, Repr

structure EntB where
  label : Option Bytes
  deriving DecidableEq, Repr

structure State where
  hasA : Bool
  hasB : Bool
  a : Map Id EntA
  b : Map Id EntB
  /-- A id → keys of its `groups` bucket -/
  grp : Map Id (List Id)
  /-- B id → keys of its `members` bucket -/
  mem : Map Id (List Id)
  /-- B id → keys of its `things` bucket (back-references of A.owner) -/
  thg : Map Id (List Id)
  uName : Map Bytes Id
  uAlias : Map Bytes Id
  uCode : Map Bytes Id
  uLabel : Map Bytes Id
  sRoles : Map Bytes (List Id)
  deriving Repr

def State.empty : State := ⟨false, false, [], [], [], [], [], [], [], [], [], []⟩

structure ValsA where
  name : Bytes
  alias : Option Bytes
  roles : List Bytes
  owner : Option Bytes
  groups : List Id
  deriving Repr

structure ChkA where
  name : Bool
  alias : Bool
  roles : Bool
  owner : Bool
  groups : Bool
  deriving Repr

inductive Op
  | createA (id : Id) (v : ValsA)
  | updateA (id : Id) (v : ValsA) (chk : Option ChkA)
  /-- `A.DeleteById`, or `A1.DeleteById` which delegates to the parent -/
  | deleteA (id : Id)
  /-- `A1.Create`: parent fields through the parent context, then the child field -/
  | createA1 (id : Id) (v : ValsA) (code : Bytes)
  | createB (id : Id) (label : Option Bytes)
  /-- `chk`: none = nil checker, some b = checker selecting `label` iff b -/
  | updateB (id : Id) (label : Option Bytes) (chk : Option Bool)
  | deleteB (id : Id)
  deriving Repr

def proceed (chk : Option ChkA) (f : ChkA → Bool) : Bool :=
  match chk with
  | none => true
  | some c => f c

/-- the field setters of A's PersistEntity (the link field is handled by `setLinks`) -/
def persistFields (old : EntA) (v : ValsA) (chk : Option ChkA) : EntA :=
  { old with
    name := if proceed chk (·.name) then v.name else old.name
    alias := if proceed chk (·.alias) then v.alias else old.alias
    roles := if proceed chk (·.roles) then setOf v.roles else old.roles
    owner := if proceed chk (·.owner) then v.owner else old.owner }

/-! ### link collection A.groups ↔ B.members -/

/-- `unlink`: local `DeleteListEntry`, then `otherField.RemoveLink` (silently nothing when the
    other entity or its bucket is missing) -/
def unlinkAB (s : State) (a b : Id) : State :=
  let s1 := { s with grp := s.grp.insert a (setErase b ((s.grp.lookup a).getD [])) }
  match s1.b.lookup b, s1.mem.lookup b with
  | some _, some ms => { s1 with mem := s1.mem.insert b (setErase a ms) }
  | _, _ => s1

/-- `link`: local `SetListEntry`, then `otherField.AddLink` (not-found when the other entity is missing) -/
def linkAB (s : State) (a b : Id) : Except Err State :=
  let s1 := { s with grp := s.grp.insert a (setInsert b ((s.grp.lookup a).getD [])) }
  match s1.b.lookup b with
  | none => .error .notFound
  | some _ => .ok { s1 with mem := s1.mem.insert b (setInsert a ((s1.mem.lookup b).getD [])) }

def linkAll (a : Id) : List Id → State → Except Err State
  | [], s => .ok s
  | b :: rest, s => match linkAB s a b with
    | .ok s' => linkAll a rest s'
    | .error e => .error e

/-- `SetLinks` by its effect: entries not requested are removed, requested ones not yet present
    are added (removals first); the sorted-merge loop itself is C05's subject -/
def setLinks (s : State) (a : Id) (req : List Id) : Except Err State :=
  let cur := (s.grp.lookup a).getD []
  let want := setOf req
  let toRemove := cur.filter (fun k => !want.contains k)
  let toAdd := want.filter (fun k => !cur.contains k)
  -- getFieldBucket creates the `groups` bucket
  let s0 := { s with grp := s.grp.insert a cur }
  linkAll a toAdd (toRemove.foldl (fun s k => unlinkAB s a k) s0)

/-! ### fkIndex A.owner → B.things -/

/-- `getIndexBucket(b)` (GetOrCreatePath on the target entity) then DeleteListEntry / SetListEntry -/
def backrefDel (s : State) (b : Bytes) (id : Id) : Except Err State :=
  match s.b.lookup b with
  | none => .error .notFound
  | some _ => .ok { s with thg := s.thg.insert b (setErase id ((s.thg.lookup b).getD [])) }

def backrefAdd (s : State) (b : Bytes) (id : Id) : Except Err State :=
  match s.b.lookup b with
  | none => .error .notFound
  | some _ => .ok { s with thg := s.thg.insert b (setInsert id ((s.thg.lookup b).getD [])) }

/-- `fkIndex.ProcessAfterUpdate` (nullable) -/
def fkAfter (isCreate : Bool) (old new : Bytes) (id : Id) (s : State) : Except Err State :=
  if !isCreate && old == new then .ok s
  else do
    let s1 ← if old ≠ [] then backrefDel s old id else pure s
    if new ≠ [] then backrefAdd s1 new id else pure s1

/-- `fkIndex.ProcessBeforeDelete` -/
def fkBeforeDelete (val : Bytes) (id : Id) (s : State) : Except Err State :=
  if val ≠ [] then backrefDel s val id else pure s

/-! ### IndexingContext for A (constraints in registration order: name, alias, roles, owner) -/

structure Captured where
  name : Bytes
  alias : Bytes
  roles : List Bytes
  owner : Bytes

def Captured.none : Captured := ⟨[], [], [], []⟩

def evName : Option EntA → Bytes
  | some e => e.name
  | none => []
def evAlias : Option EntA → Bytes
  | some e => e.alias.getD []
  | none => []
def evRoles : Option EntA → List Bytes
  | some e => e.roles
  | none => []
def evOwner : Option EntA → Bytes
  | some e => e.owner.getD []
  | none => []
def evCode : Option EntA → Bytes
  | some e => e.code.getD []
  | none => []

def captureA (s : State) (id : Id) : Captured :=
  let e := s.a.lookup id
  ⟨evName e, evAlias e, evRoles e, evOwner e⟩

def afterUpdateA (isCreate : Bool) (cap : Captured) (s : State) (id : Id) : Except Err State := do
  let e := s.a.lookup id
  let un ← uniqueAfter isCreate false cap.name (evName e) id s.uName
  let ua ← uniqueAfter isCreate true cap.alias (evAlias e) id s.uAlias
  let sr ← setAfter cap.roles (evRoles e) id s.sRoles
  fkAfter isCreate cap.owner (evOwner e) id { s with uName := un, uAlias := ua, sRoles := sr }

def beforeDeleteA (s : State) (id : Id) : Except Err State := do
  let e := s.a.lookup id
  let un := uniqueBeforeDelete (evName e) s.uName
  let ua := uniqueBeforeDelete (evAlias e) s.uAlias
  let sr ← setBeforeDelete (evRoles e) id s.sRoles
  fkBeforeDelete (evOwner e) id { s with uName := un, uAlias := ua, sRoles := sr }

/-! ### operations -/

def createA (s : State) (id : Id) (v : ValsA) : Except Err State :=
  if id = [] then .error .other
  else if (s.a.lookup id).isSome then .error .exists
  else do
    let e : EntA := ⟨v.name, v.alias, setOf v.roles, v.owner, none⟩
    let s1 := { s with hasA := true, a := s.a.insert id e }
    let s2 ← setLinks s1 id v.groups                       -- SetLinkedIds; an error stops the create
    afterUpdateA true Captured.none s2 id

def updateA (s : State) (id : Id) (v : ValsA) (chk : Option ChkA) : Except Err State :=
  if id = [] then .error .other
  else match s.a.lookup id with
    | none => .error .notFound
    | some old => do
      let cap := captureA s id
      let s1 := { s with a := s.a.insert id (persistFields old v chk) }
      let s2 ← if proceed chk (·.groups) then setLinks s1 id v.groups else pure s1
      afterUpdateA false cap s2 id

/-- `A1.Create`.  Only *child* data is checked for existence.  When the parent entity already
    exists, the parent indexing context's `ProcessBeforeUpdate` runs first (fix 8269ce9), so the
    parent's indexed values are captured and its index entries are replaced; the contexts are
    still create contexts (`IsCreate`), i.e. the equal-value shortcut does not apply. -/
def createA1 (s : State) (id : Id) (v : ValsA) (code : Bytes) : Except Err State :=
  if id = [] then .error .other
  else if ((s.a.lookup id).bind (·.code)).isSome then .error .exists
  else do
    let cap := if (s.a.lookup id).isSome then captureA s id else Captured.none
    let e : EntA := ⟨v.name, v.alias, setOf v.roles, v.owner, some code⟩
    let s1 := { s with hasA := true, a := s.a.insert id e }
    let s2 ← setLinks s1 id v.groups
    let s3 ← afterUpdateA true cap s2 id                   -- parent context first
    let uc ← uniqueAfter true false [] code id s3.uCode   -- then the child's own index
    pure { s3 with uCode := uc }

/-- `EntityDeleted` of A.groups: the other side of every link is removed; the local bucket goes
    with the entity -/
def cleanupLinksA (s : State) (id : Id) : State :=
  ((s.grp.lookup id).getD []).foldl (fun s b =>
    match s.b.lookup b, s.mem.lookup b with
    | some _, some ms => { s with mem := s.mem.insert b (setErase id ms) }
    | _, _ => s) s

def deleteA (s : State) (id : Id) : Except Err State :=
  if id = [] then .error .notFound
  else match s.a.lookup id with
    | none => .error .notFound
    | some e => do
      -- child store first: its indexing context runs the parent's constraints, then its own
      let s1 ← if e.code.isSome then (do
          let t ← beforeDeleteA s id
          pure { t with uCode := uniqueBeforeDelete (evCode (some e)) t.uCode })
        else pure s
      -- then the parent's own processDeleteConstraints
      let s2 ← beforeDeleteA s1 id
      let s3 := cleanupLinksA s2 id
      -- DeleteEntity: the entity bucket with everything in it
      pure { s3 with a := s3.a.erase id, grp := s3.grp.erase id }

def createB (s : State) (id : Id) (label : Option Bytes) : Except Err State :=
  if id = [] then .error .other
  else if (s.b.lookup id).isSome then .error .exists
  else do
    let ul ← uniqueAfter true true [] (label.getD []) id s.uLabel
    pure { s with hasB := true, b := s.b.insert id ⟨label⟩, uLabel := ul }

def updateB (s : State) (id : Id) (label : Option Bytes) (chk : Option Bool) : Except Err State :=
  if id = [] then .error .other
  else match s.b.lookup id with
    | none => .error .notFound
    | some old => do
      let new : EntB := if chk.getD true then ⟨label⟩ else old
      let ul ← uniqueAfter false true (old.label.getD []) (new.label.getD []) id s.uLabel
      pure { s with b := s.b.insert id new, uLabel := ul }

/-- `EntityDeleted` of B.members: every member's `groups` entry is removed -/
def cleanupLinksB (s : State) (id : Id) : State :=
  ((s.mem.lookup id).getD []).foldl (fun s a =>
    match s.a.lookup a, s.grp.lookup a with
    | some _, some gs => { s with grp := s.grp.insert a (setErase id gs) }
    | _, _ => s) s

def deleteB (s : State) (id : Id) : Except Err State :=
  if id = [] then .error .notFound
  else match s.b.lookup id with
    | none => .error .notFound
    | some e =>
      let ul := uniqueBeforeDelete (e.label.getD []) s.uLabel
      -- fkDeleteConstraint: still referenced → refused
      if (s.thg.lookup id).getD [] ≠ [] then .error .refExists
      else
        let s1 := cleanupLinksB { s with uLabel := ul } id
        .ok { s1 with b := s1.b.erase id, mem := s1.mem.erase id, thg := s1.thg.erase id }

def stepRaw (s : State) : Op → Except Err State
  | .createA id v => createA s id v
  | .updateA id v chk => updateA s id v chk
  | .deleteA id => deleteA s id
  | .createA1 id v code => createA1 s id v code
  | .createB id l => createB s id l
  | .updateB id l chk => updateB s id l chk
  | .deleteB id => deleteB s id

def applyOps : State → List Op → Nat → Except (Nat × Err) State
  | s, [], _ => .ok s
  | s, op :: rest, i =>
    match stepRaw s op with
    | .ok s' => applyOps s' rest (i + 1)
    | .error e => .error (i, e)

inductive Res
  | ok
  | err (e : Err)
  deriving DecidableEq, Repr

def txStep (s : State) (ops : List Op) : State × Res :=
  match applyOps s ops 0 with
  | .ok s' => (s', .ok)
  | .error (_, e) => (s, .err e)

def step (s : State) (op : Op) : State × Res := txStep s [op]

def run (txs : List (List Op)) : State := txs.foldl (fun s ops => (txStep s ops).1) State.empty

/-! ### Render -/

def bOwners : Bytes := [111, 119, 110, 101, 114, 115]
def bOwner : Bytes := [111, 119, 110, 101, 114]
def bGroups : Bytes := [103, 114, 111, 117, 112, 115]
def bExt1 : Bytes := [101, 120, 116, 49]
def bCode : Bytes := [99, 111, 100, 101]
def bLabel : Bytes := [108, 97, 98, 101, 108]
def bMembers : Bytes := [109, 101, 109, 98, 101, 114, 115]

/-- every bucket / field name of the schema -/
def reserved : List Bytes :=
  [bU, bIndexes, bThings, bOwners, bName, bAlias, bRoles, bOwner, bGroups, bExt1, bCode, bLabel, bMembers]

def idxPathA (field : Bytes) : List Bytes := [bU, bIndexes, bThings, field]
def idxPathB (field : Bytes) : List Bytes := [bU, bIndexes, bOwners, field]
def pathA (id : Id) : List Bytes := [bU, bThings, id]
def pathB (id : Id) : List Bytes := [bU, bOwners, id]

def optField : Option Bytes → Bytes
  | none => nilField
  | some v => typed v

/-- a bucket whose keys are typed ids / typed values with empty values -/
def listBucket (path : List Bytes) (keys : List Bytes) : List Line :=
  .bucket path :: keys.map (fun k => .kv path (typed k) [])

def renderA (grp : Map Id (List Id)) (p : Id × EntA) : List Line :=
  [ .bucket (pathA p.1),
    .kv (pathA p.1) bName (typed p.2.name),
    .kv (pathA p.1) bAlias (optField p.2.alias),
    .kv (pathA p.1) bOwner (optField p.2.owner) ] ++
  listBucket (pathA p.1 ++ [bRoles]) p.2.roles ++
  (match grp.lookup p.1 with
   | some gs => listBucket (pathA p.1 ++ [bGroups]) gs
   | none => []) ++
  (match p.2.code with
   | some c => [ .bucket (pathA p.1 ++ [bExt1]), .kv (pathA p.1 ++ [bExt1]) bCode (typed c) ]
   | none => [])

def renderB (mem thg : Map Id (List Id)) (p : Id × EntB) : List Line :=
  [ .bucket (pathB p.1), .kv (pathB p.1) bLabel (optField p.2.label) ] ++
  (match mem.lookup p.1 with
   | some ms => listBucket (pathB p.1 ++ [bMembers]) ms
   | none => []) ++
  (match thg.lookup p.1 with
   | some ts => listBucket (pathB p.1 ++ [bThings]) ts
   | none => [])

def renderUnique (path : List Bytes) (p : Bytes × Id) : List Line := [ .kv path p.1 p.2 ]

def renderSetKey (path : List Bytes) (p : Bytes × List Id) : List Line := listBucket (path ++ [p.1]) p.2

def fixedLines : List Line :=
  [ .bucket [bU], .bucket [bU, bIndexes], .bucket [bU, bIndexes, bThings], .bucket [bU, bIndexes, bOwners],
    .bucket (idxPathA bName), .bucket (idxPathA bAlias), .bucket (idxPathA bRoles), .bucket (idxPathA bCode),
    .bucket (idxPathB bLabel) ]

def Render (s : State) : List Line :=
  fixedLines ++
  (if s.hasA then [Line.bucket [bU, bThings]] else []) ++
  (if s.hasB then [Line.bucket [bU, bOwners]] else []) ++
  s.a.entries.flatMap (renderA s.grp) ++
  s.b.entries.flatMap (renderB s.mem s.thg) ++
  s.uName.entries.flatMap (renderUnique (idxPathA bName)) ++
  s.uAlias.entries.flatMap (renderUnique (idxPathA bAlias)) ++
  s.uCode.entries.flatMap (renderUnique (idxPathA bCode)) ++
  s.uLabel.entries.flatMap (renderUnique (idxPathB bLabel)) ++
  s.sRoles.entries.flatMap (renderSetKey (idxPathA bRoles))

/-- the id occurs in a dump line: as a path element, key or value, plain or with the string type
    byte in front (the notion of `boltz.ValidateDeleted`, extended to path elements) -/
def Mentions (id : Id) : Line → Prop
  | .bucket path => id ∈ path ∨ typed id ∈ path
  | .kv path key val => id ∈ path ∨ typed id ∈ path ∨ key = id ∨ key = typed id ∨ val = id ∨ val = typed id

instance (id : Id) (l : Line) : Decidable (Mentions id l) := by
  cases l <;> unfold Mentions <;> exact inferInstance

end StorageModel.C06
