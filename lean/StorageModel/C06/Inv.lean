import StorageModel.C06.Links
/-
  C06: invariants of the universe model and their preservation by every operation.
-/
namespace StorageModel.C06
open StorageModel
open StorageModel.C03 (Map Id Err setInsert setErase setOf uniqueAfter uniqueBeforeDelete setAfter setBeforeDelete
  UI SI NEK mem_setInsert mem_setErase)

/-- back-reference buckets = exactly the referrers -/
def BR (ents : Map Id EntA) (thg : Map Id (List Id)) : Prop :=
  ∀ b j, j ∈ (thg.lookup b).getD [] ↔ (b ≠ [] ∧ ∃ e, ents.lookup j = some e ∧ e.owner.getD [] = b)

/-- only `thg` changed -/
def ThgFrame (s s' : State) : Prop := s' = { s with thg := s'.thg }

def ThgDom (s : State) : Prop := ∀ b l, s.thg.lookup b = some l → (s.b.lookup b).isSome = true

theorem backrefDel_eq {s s' : State} {b : Bytes} {id : Id} (h : backrefDel s b id = .ok s') :
    (s.b.lookup b).isSome = true ∧ s' = { s with thg := s.thg.insert b (setErase id ((s.thg.lookup b).getD [])) } := by
  unfold backrefDel at h
  split at h
  · cases h
  · next hb => cases h; simp [hb]

theorem backrefAdd_eq {s s' : State} {b : Bytes} {id : Id} (h : backrefAdd s b id = .ok s') :
    (s.b.lookup b).isSome = true ∧ s' = { s with thg := s.thg.insert b (setInsert id ((s.thg.lookup b).getD [])) } := by
  unfold backrefAdd at h
  split at h
  · cases h
  · next hb => cases h; simp [hb]

theorem fkAfter_update_ok {s s' : State} {ents : Map Id EntA} {id : Id} {old e : EntA}
    (hbr : BR ents s.thg) (hd : ThgDom s) (hold : ents.lookup id = some old)
    (hoe : old.owner.getD [] ≠ [] → (s.b.lookup (old.owner.getD [])).isSome = true)
    (h : fkAfter false (old.owner.getD []) (e.owner.getD []) id s = .ok s') :
    BR (ents.insert id e) s'.thg ∧ ThgFrame s s' ∧ ThgDom s' ∧
    (e.owner.getD [] ≠ [] → (s.b.lookup (e.owner.getD [])).isSome = true) := by
  unfold fkAfter at h
  simp only [Bool.not_false, Bool.true_and, beq_iff_eq, ne_eq, bind, Except.bind, pure, Except.pure] at h
  split at h
  · next heq =>
    cases h
    refine ⟨?_, rfl, hd, by rw [← heq]; exact hoe⟩
    intro b j
    have := hbr b j
    simp only [Map.lookup_insert]
    grind
  · next hne =>
    by_cases ho : old.owner.getD [] = []
    · simp only [ho, not_true_eq_false, if_false] at h
      by_cases hn : e.owner.getD [] = []
      · exact absurd (ho.trans hn.symm) hne
      · simp only [hn, not_false_eq_true, if_true] at h
        obtain ⟨hb, rfl⟩ := backrefAdd_eq h
        refine ⟨?_, rfl, ?_, fun _ => hb⟩
        · intro b j
          have := hbr b j
          simp only [Map.lookup_insert]
          by_cases hbb : b = e.owner.getD []
          · subst hbb; simp only [if_true, Option.getD_some, mem_setInsert]; grind
          · simp only [hbb, if_false]; grind
        · intro b l; simp only [Map.lookup_insert]; split
          · next hb' => subst hb'; intro _; exact hb
          · exact hd b l
    · simp only [ho, not_false_eq_true, if_true] at h
      cases hdel : backrefDel s (old.owner.getD []) id with
      | error x => simp [hdel] at h
      | ok s1 =>
        simp only [hdel] at h
        obtain ⟨hb1, rfl⟩ := backrefDel_eq hdel
        by_cases hn : e.owner.getD [] = []
        · simp only [hn, not_true_eq_false, if_false] at h
          cases h
          refine ⟨?_, rfl, ?_, fun h => absurd hn h⟩
          · intro b j
            have := hbr b j
            simp only [Map.lookup_insert]
            by_cases hbb : b = old.owner.getD []
            · subst hbb; simp only [if_true, Option.getD_some, mem_setErase]; grind
            · simp only [hbb, if_false]; grind
          · intro b l; simp only [Map.lookup_insert]; split
            · next hb' => subst hb'; intro _; exact hb1
            · exact hd b l
        · simp only [hn, not_false_eq_true, if_true] at h
          obtain ⟨hb2, rfl⟩ := backrefAdd_eq h
          refine ⟨?_, rfl, ?_, fun _ => hb2⟩
          · intro b j
            have := hbr b j
            simp only [Map.lookup_insert]
            by_cases hbb : b = e.owner.getD [] <;> by_cases hbo : b = old.owner.getD []
            · exact absurd (hbo.symm.trans hbb) hne
            · subst hbb; simp only [if_true, Option.getD_some, mem_setInsert, hbo, if_false]; grind
            · subst hbo; simp only [hbb, if_false, if_true, Option.getD_some, mem_setErase]; grind
            · simp only [hbb, hbo, if_false]; grind
          · intro b l; simp only [Map.lookup_insert]; split
            · next hb' => subst hb'; intro _; exact hb2
            · split
              · next hb' => subst hb'; intro _; exact hb1
              · exact hd b l

/-- create context with an old owner captured from an existing entity (child-store create over an
    existing parent): the old back-reference is replaced -/
theorem fkAfter_true_ok {s s' : State} {ents : Map Id EntA} {id : Id} {old e : EntA}
    (hbr : BR ents s.thg) (hd : ThgDom s) (hold : ents.lookup id = some old)
    (h : fkAfter true (old.owner.getD []) (e.owner.getD []) id s = .ok s') :
    BR (ents.insert id e) s'.thg ∧ ThgFrame s s' ∧ ThgDom s' ∧
    (e.owner.getD [] ≠ [] → (s.b.lookup (e.owner.getD [])).isSome = true) := by
  unfold fkAfter at h
  simp only [Bool.not_true, Bool.false_and, Bool.false_eq_true, if_false, ne_eq, bind, Except.bind, pure, Except.pure] at h
  by_cases ho : old.owner.getD [] = []
  · simp only [ho, not_true_eq_false, if_false] at h
    by_cases hn : e.owner.getD [] = []
    · simp only [hn, not_true_eq_false, if_false] at h
      cases h
      refine ⟨?_, rfl, hd, fun h => absurd hn h⟩
      intro b j
      have := hbr b j
      simp only [Map.lookup_insert]
      grind
    · simp only [hn, not_false_eq_true, if_true] at h
      obtain ⟨hb, rfl⟩ := backrefAdd_eq h
      refine ⟨?_, rfl, ?_, fun _ => hb⟩
      · intro b j
        have := hbr b j
        simp only [Map.lookup_insert]
        by_cases hbb : b = e.owner.getD []
        · subst hbb; simp only [if_true, Option.getD_some, mem_setInsert]; grind
        · simp only [hbb, if_false]; grind
      · intro b l; simp only [Map.lookup_insert]; split
        · next hb' => subst hb'; intro _; exact hb
        · exact hd b l
  · simp only [ho, not_false_eq_true, if_true] at h
    cases hdel : backrefDel s (old.owner.getD []) id with
    | error x => simp [hdel] at h
    | ok s1 =>
      simp only [hdel] at h
      obtain ⟨hb1, rfl⟩ := backrefDel_eq hdel
      by_cases hn : e.owner.getD [] = []
      · simp only [hn, not_true_eq_false, if_false] at h
        cases h
        refine ⟨?_, rfl, ?_, fun h => absurd hn h⟩
        · intro b j
          have := hbr b j
          simp only [Map.lookup_insert]
          by_cases hbb : b = old.owner.getD []
          · subst hbb; simp only [if_true, Option.getD_some, mem_setErase]; grind
          · simp only [hbb, if_false]; grind
        · intro b l; simp only [Map.lookup_insert]; split
          · next hb' => subst hb'; intro _; exact hb1
          · exact hd b l
      · simp only [hn, not_false_eq_true, if_true] at h
        obtain ⟨hb2, rfl⟩ := backrefAdd_eq h
        refine ⟨?_, rfl, ?_, fun _ => hb2⟩
        · intro b j
          have := hbr b j
          simp only [Map.lookup_insert]
          by_cases hbb : b = e.owner.getD [] <;> by_cases hbo : b = old.owner.getD []
          · subst hbb; simp only [if_true, Option.getD_some, mem_setInsert, ← hbo, mem_setErase]; grind
          · subst hbb; simp only [if_true, Option.getD_some, mem_setInsert, hbo, if_false]; grind
          · subst hbo; simp only [hbb, if_false, if_true, Option.getD_some, mem_setErase]; grind
          · simp only [hbb, hbo, if_false]; grind
        · intro b l; simp only [Map.lookup_insert]; split
          · next hb' => subst hb'; intro _; exact hb2
          · split
            · next hb' => subst hb'; intro _; exact hb1
            · exact hd b l

theorem fkAfter_create_ok {s s' : State} {ents : Map Id EntA} {id : Id} {e : EntA}
    (hbr : BR ents s.thg) (hd : ThgDom s) (hfresh : ents.lookup id = none)
    (h : fkAfter true [] (e.owner.getD []) id s = .ok s') :
    BR (ents.insert id e) s'.thg ∧ ThgFrame s s' ∧ ThgDom s' ∧
    (e.owner.getD [] ≠ [] → (s.b.lookup (e.owner.getD [])).isSome = true) := by
  unfold fkAfter at h
  simp only [Bool.not_true, Bool.false_and, Bool.false_eq_true, if_false, ne_eq, not_true_eq_false, bind, Except.bind,
    pure, Except.pure] at h
  by_cases hn : e.owner.getD [] = []
  · simp only [hn, not_true_eq_false, if_false] at h
    cases h
    refine ⟨?_, rfl, hd, fun h => absurd hn h⟩
    intro b j
    have := hbr b j
    simp only [Map.lookup_insert]
    grind
  · simp only [hn, not_false_eq_true, if_true] at h
    obtain ⟨hb, rfl⟩ := backrefAdd_eq h
    refine ⟨?_, rfl, ?_, fun _ => hb⟩
    · intro b j
      have := hbr b j
      simp only [Map.lookup_insert]
      by_cases hbb : b = e.owner.getD []
      · subst hbb; simp only [if_true, Option.getD_some, mem_setInsert]; grind
      · simp only [hbb, if_false]; grind
    · intro b l; simp only [Map.lookup_insert]; split
      · next hb' => subst hb'; intro _; exact hb
      · exact hd b l

theorem fkBeforeDelete_ok {s s' : State} {ents : Map Id EntA} {id : Id} {e : EntA}
    (hbr : BR ents s.thg) (hd : ThgDom s) (hold : ents.lookup id = some e)
    (h : fkBeforeDelete (e.owner.getD []) id s = .ok s') :
    BR (ents.erase id) s'.thg ∧ ThgFrame s s' ∧ ThgDom s' := by
  unfold fkBeforeDelete at h
  split at h
  · next hc =>
    obtain ⟨hn, _⟩ := hc
    obtain ⟨hb, rfl⟩ := backrefDel_eq h
    refine ⟨?_, rfl, ?_⟩
    · intro b j
      have := hbr b j
      simp only [Map.lookup_insert, Map.lookup_erase]
      by_cases hbb : b = e.owner.getD []
      · subst hbb; simp only [if_true, Option.getD_some, mem_setErase]; grind
      · simp only [hbb, if_false]; grind
    · intro b l; simp only [Map.lookup_insert]; split
      · next hb' => subst hb'; intro _; exact hb
      · exact hd b l
  · next hc =>
    simp only [pure, Except.pure] at h
    cases h
    -- the target is empty, or it is gone: then it has no back-reference bucket, so the entity is no referrer
    have hn : e.owner.getD [] = [] := by
      by_cases hz : e.owner.getD [] = []
      · exact hz
      · exfalso
        have hmem := (hbr (e.owner.getD []) id).2 ⟨hz, e, hold, rfl⟩
        cases hl : s.thg.lookup (e.owner.getD []) with
        | none => simp [hl] at hmem
        | some l =>
          have := hd _ l hl
          exact hc ⟨hz, by simpa [State.bEx] using this⟩
    refine ⟨?_, rfl, hd⟩
    intro b j
    have := hbr b j
    simp only [Map.lookup_erase]
    grind

theorem UI_insert_fresh_empty {E : Type} {f : E → Bytes} {ents : Map Id E} {idx : Map Bytes Id} {id : Id} {e : E}
    (h : UI f ents idx) (hf : ents.lookup id = none) (he : f e = []) : UI f (ents.insert id e) idx := by
  intro v i
  have := h v i
  simp only [Map.lookup_insert]
  grind

theorem UI_insert_same {E : Type} {f : E → Bytes} {ents : Map Id E} {idx : Map Bytes Id} {id : Id} {old e : E}
    (h : UI f ents idx) (hf : ents.lookup id = some old) (he : f e = f old) : UI f (ents.insert id e) idx := by
  intro v i
  have := h v i
  have := h v id
  simp only [Map.lookup_insert]
  grind


/-- `fkConstraint.ProcessAfterUpdate`: the state is untouched; a new non-empty target exists -/
theorem depAfter_ok {isCreate : Bool} {old new : Bytes} {s s' : State} (h : depAfter isCreate old new s = .ok s') :
    s' = s ∧ (new ≠ [] → (isCreate = false ∧ old = new) ∨ s.bEx new = true) := by
  unfold depAfter at h
  split at h
  · next hc =>
    cases h
    refine ⟨rfl, fun _ => Or.inl ?_⟩
    simp only [Bool.and_eq_true, Bool.not_eq_true', beq_iff_eq] at hc
    exact hc
  · split at h
    · split at h
      · next hb => cases h; exact ⟨rfl, fun _ => Or.inr hb⟩
      · cases h
    · next hn => cases h; exact ⟨rfl, fun h => absurd h hn⟩

/-- `fkConstraint.ProcessAfterUpdate` of the self reference: a new non-empty target exists -/
theorem bossAfter_ok {isCreate : Bool} {old new : Bytes} {s : State} (h : bossAfter isCreate old new s = .ok ()) :
    new ≠ [] → (isCreate = false ∧ old = new) ∨ s.aEx new = true := by
  unfold bossAfter at h
  split at h
  · next hc =>
    simp only [Bool.and_eq_true, Bool.not_eq_true', beq_iff_eq] at hc
    exact fun _ => Or.inl hc
  · split at h
    · split at h
      · next hb => exact fun _ => Or.inr hb
      · cases h
    · next hn => exact fun h => absurd h hn

theorem afterUpdateA_ok {isCreate : Bool} {cap : Captured} {s s' : State} {id : Id}
    (h : afterUpdateA isCreate cap s id = .ok s') :
    ∃ un ua sr,
      uniqueAfter isCreate false cap.name (evName (s.a.lookup id)) id s.uName = .ok un ∧
      uniqueAfter isCreate true cap.alias (evAlias (s.a.lookup id)) id s.uAlias = .ok ua ∧
      setAfter cap.roles (evRoles (s.a.lookup id)) id s.sRoles = .ok sr ∧
      fkAfter isCreate cap.owner (evOwner (s.a.lookup id)) id { s with uName := un, uAlias := ua, sRoles := sr } = .ok s' ∧
      (evDep (s.a.lookup id) ≠ [] →
        (isCreate = false ∧ cap.dep = evDep (s.a.lookup id)) ∨ s'.bEx (evDep (s.a.lookup id)) = true) ∧
      (evBoss (s.a.lookup id) ≠ [] →
        (isCreate = false ∧ cap.boss = evBoss (s.a.lookup id)) ∨ s.aEx (evBoss (s.a.lookup id)) = true) ∧
      (evChief (s.a.lookup id) ≠ [] →
        (isCreate = false ∧ cap.chief = evChief (s.a.lookup id)) ∨ s.aEx (evChief (s.a.lookup id)) = true) := by
  simp only [afterUpdateA, bind, Except.bind] at h
  cases hch : bossAfter isCreate cap.chief (evChief (s.a.lookup id)) s with
  | error x => simp [hch] at h
  | ok u0 =>
  simp only [hch] at h
  cases hbo : bossAfter isCreate cap.boss (evBoss (s.a.lookup id)) s with
  | error x => simp [hbo] at h
  | ok u =>
  simp only [hbo] at h
  cases hun : uniqueAfter isCreate false cap.name (evName (s.a.lookup id)) id s.uName with
  | error x => simp [hun] at h
  | ok un =>
    simp only [hun] at h
    cases hua : uniqueAfter isCreate true cap.alias (evAlias (s.a.lookup id)) id s.uAlias with
    | error x => simp [hua] at h
    | ok ua =>
      simp only [hua] at h
      cases hsr : setAfter cap.roles (evRoles (s.a.lookup id)) id s.sRoles with
      | error x => simp [hsr] at h
      | ok sr =>
        simp only [hsr] at h
        cases hfk : fkAfter isCreate cap.owner (evOwner (s.a.lookup id)) id { s with uName := un, uAlias := ua, sRoles := sr } with
        | error x => simp [hfk] at h
        | ok s1 =>
          simp only [hfk] at h
          obtain ⟨rfl, hd⟩ := depAfter_ok h
          exact ⟨un, ua, sr, rfl, rfl, rfl, hfk, hd, bossAfter_ok hbo, bossAfter_ok hch⟩

theorem beforeDeleteA_ok {s s' : State} {id : Id} (h : beforeDeleteA s id = .ok s') :
    ∃ sr, setBeforeDelete (evRoles (s.a.lookup id)) id s.sRoles = .ok sr ∧
      fkBeforeDelete (evOwner (s.a.lookup id)) id
        { s with uName := uniqueBeforeDelete (evName (s.a.lookup id)) s.uName,
                 uAlias := uniqueBeforeDelete (evAlias (s.a.lookup id)) s.uAlias, sRoles := sr } = .ok s' := by
  simp only [beforeDeleteA, bind, Except.bind] at h
  cases hsr : setBeforeDelete (evRoles (s.a.lookup id)) id s.sRoles with
  | error x => simp [hsr] at h
  | ok sr =>
    simp only [hsr] at h
    exact ⟨sr, rfl, h⟩

theorem ThgFrame.fields {s s' : State} (h : ThgFrame s s') :
    s'.hasA = s.hasA ∧ s'.hasB = s.hasB ∧ s'.a = s.a ∧ s'.b = s.b ∧ s'.g = s.g ∧ s'.p = s.p ∧ s'.rc = s.rc ∧
    s'.uName = s.uName ∧ s'.uAlias = s.uAlias ∧ s'.uCode = s.uCode ∧ s'.uLabel = s.uLabel ∧ s'.sRoles = s.sRoles ∧
    s'.uColour = s.uColour ∧ s'.pe = s.pe ∧ s'.mt = s.mt := by
  unfold ThgFrame at h; rw [h]; simp

theorem uniqueBeforeDelete_absent {E : Type} {f : E → Bytes} {ents : Map Id E} {idx : Map Bytes Id} {v : Bytes}
    (h : UI f ents idx) (hv : v = [] ∨ ∀ i e, ents.lookup i = some e → f e ≠ v) :
    UI f ents (uniqueBeforeDelete v idx) := by
  unfold uniqueBeforeDelete
  split
  · next hne =>
    rcases hv with hv | hv
    · exact absurd hv hne
    · intro w i
      have := h w i
      simp only [Map.lookup_erase]
      split
      · next hw =>
        subst hw
        constructor
        · intro h; cases h
        · rintro ⟨_, e, he, hf⟩; exact absurd hf (hv i e he)
      · exact this
  · exact h

theorem setBeforeDelete_absent {E : Type} {r : E → List Bytes} {ents : Map Id E} {idx idx' : Map Bytes (List Id)} {id : Id}
    {vals : List Bytes} (hsi : SI r ents idx) (hnek : NEK idx) (hno : ents.lookup id = none)
    (h : setBeforeDelete vals id idx = .ok idx') : SI r ents idx' ∧ NEK idx' := by
  unfold setBeforeDelete at h
  split at h
  · cases h
  · cases h
    refine ⟨?_, C03.nek_foldl_del _ _ _ hnek⟩
    intro v i
    have := hsi v i
    have h2 := hsi v id
    simp only [C03.mem_foldl_del]
    constructor
    · intro ⟨h1, _⟩; exact this.1 h1
    · intro h1
      refine ⟨this.2 h1, ?_⟩
      rintro ⟨rfl, _⟩
      obtain ⟨e, he, _⟩ := h1
      rw [hno] at he; cases he

theorem fkBeforeDelete_absent {s s' : State} {ents : Map Id EntA} {id : Id} {v : Bytes}
    (hbr : BR ents s.thg) (hd : ThgDom s) (hno : ents.lookup id = none)
    (h : fkBeforeDelete v id s = .ok s') : BR ents s'.thg ∧ ThgFrame s s' ∧ ThgDom s' := by
  unfold fkBeforeDelete at h
  split at h
  · obtain ⟨hb, rfl⟩ := backrefDel_eq h
    refine ⟨?_, rfl, ?_⟩
    · intro b j
      have := hbr b j
      have h2 := hbr b id
      simp only [Map.lookup_insert]
      by_cases hbb : b = v
      · subst hbb; simp only [if_true, Option.getD_some, mem_setErase]
        constructor
        · intro ⟨_, h1⟩; exact this.1 h1
        · intro h1
          refine ⟨?_, this.2 h1⟩
          rintro rfl
          obtain ⟨_, e, he, _⟩ := h1
          rw [hno] at he; cases he
      · simp only [hbb, if_false]; exact this
    · intro b l; simp only [Map.lookup_insert]; split
      · next hb' => subst hb'; intro _; exact hb
      · exact hd b l
  · simp only [pure, Except.pure] at h
    cases h; exact ⟨hbr, rfl, hd⟩

/-- the index part of the invariant, relative to an entity table -/
structure IdxInv (ents : Map Id EntA) (s : State) : Prop where
  uName : UI (·.name) ents s.uName
  uAlias : UI (fun e => e.alias.getD []) ents s.uAlias
  sRoles : SI (·.roles) ents s.sRoles
  nek : NEK s.sRoles
  br : BR ents s.thg
  thgDom : ThgDom s

/-- `beforeDeleteA` touches the three A indexes and the back-reference buckets only -/
def BDFrame (s s' : State) : Prop :=
  s' = { s with uName := s'.uName, uAlias := s'.uAlias, sRoles := s'.sRoles, thg := s'.thg }

theorem beforeDeleteA_first {s s' : State} {id : Id} {e : EntA} (hi : IdxInv s.a s) (hold : s.a.lookup id = some e)
    (h : beforeDeleteA s id = .ok s') : IdxInv (s.a.erase id) s' ∧ BDFrame s s' := by
  obtain ⟨sr, hsr, hfk⟩ := beforeDeleteA_ok h
  simp only [hold, evName, evAlias, evRoles, evOwner] at hsr hfk
  have hsr' := C03.setBeforeDelete_ok (r := (·.roles)) hi.sRoles hi.nek hold hsr
  obtain ⟨k1, k2, k3⟩ := fkBeforeDelete_ok (ents := s.a) (s := ({ s with uName := uniqueBeforeDelete (e.name) (s.uName), uAlias := uniqueBeforeDelete (e.alias.getD []) (s.uAlias), sRoles := sr } : State)) hi.br hi.thgDom hold hfk
  unfold ThgFrame at k2
  refine ⟨⟨?_, ?_, ?_, ?_, k1, k3⟩, ?_⟩
  · rw [k2]; exact C03.uniqueBeforeDelete_ok (f := (·.name)) hi.uName hold
  · rw [k2]; exact C03.uniqueBeforeDelete_ok (f := fun e => e.alias.getD []) hi.uAlias hold
  · rw [k2]; exact hsr'.1
  · rw [k2]; exact hsr'.2
  · unfold BDFrame; rw [k2]

theorem beforeDeleteA_again {s s' : State} {ents : Map Id EntA} {id : Id} {e : EntA} (hi : IdxInv ents s)
    (hno : ents.lookup id = none) (hold : s.a.lookup id = some e)
    (hn : e.name = [] ∨ ∀ i e', ents.lookup i = some e' → e'.name ≠ e.name)
    (ha : e.alias.getD [] = [] ∨ ∀ i e', ents.lookup i = some e' → e'.alias.getD [] ≠ e.alias.getD [])
    (h : beforeDeleteA s id = .ok s') : IdxInv ents s' ∧ BDFrame s s' := by
  obtain ⟨sr, hsr, hfk⟩ := beforeDeleteA_ok h
  simp only [hold, evName, evAlias, evRoles, evOwner] at hsr hfk
  have hsr' := setBeforeDelete_absent (r := (·.roles)) hi.sRoles hi.nek hno hsr
  obtain ⟨k1, k2, k3⟩ := fkBeforeDelete_absent (ents := ents) (s := ({ s with uName := uniqueBeforeDelete (e.name) (s.uName), uAlias := uniqueBeforeDelete (e.alias.getD []) (s.uAlias), sRoles := sr } : State)) hi.br hi.thgDom hno hfk
  unfold ThgFrame at k2
  refine ⟨⟨?_, ?_, ?_, ?_, k1, k3⟩, ?_⟩
  · rw [k2]; exact uniqueBeforeDelete_absent (f := fun (e : EntA) => e.name) hi.uName hn
  · rw [k2]; exact uniqueBeforeDelete_absent (f := fun (e : EntA) => e.alias.getD []) hi.uAlias ha
  · rw [k2]; exact hsr'.1
  · rw [k2]; exact hsr'.2
  · unfold BDFrame; rw [k2]

/-- one step of `cleanupLinksA` -/
theorem other_names_differ {E : Type} {f : E → Bytes} {ents : Map Id E} {idx : Map Bytes Id} {id : Id} {e : E}
    (h : UI f ents idx) (hold : ents.lookup id = some e) :
    f e = [] ∨ ∀ i e', (ents.erase id).lookup i = some e' → f e' ≠ f e := by
  by_cases hz : f e = []
  · exact Or.inl hz
  · right
    intro i e' hi' heq
    simp only [Map.lookup_erase] at hi'
    split at hi'
    · cases hi'
    · next hne =>
      have h1 := (h (f e) i).2 ⟨hz, e', hi', heq⟩
      have h2 := (h (f e) id).2 ⟨hz, e, hold, rfl⟩
      rw [h1] at h2; cases h2; exact hne rfl

/-- what `deleteA` computes, stage by stage -/

theorem BDFrame.fields {s s' : State} (h : BDFrame s s') :
    s'.hasA = s.hasA ∧ s'.hasB = s.hasB ∧ s'.a = s.a ∧ s'.b = s.b ∧ s'.g = s.g ∧ s'.p = s.p ∧ s'.rc = s.rc ∧
    s'.uCode = s.uCode ∧ s'.uLabel = s.uLabel ∧ s'.uColour = s.uColour ∧ s'.pe = s.pe ∧ s'.mt = s.mt := by
  unfold BDFrame at h; rw [h]; simp


/-! ### the invariant -/

/-- everything except the unique index of store B (which a cascading delete of B suspends) -/
structure InvCore (s : State) : Prop where
  uName : UI (·.name) s.a s.uName
  uAlias : UI (fun e => e.alias.getD []) s.a s.uAlias
  uCode : UI (fun e => e.code.getD []) s.a s.uCode
  sRoles : SI (·.roles) s.a s.sRoles
  nek : NEK s.sRoles
  br : BR s.a s.thg
  thgDom : ThgDom s
  ownerExists : ∀ j e, s.a.lookup j = some e → e.owner.getD [] ≠ [] → s.bEx (e.owner.getD []) = true
  depExists : ∀ j e, s.a.lookup j = some e → e.dep.getD [] ≠ [] → s.bEx (e.dep.getD []) = true
  g : LinkInv s.g s.aEx s.bEx
  p : LinkInv s.p s.cEx s.bEx
  rc : RcInv s.rc s.aEx s.bEx
  namesNonEmpty : ∀ j e, s.a.lookup j = some e → e.name ≠ []
  rolesNonEmpty : ∀ j e, s.a.lookup j = some e → [] ∉ e.roles
  codeNonEmpty : ∀ j e c, s.a.lookup j = some e → e.code = some c → c ≠ []
  idA : s.a.lookup [] = none
  idB : s.b.lookup [] = none
  hasA : ∀ j e, s.a.lookup j = some e → s.hasA = true
  hasB : ∀ j e, s.b.lookup j = some e → s.hasB = true
  /-- the extended child store's own unique index -/
  uColour : UI (fun e => e.colour.getD []) s.a s.uColour
  /-- store A linked with itself: through one symbol, through two symbols -/
  pe : SelfInv s.pe s.aEx
  mt : LinkInv s.mt s.aEx s.aEx

/-- the self references name existing entities.  `boss` (cascade): except for the entities whose
    cascading delete is in progress (`busy`) — the boss of such an entity may already be gone (cycles).
    `chief` (restrict): always — a delete is refused while some `chief` names the entity. -/
structure BossOK (busy : List Id) (s : State) : Prop where
  boss : ∀ j e, s.a.lookup j = some e → e.boss.getD [] ≠ [] → j ∉ busy → s.aEx (e.boss.getD []) = true
  chief : ∀ j e, s.a.lookup j = some e → e.chief.getD [] ≠ [] → s.aEx (e.chief.getD []) = true

structure Inv (s : State) : Prop extends InvCore s where
  uLabel : UI (fun (e : EntB) => e.label.getD []) s.b s.uLabel
  boss : BossOK [] s

theorem inv_empty : Inv State.empty := by
  refine ⟨⟨?_, ?_, ?_, ?_, ?_, ?_, ?_, ?_, ?_, LinkInv.empty _ _, LinkInv.empty _ _, RcInv.empty _ _, ?_, ?_, ?_, ?_, ?_, ?_, ?_, ?_, SelfInv.empty _, LinkInv.empty _ _⟩, ?_, ?_⟩ <;>
    first | (constructor <;> simp [State.empty]) | simp [State.empty, UI, SI, NEK, BR, ThgDom]

theorem aEx_congr {s s' : State} (h : s'.a = s.a) : s'.aEx = s.aEx := by funext j; simp [State.aEx, h]
theorem bEx_congr {s s' : State} (h : s'.b = s.b) : s'.bEx = s.bEx := by funext j; simp [State.bEx, h]
theorem cEx_congr {s s' : State} (h : s'.a = s.a) : s'.cEx = s.cEx := by funext j; simp [State.cEx, h]

theorem setGroups_ok {s s' : State} {id : Id} {req : List Id} (h : setGroups s id req = .ok s') :
    ∃ g', s.g.setLinks s.bEx id req = .ok g' ∧ s' = { s with g := g' } := by
  simp only [setGroups, bind, Except.bind, pure, Except.pure] at h
  split at h
  · cases h
  · next g' hg => cases h; exact ⟨g', hg, rfl⟩

theorem setPals_ok {s s' : State} {id : Id} {req : List Id} (h : setPals s id req = .ok s') :
    ∃ p', s.p.setLinks s.bEx id req = .ok p' ∧ s' = { s with p := p' } := by
  simp only [setPals, bind, Except.bind, pure, Except.pure] at h
  split at h
  · cases h
  · next p' hp => cases h; exact ⟨p', hp, rfl⟩

/-- assembling the core invariant after an operation that stored entity `e` under `id` in store A -/
theorem core_assemble {s s' : State} {id : Id} {e : EntA} (hi : InvCore s)
    (ha : s'.a = s.a.insert id e) (hb : s'.b = s.b) (hhasB : s'.hasB = s.hasB) (hhasA : s'.hasA = true)
    (huN : UI (·.name) s'.a s'.uName) (huA : UI (fun e => e.alias.getD []) s'.a s'.uAlias)
    (huC : UI (fun e => e.code.getD []) s'.a s'.uCode) (hsr : SI (·.roles) s'.a s'.sRoles) (hnek : NEK s'.sRoles)
    (hbr : BR s'.a s'.thg) (hthg : ThgDom s')
    (hown : e.owner.getD [] ≠ [] → s.bEx (e.owner.getD []) = true)
    (hdep : e.dep.getD [] ≠ [] → s.bEx (e.dep.getD []) = true)
    (hg : LinkInv s'.g s'.aEx s'.bEx) (hp : LinkInv s'.p s'.cEx s'.bEx) (hrc : RcInv s'.rc s'.aEx s'.bEx)
    (hne : e.name ≠ []) (hre : [] ∉ e.roles) (hce : ∀ c, e.code = some c → c ≠ []) (hid : id ≠ [])
    (huX : UI (fun e => e.colour.getD []) s'.a s'.uColour) (hpe : s'.pe = s.pe) (hmt : s'.mt = s.mt) : InvCore s' := by
  have hbe : s'.bEx = s.bEx := bEx_congr hb
  have hamono : ∀ j, s.aEx j = true → s'.aEx j = true := by
    intro j hj; simp only [State.aEx, ha, Map.lookup_insert]; split
    · simp
    · exact hj
  refine ⟨huN, huA, huC, hsr, hnek, hbr, hthg, ?_, ?_, hg, hp, hrc, ?_, ?_, ?_, ?_,
    by rw [hb]; exact hi.idB, fun _ _ _ => hhasA, ?_, huX, by rw [hpe]; exact hi.pe.mono hamono,
    by rw [hmt]; exact hi.mt.mono hamono hamono⟩
  · intro j e'; rw [ha, hbe]; simp only [Map.lookup_insert]; split
    · intro h; cases h; exact hown
    · exact hi.ownerExists j e'
  · intro j e'; rw [ha, hbe]; simp only [Map.lookup_insert]; split
    · intro h; cases h; exact hdep
    · exact hi.depExists j e'
  · intro j e'; rw [ha]; simp only [Map.lookup_insert]; split
    · intro h; cases h; exact hne
    · exact hi.namesNonEmpty j e'
  · intro j e'; rw [ha]; simp only [Map.lookup_insert]; split
    · intro h; cases h; exact hre
    · exact hi.rolesNonEmpty j e'
  · intro j e' c; rw [ha]; simp only [Map.lookup_insert]; split
    · intro h; cases h; exact hce c
    · exact hi.codeNonEmpty j e' c
  · rw [ha]; simp only [Map.lookup_insert]
    have : ¬ ([] : Id) = id := fun h => hid h.symm
    simp [this, hi.idA]
  · intro j e'; rw [hb, hhasB]; exact hi.hasB j e'

/-- existence predicates after inserting an A entity -/
theorem aEx_insert_mono {s : State} {id : Id} {e : EntA} {s' : State} (ha : s'.a = s.a.insert id e) :
    ∀ j, s.aEx j = true → s'.aEx j = true := by
  intro j hj; simp only [State.aEx, ha, Map.lookup_insert]; split
  · simp
  · exact hj

theorem aEx_insert_self {s : State} {id : Id} {e : EntA} {s' : State} (ha : s'.a = s.a.insert id e) :
    s'.aEx id = true := by simp [State.aEx, ha]

/-- child data only appears or stays: valid when the stored entity keeps or gains `code` -/
theorem cEx_insert_mono {s : State} {id : Id} {e : EntA} {s' : State} (ha : s'.a = s.a.insert id e)
    (hc : s.cEx id = true → e.code.isSome = true) : ∀ j, s.cEx j = true → s'.cEx j = true := by
  intro j hj; simp only [State.cEx, ha, Map.lookup_insert]; split
  · next h => subst h; simpa using hc hj
  · exact hj



theorem bossOK_insert {s s' : State} {id : Id} {e : EntA} (hb : BossOK [] s) (ha : s'.a = s.a.insert id e)
    (hc : e.chief.getD [] ≠ [] → s'.aEx (e.chief.getD []) = true)
    (he : e.boss.getD [] ≠ [] → s'.aEx (e.boss.getD []) = true) : BossOK [] s' := by
  constructor
  · intro j e' hj hne _
    rw [ha] at hj
    simp only [Map.lookup_insert] at hj
    split at hj
    · cases hj; exact he hne
    · exact aEx_insert_mono ha _ (hb.boss j e' hj hne (by simp))
  · intro j e' hj hne
    rw [ha] at hj
    simp only [Map.lookup_insert] at hj
    split at hj
    · cases hj; exact hc hne
    · exact aEx_insert_mono ha _ (hb.chief j e' hj hne)

theorem bossOK_congr {s s' : State} {busy : List Id} (hb : BossOK busy s) (ha : s'.a = s.a) : BossOK busy s' := by
  constructor
  · intro j e hj hne hnb
    rw [ha] at hj
    rw [aEx_congr ha]
    exact hb.boss j e hj hne hnb
  · intro j e hj hne
    rw [ha] at hj
    rw [aEx_congr ha]
    exact hb.chief j e hj hne

theorem inv_createA {s s' : State} {id : Id} {v : ValsA} (hi : Inv s) (h : createA s id v = .ok s') : Inv s' := by
  unfold createA at h
  split at h
  · cases h
  · next hid =>
    split at h
    · cases h
    · next hex =>
      have hfresh : s.a.lookup id = none := by simpa using hex
      simp only [bind, Except.bind] at h
      split at h
      · cases h
      · next s2 hsl =>
        obtain ⟨g', hg', rfl⟩ := setGroups_ok hsl
        have hg1 : LinkInv s.g ({ s with hasA := true, a := s.a.insert id ⟨v.name, v.alias, setOf v.roles, v.owner, v.dep, v.boss, v.chief, none, none⟩ } : State).aEx s.bEx :=
          hi.g.mono (aEx_insert_mono rfl) (fun _ h => h)
        have hg2 := LinkPair.setLinks_pres hg1 (aEx_insert_self rfl) hg'
        obtain ⟨un, ua, sr, hun, hua, hsr, hfk, hdep, hboss, hchief⟩ := afterUpdateA_ok h
        simp only [Map.lookup_insert, if_true, evName, evAlias, evRoles, evOwner, evDep, evBoss, evChief, Captured.none] at hun hua hsr hfk hdep hboss hchief
        obtain ⟨k1, k2, k3, k4⟩ := fkAfter_create_ok (e := ⟨v.name, v.alias, setOf v.roles, v.owner, v.dep, v.boss, v.chief, none, none⟩)
          (ents := s.a) (by exact hi.br) (by exact hi.thgDom) hfresh hfk
        obtain ⟨g1, g2, g3, g4, g5, g6, g7, g8, g9, g10, g11, g12, g13, g14, g15⟩ := k2.fields
        simp only at g1 g2 g3 g4 g5 g6 g7 g8 g9 g10 g11 g12 g13 g14 g15
        have hsr' := C03.setAfter_ok (r := (·.roles)) (e := (⟨v.name, v.alias, setOf v.roles, v.owner, v.dep, v.boss, v.chief, none, none⟩ : EntA))
          hi.sRoles hi.nek (oldRoles := []) (id := id) (by intro x; simp [hfresh]) hsr
        have hae : s'.aEx = ({ s with hasA := true, a := s.a.insert id ⟨v.name, v.alias, setOf v.roles, v.owner, v.dep, v.boss, v.chief, none, none⟩ } : State).aEx :=
          aEx_congr g3
        have hbe : s'.bEx = s.bEx := bEx_congr g4
        refine ⟨core_assemble (e := ⟨v.name, v.alias, setOf v.roles, v.owner, v.dep, v.boss, v.chief, none, none⟩) hi.toInvCore g3 g4 g2 g1
          ?_ ?_ ?_ ?_ ?_ ?_ k3 ?_ ?_ ?_ ?_ ?_ ?_ ?_ ?_ hid ?_ g14 g15, ?_, ?_⟩
        · rw [g3, g8]; exact C03.uniqueAfter_create_ok hi.uName hfresh hun
        · rw [g3, g9]; exact C03.uniqueAfter_create_ok hi.uAlias hfresh hua
        · rw [g3, g10]; exact UI_insert_fresh_empty hi.uCode hfresh rfl
        · rw [g3, g12]; exact hsr'.1
        · rw [g12]; exact hsr'.2
        · rw [g3]; exact k1
        · exact k4
        · intro hne
          rcases hdep hne with ⟨hc, _⟩ | hb
          · cases hc
          · rw [hbe] at hb; exact hb
        · rw [g5, hae, hbe]; exact hg2
        · rw [g6, hbe]
          exact hi.p.mono (cEx_insert_mono g3 (by simp [State.cEx, hfresh])) (fun _ h => h)
        · rw [g7, hbe]
          exact hi.rc.mono (aEx_insert_mono g3) (fun _ h => h)
        · exact C03.uniqueAfter_create_nonempty hun rfl
        · exact C03.setAfter_ok_nonempty hsr (by simp)
        · intro c hc; cases hc
        · rw [g3, g13]; exact UI_insert_fresh_empty hi.uColour hfresh rfl
        · rw [g4, g11]; exact hi.uLabel
        · refine bossOK_insert hi.boss g3 (fun hne => ?_) (fun hne => ?_)
          · rcases hchief hne with ⟨hc, _⟩ | hb
            · cases hc
            · rw [hae]; exact hb
          · rcases hboss hne with ⟨hc, _⟩ | hb
            · cases hc
            · rw [hae]; exact hb



theorem inv_updateA {s s' : State} {id : Id} {v : ValsA} {chk : Option ChkA} (hi : Inv s)
    (h : updateA s id v chk = .ok s') : Inv s' := by
  unfold updateA at h
  split at h
  · cases h
  · next hid =>
    split at h
    · cases h
    · next old hold =>
      simp only [bind, Except.bind] at h
      have hg1 : LinkInv s.g ({ s with a := s.a.insert id (persistFields old v chk) } : State).aEx s.bEx :=
        hi.g.mono (aEx_insert_mono rfl) (fun _ h => h)
      -- the link step, performed or not
      have hlink : ∃ g', LinkInv g' ({ s with a := s.a.insert id (persistFields old v chk) } : State).aEx s.bEx ∧
          afterUpdateA false (captureA s id) ({ s with a := s.a.insert id (persistFields old v chk), g := g' } : State) id = .ok s' := by
        by_cases hp : proceed chk (fun c => c.groups) = true
        · simp only [hp, if_true] at h
          split at h
          · cases h
          · next s2 hs2 =>
            obtain ⟨g', hg', rfl⟩ := setGroups_ok hs2
            exact ⟨g', LinkPair.setLinks_pres hg1 (aEx_insert_self rfl) hg', h⟩
        · simp only [hp, Bool.false_eq_true, if_false, pure, Except.pure] at h
          exact ⟨s.g, hg1, h⟩
      obtain ⟨g', hg2, h⟩ := hlink
      obtain ⟨un, ua, sr, hun, hua, hsr, hfk, hdep, hboss, hchief⟩ := afterUpdateA_ok h
      simp only [Map.lookup_insert, if_true, captureA, hold, evName, evAlias, evRoles, evOwner, evDep, evBoss, evChief] at hun hua hsr hfk hdep hboss hchief
      obtain ⟨k1, k2, k3, k4⟩ := fkAfter_update_ok (e := persistFields old v chk) (ents := s.a) (by exact hi.br)
        (by exact hi.thgDom) hold (by exact hi.ownerExists id old hold) hfk
      obtain ⟨g1, g2, g3, g4, g5, g6, g7, g8, g9, g10, g11, g12, g13, g14, g15⟩ := k2.fields
      simp only at g1 g2 g3 g4 g5 g6 g7 g8 g9 g10 g11 g12 g13 g14 g15
      have hsr' := C03.setAfter_ok (r := (·.roles)) (e := persistFields old v chk)
        hi.sRoles hi.nek (oldRoles := old.roles) (id := id) (by intro x; simp [hold]) hsr
      have hae : s'.aEx = ({ s with a := s.a.insert id (persistFields old v chk) } : State).aEx := aEx_congr g3
      have hbe : s'.bEx = s.bEx := bEx_congr g4
      refine ⟨core_assemble (e := persistFields old v chk) hi.toInvCore g3 g4 g2 (by rw [g1]; exact hi.hasA id old hold)
        ?_ ?_ ?_ ?_ ?_ ?_ k3 ?_ ?_ ?_ ?_ ?_ ?_ ?_ ?_ hid ?_ g14 g15, ?_, ?_⟩
      · rw [g3, g8]; exact C03.uniqueAfter_update_ok (f := fun (e : EntA) => e.name) hi.uName hold hun
      · rw [g3, g9]; exact C03.uniqueAfter_update_ok (f := fun (e : EntA) => e.alias.getD []) hi.uAlias hold hua
      · rw [g3, g10]; exact UI_insert_same hi.uCode hold rfl
      · rw [g3, g12]; exact hsr'.1
      · rw [g12]; exact hsr'.2
      · rw [g3]; exact k1
      · exact k4
      · intro hne
        rcases hdep hne with ⟨_, hc⟩ | hb
        · have := hi.depExists id old hold (by rw [hc]; exact hne)
          rw [hc] at this; exact this
        · rw [hbe] at hb; exact hb
      · rw [g5, hae, hbe]; exact hg2
      · rw [g6, hbe]
        exact hi.p.mono (cEx_insert_mono g3 (by simp [State.cEx, hold, persistFields])) (fun _ h => h)
      · rw [g7, hbe]
        exact hi.rc.mono (aEx_insert_mono g3) (fun _ h => h)
      · exact C03.uniqueAfter_update_nonempty hun (hi.namesNonEmpty id old hold)
      · exact C03.setAfter_ok_nonempty hsr (hi.rolesNonEmpty id old hold)
      · intro c hc; exact hi.codeNonEmpty id old c hold hc
      · rw [g3, g13]; exact UI_insert_same hi.uColour hold rfl
      · rw [g4, g11]; exact hi.uLabel
      · refine bossOK_insert hi.boss g3 (fun hne => ?_) (fun hne => ?_)
        · rcases hchief hne with ⟨_, hc⟩ | hb
          · have := hi.boss.chief id old hold (by rw [hc]; exact hne)
            rw [hc] at this; exact aEx_insert_mono g3 _ this
          · rw [hae]; exact hb
        · rcases hboss hne with ⟨_, hc⟩ | hb
          · have := hi.boss.boss id old hold (by rw [hc]; exact hne) (by simp)
            rw [hc] at this; exact aEx_insert_mono g3 _ this
          · rw [hae]; exact hb



/-- `A1.Create`, on an id that does not exist at all or over an existing plain parent (whose
    indexed values are captured and replaced since fix 8269ce9) -/
theorem inv_createA1 {s s' : State} {id : Id} {v : ValsA} {code : Bytes} {pals : List Id} (hi : Inv s)
    (h : createA1 s id v code pals = .ok s') : Inv s' := by
  unfold createA1 at h
  generalize hcol : (s.a.lookup id).bind (·.colour) = col at h
  split at h
  · cases h
  · next hid =>
    split at h
    · cases h
    · next hnc =>
      simp only [bind, Except.bind] at h
      split at h
      · cases h
      · next s2 hsl =>
        obtain ⟨g', hg', rfl⟩ := setGroups_ok hsl
        split at h
        · cases h
        · next s2' hsp =>
          obtain ⟨p', hp', rfl⟩ := setPals_ok hsp
          have hg1 : LinkInv s.g ({ s with hasA := true, a := s.a.insert id ⟨v.name, v.alias, setOf v.roles, v.owner, v.dep, v.boss, v.chief, some code, col⟩ } : State).aEx s.bEx :=
            hi.g.mono (aEx_insert_mono rfl) (fun _ h => h)
          have hg2 := LinkPair.setLinks_pres hg1 (aEx_insert_self rfl) hg'
          have hp1 : LinkInv s.p ({ s with hasA := true, a := s.a.insert id ⟨v.name, v.alias, setOf v.roles, v.owner, v.dep, v.boss, v.chief, some code, col⟩ } : State).cEx s.bEx :=
            hi.p.mono (cEx_insert_mono rfl (fun _ => rfl)) (fun _ h => h)
          have hp2 := LinkPair.setLinks_pres hp1 (by simp [State.cEx]) hp'
          split at h
          · cases h
          · next s3 hs3 =>
            split at h
            · cases h
            · next uc huc =>
              simp only [pure, Except.pure] at h
              cases h
              obtain ⟨un, ua, sr, hun, hua, hsr, hfk, hdep, hboss, hchief⟩ := afterUpdateA_ok hs3
              simp only [Map.lookup_insert, if_true, evName, evAlias, evRoles, evOwner, evDep, evBoss, evChief] at hun hua hsr hfk hdep hboss hchief
              cases hold : s.a.lookup id with
              | none =>
                simp only [hold, Option.isSome_none, Bool.false_eq_true, if_false, Captured.none] at hun hua hsr hfk hdep hboss hchief
                obtain ⟨k1, k2, k3, k4⟩ := fkAfter_create_ok (e := ⟨v.name, v.alias, setOf v.roles, v.owner, v.dep, v.boss, v.chief, some code, col⟩)
                  (ents := s.a) (by exact hi.br) (by exact hi.thgDom) hold hfk
                obtain ⟨g1, g2, g3, g4, g5, g6, g7, g8, g9, g10, g11, g12, g13, g14, g15⟩ := k2.fields
                simp only at g1 g2 g3 g4 g5 g6 g7 g8 g9 g10 g11 g12 g13 g14 g15
                rw [g10] at huc
                have hsr' := C03.setAfter_ok (r := (·.roles)) (e := (⟨v.name, v.alias, setOf v.roles, v.owner, v.dep, v.boss, v.chief, some code, col⟩ : EntA))
                  hi.sRoles hi.nek (oldRoles := []) (id := id) (by intro x; simp [hold]) hsr
                have hae : s3.aEx = ({ s with hasA := true, a := s.a.insert id ⟨v.name, v.alias, setOf v.roles, v.owner, v.dep, v.boss, v.chief, some code, col⟩ } : State).aEx :=
                  aEx_congr g3
                have hce : s3.cEx = ({ s with hasA := true, a := s.a.insert id ⟨v.name, v.alias, setOf v.roles, v.owner, v.dep, v.boss, v.chief, some code, col⟩ } : State).cEx :=
                  cEx_congr g3
                have hbe : s3.bEx = s.bEx := bEx_congr g4
                refine ⟨core_assemble (s' := { s3 with uCode := uc }) (e := ⟨v.name, v.alias, setOf v.roles, v.owner, v.dep, v.boss, v.chief, some code, col⟩)
                  hi.toInvCore g3 g4 g2 g1 ?_ ?_ ?_ ?_ ?_ ?_ k3 ?_ ?_ ?_ ?_ ?_ ?_ ?_ ?_ hid ?_ g14 g15, ?_, ?_⟩
                · show UI _ s3.a s3.uName; rw [g3, g8]; exact C03.uniqueAfter_create_ok hi.uName hold hun
                · show UI _ s3.a s3.uAlias; rw [g3, g9]; exact C03.uniqueAfter_create_ok hi.uAlias hold hua
                · show UI _ s3.a uc; rw [g3]
                  exact C03.uniqueAfter_create_ok (f := fun (e : EntA) => e.code.getD [])
                    (e := (⟨v.name, v.alias, setOf v.roles, v.owner, v.dep, v.boss, v.chief, some code, col⟩ : EntA)) hi.uCode hold huc
                · show SI _ s3.a s3.sRoles; rw [g3, g12]; exact hsr'.1
                · show NEK s3.sRoles; rw [g12]; exact hsr'.2
                · show BR s3.a s3.thg; rw [g3]; exact k1
                · exact k4
                · intro hne
                  rcases hdep hne with ⟨hc, _⟩ | hb
                  · cases hc
                  · rw [hbe] at hb; exact hb
                · show LinkInv s3.g s3.aEx s3.bEx; rw [g5, hae, hbe]; exact hg2
                · show LinkInv s3.p s3.cEx s3.bEx; rw [g6, hce, hbe]; exact hp2
                · show RcInv s3.rc s3.aEx s3.bEx; rw [g7, hbe]
                  exact hi.rc.mono (aEx_insert_mono g3) (fun _ h => h)
                · exact C03.uniqueAfter_create_nonempty hun rfl
                · exact C03.setAfter_ok_nonempty hsr (by simp)
                · intro c hc; cases hc; exact C03.uniqueAfter_create_nonempty huc rfl
                · show UI _ s3.a s3.uColour; rw [g3, g13]; exact UI_insert_fresh_empty hi.uColour hold (by simp [← hcol, hold])
                · show UI _ s3.b s3.uLabel; rw [g4, g11]; exact hi.uLabel
                · refine bossOK_insert (s' := { s3 with uCode := uc }) hi.boss g3 (fun hne => ?_) (fun hne => ?_)
                  · rcases hchief hne with ⟨hc, _⟩ | hb
                    · cases hc
                    · show s3.aEx _ = true; rw [hae]; exact hb
                  · rcases hboss hne with ⟨hc, _⟩ | hb
                    · cases hc
                    · show s3.aEx _ = true; rw [hae]; exact hb
              | some old =>
                have hcode : old.code = none := by
                  cases hc : old.code with
                  | none => rfl
                  | some c => simp [State.cEx, hold, hc] at hnc
                simp only [hold, Option.isSome_some, if_true, captureA, evName, evAlias, evRoles, evOwner, evDep, evBoss, evChief] at hun hua hsr hfk hdep hboss hchief
                obtain ⟨k1, k2, k3, k4⟩ := fkAfter_true_ok (e := ⟨v.name, v.alias, setOf v.roles, v.owner, v.dep, v.boss, v.chief, some code, col⟩)
                  (ents := s.a) (by exact hi.br) (by exact hi.thgDom) hold hfk
                obtain ⟨g1, g2, g3, g4, g5, g6, g7, g8, g9, g10, g11, g12, g13, g14, g15⟩ := k2.fields
                simp only at g1 g2 g3 g4 g5 g6 g7 g8 g9 g10 g11 g12 g13 g14 g15
                rw [g10] at huc
                have huc' : uniqueAfter true false ((fun (e : EntA) => e.code.getD []) old)
                    ((fun (e : EntA) => e.code.getD []) ⟨v.name, v.alias, setOf v.roles, v.owner, v.dep, v.boss, v.chief, some code, col⟩) id s.uCode = .ok uc := by
                  simpa [hcode] using huc
                have hsr' := C03.setAfter_ok (r := (·.roles)) (e := (⟨v.name, v.alias, setOf v.roles, v.owner, v.dep, v.boss, v.chief, some code, col⟩ : EntA))
                  hi.sRoles hi.nek (oldRoles := old.roles) (id := id) (by intro x; simp [hold]) hsr
                have hae : s3.aEx = ({ s with hasA := true, a := s.a.insert id ⟨v.name, v.alias, setOf v.roles, v.owner, v.dep, v.boss, v.chief, some code, col⟩ } : State).aEx :=
                  aEx_congr g3
                have hce : s3.cEx = ({ s with hasA := true, a := s.a.insert id ⟨v.name, v.alias, setOf v.roles, v.owner, v.dep, v.boss, v.chief, some code, col⟩ } : State).cEx :=
                  cEx_congr g3
                have hbe : s3.bEx = s.bEx := bEx_congr g4
                refine ⟨core_assemble (s' := { s3 with uCode := uc }) (e := ⟨v.name, v.alias, setOf v.roles, v.owner, v.dep, v.boss, v.chief, some code, col⟩)
                  hi.toInvCore g3 g4 g2 g1 ?_ ?_ ?_ ?_ ?_ ?_ k3 ?_ ?_ ?_ ?_ ?_ ?_ ?_ ?_ hid ?_ g14 g15, ?_, ?_⟩
                · show UI _ s3.a s3.uName; rw [g3, g8]
                  exact C03.uniqueAfter_true_ok (f := fun (e : EntA) => e.name) hi.uName hold hun
                · show UI _ s3.a s3.uAlias; rw [g3, g9]
                  exact C03.uniqueAfter_true_ok (f := fun (e : EntA) => e.alias.getD []) hi.uAlias hold hua
                · show UI _ s3.a uc; rw [g3]
                  exact C03.uniqueAfter_true_ok (f := fun (e : EntA) => e.code.getD []) hi.uCode hold huc'
                · show SI _ s3.a s3.sRoles; rw [g3, g12]; exact hsr'.1
                · show NEK s3.sRoles; rw [g12]; exact hsr'.2
                · show BR s3.a s3.thg; rw [g3]; exact k1
                · exact k4
                · intro hne
                  rcases hdep hne with ⟨hc, _⟩ | hb
                  · cases hc
                  · rw [hbe] at hb; exact hb
                · show LinkInv s3.g s3.aEx s3.bEx; rw [g5, hae, hbe]; exact hg2
                · show LinkInv s3.p s3.cEx s3.bEx; rw [g6, hce, hbe]; exact hp2
                · show RcInv s3.rc s3.aEx s3.bEx; rw [g7, hbe]
                  exact hi.rc.mono (aEx_insert_mono g3) (fun _ h => h)
                · exact C03.uniqueAfter_true_nonempty hun
                · exact C03.setAfter_ok_nonempty hsr (hi.rolesNonEmpty id old hold)
                · intro c hc; cases hc; exact C03.uniqueAfter_create_nonempty huc rfl
                · show UI _ s3.a s3.uColour; rw [g3, g13]; exact UI_insert_same hi.uColour hold (by simp [← hcol, hold])
                · show UI _ s3.b s3.uLabel; rw [g4, g11]; exact hi.uLabel
                · refine bossOK_insert (s' := { s3 with uCode := uc }) hi.boss g3 (fun hne => ?_) (fun hne => ?_)
                  · rcases hchief hne with ⟨hc, _⟩ | hb
                    · cases hc
                    · show s3.aEx _ = true; rw [hae]; exact hb
                  · rcases hboss hne with ⟨hc, _⟩ | hb
                    · cases hc
                    · show s3.aEx _ = true; rw [hae]; exact hb



/-- `A2.Create` (extended child store), on an id that does not exist at all or over an existing
    parent entity without `ext2` data (its `ext1` data, if any, stays) -/
theorem inv_createA2 {s s' : State} {id : Id} {v : ValsA} {colour : Bytes} (hi : Inv s)
    (h : createA2 s id v colour = .ok s') : Inv s' := by
  unfold createA2 at h
  generalize hcd : (s.a.lookup id).bind (·.code) = cd at h
  split at h
  · cases h
  · next hid =>
    split at h
    · cases h
    · next hnx =>
      simp only [bind, Except.bind] at h
      split at h
      · cases h
      · next s2 hsl =>
        obtain ⟨g', hg', rfl⟩ := setGroups_ok hsl
        have hg1 : LinkInv s.g ({ s with hasA := true, a := s.a.insert id ⟨v.name, v.alias, setOf v.roles, v.owner, v.dep, v.boss, v.chief, cd, some colour⟩ } : State).aEx s.bEx :=
          hi.g.mono (aEx_insert_mono rfl) (fun _ h => h)
        have hg2 := LinkPair.setLinks_pres hg1 (aEx_insert_self rfl) hg'
        have hcx : ∀ j, s.cEx j = true → ({ s with hasA := true, a := s.a.insert id ⟨v.name, v.alias, setOf v.roles, v.owner, v.dep, v.boss, v.chief, cd, some colour⟩ } : State).cEx j = true :=
          cEx_insert_mono rfl (by intro hc; simpa [State.cEx, ← hcd] using hc)
        split at h
        · cases h
        · next s3 hs3 =>
          split at h
          · cases h
          · next uc huc =>
            simp only [pure, Except.pure] at h
            cases h
            obtain ⟨un, ua, sr, hun, hua, hsr, hfk, hdep, hboss, hchief⟩ := afterUpdateA_ok hs3
            simp only [Map.lookup_insert, if_true, evName, evAlias, evRoles, evOwner, evDep, evBoss, evChief] at hun hua hsr hfk hdep hboss hchief
            cases hold : s.a.lookup id with
            | none =>
              simp only [hold, Option.isSome_none, Bool.false_eq_true, if_false, Captured.none] at hun hua hsr hfk hdep hboss hchief
              obtain ⟨k1, k2, k3, k4⟩ := fkAfter_create_ok (e := ⟨v.name, v.alias, setOf v.roles, v.owner, v.dep, v.boss, v.chief, cd, some colour⟩)
                (ents := s.a) (by exact hi.br) (by exact hi.thgDom) hold hfk
              obtain ⟨g1, g2, g3, g4, g5, g6, g7, g8, g9, g10, g11, g12, g13, g14, g15⟩ := k2.fields
              simp only at g1 g2 g3 g4 g5 g6 g7 g8 g9 g10 g11 g12 g13 g14 g15
              rw [g13] at huc
              have hsr' := C03.setAfter_ok (r := (·.roles)) (e := (⟨v.name, v.alias, setOf v.roles, v.owner, v.dep, v.boss, v.chief, cd, some colour⟩ : EntA))
                hi.sRoles hi.nek (oldRoles := []) (id := id) (by intro x; simp [hold]) hsr
              have hae : s3.aEx = ({ s with hasA := true, a := s.a.insert id ⟨v.name, v.alias, setOf v.roles, v.owner, v.dep, v.boss, v.chief, cd, some colour⟩ } : State).aEx := aEx_congr g3
              have hce : s3.cEx = ({ s with hasA := true, a := s.a.insert id ⟨v.name, v.alias, setOf v.roles, v.owner, v.dep, v.boss, v.chief, cd, some colour⟩ } : State).cEx := cEx_congr g3
              have hbe : s3.bEx = s.bEx := bEx_congr g4
              refine ⟨core_assemble (s' := { s3 with uColour := uc }) (e := ⟨v.name, v.alias, setOf v.roles, v.owner, v.dep, v.boss, v.chief, cd, some colour⟩)
                hi.toInvCore g3 g4 g2 g1 ?_ ?_ ?_ ?_ ?_ ?_ k3 ?_ ?_ ?_ ?_ ?_ ?_ ?_ ?_ hid ?_ g14 g15, ?_, ?_⟩
              · show UI _ s3.a s3.uName; rw [g3, g8]; exact C03.uniqueAfter_create_ok hi.uName hold hun
              · show UI _ s3.a s3.uAlias; rw [g3, g9]; exact C03.uniqueAfter_create_ok hi.uAlias hold hua
              · show UI _ s3.a s3.uCode; rw [g3, g10]; exact UI_insert_fresh_empty hi.uCode hold (by simp [← hcd, hold])
              · show SI _ s3.a s3.sRoles; rw [g3, g12]; exact hsr'.1
              · show NEK s3.sRoles; rw [g12]; exact hsr'.2
              · show BR s3.a s3.thg; rw [g3]; exact k1
              · exact k4
              · intro hne
                rcases hdep hne with ⟨hc, _⟩ | hb
                · cases hc
                · rw [hbe] at hb; exact hb
              · show LinkInv s3.g s3.aEx s3.bEx; rw [g5, hae, hbe]; exact hg2
              · show LinkInv s3.p s3.cEx s3.bEx; rw [g6, hce, hbe]; exact hi.p.mono hcx (fun _ h => h)
              · show RcInv s3.rc s3.aEx s3.bEx; rw [g7, hbe]
                exact hi.rc.mono (aEx_insert_mono g3) (fun _ h => h)
              · exact C03.uniqueAfter_create_nonempty hun rfl
              · exact C03.setAfter_ok_nonempty hsr (by simp)
              · intro c hc; simp [← hcd, hold] at hc
              · show UI _ s3.a uc; rw [g3]
                exact C03.uniqueAfter_create_ok (f := fun (e : EntA) => e.colour.getD [])
                  (e := (⟨v.name, v.alias, setOf v.roles, v.owner, v.dep, v.boss, v.chief, cd, some colour⟩ : EntA)) hi.uColour hold huc
              · show UI _ s3.b s3.uLabel; rw [g4, g11]; exact hi.uLabel
              · refine bossOK_insert (s' := { s3 with uColour := uc }) hi.boss g3 (fun hne => ?_) (fun hne => ?_)
                · rcases hchief hne with ⟨hc, _⟩ | hb
                  · cases hc
                  · show s3.aEx _ = true; rw [hae]; exact hb
                · rcases hboss hne with ⟨hc, _⟩ | hb
                  · cases hc
                  · show s3.aEx _ = true; rw [hae]; exact hb
            | some old =>
              have hcolour : old.colour = none := by
                cases hc : old.colour with
                | none => rfl
                | some c => simp [State.xEx, hold, hc] at hnx
              have hcdo : cd = old.code := by rw [← hcd, hold]; rfl
              simp only [hold, Option.isSome_some, if_true, captureA, evName, evAlias, evRoles, evOwner, evDep, evBoss, evChief] at hun hua hsr hfk hdep hboss hchief
              obtain ⟨k1, k2, k3, k4⟩ := fkAfter_true_ok (e := ⟨v.name, v.alias, setOf v.roles, v.owner, v.dep, v.boss, v.chief, cd, some colour⟩)
                (ents := s.a) (by exact hi.br) (by exact hi.thgDom) hold hfk
              obtain ⟨g1, g2, g3, g4, g5, g6, g7, g8, g9, g10, g11, g12, g13, g14, g15⟩ := k2.fields
              simp only at g1 g2 g3 g4 g5 g6 g7 g8 g9 g10 g11 g12 g13 g14 g15
              rw [g13] at huc
              have huc' : uniqueAfter true true ((fun (e : EntA) => e.colour.getD []) old)
                  ((fun (e : EntA) => e.colour.getD []) ⟨v.name, v.alias, setOf v.roles, v.owner, v.dep, v.boss, v.chief, cd, some colour⟩) id s.uColour = .ok uc := by
                simpa [hcolour] using huc
              have hsr' := C03.setAfter_ok (r := (·.roles)) (e := (⟨v.name, v.alias, setOf v.roles, v.owner, v.dep, v.boss, v.chief, cd, some colour⟩ : EntA))
                hi.sRoles hi.nek (oldRoles := old.roles) (id := id) (by intro x; simp [hold]) hsr
              have hae : s3.aEx = ({ s with hasA := true, a := s.a.insert id ⟨v.name, v.alias, setOf v.roles, v.owner, v.dep, v.boss, v.chief, cd, some colour⟩ } : State).aEx := aEx_congr g3
              have hce : s3.cEx = ({ s with hasA := true, a := s.a.insert id ⟨v.name, v.alias, setOf v.roles, v.owner, v.dep, v.boss, v.chief, cd, some colour⟩ } : State).cEx := cEx_congr g3
              have hbe : s3.bEx = s.bEx := bEx_congr g4
              refine ⟨core_assemble (s' := { s3 with uColour := uc }) (e := ⟨v.name, v.alias, setOf v.roles, v.owner, v.dep, v.boss, v.chief, cd, some colour⟩)
                hi.toInvCore g3 g4 g2 g1 ?_ ?_ ?_ ?_ ?_ ?_ k3 ?_ ?_ ?_ ?_ ?_ ?_ ?_ ?_ hid ?_ g14 g15, ?_, ?_⟩
              · show UI _ s3.a s3.uName; rw [g3, g8]
                exact C03.uniqueAfter_true_ok (f := fun (e : EntA) => e.name) hi.uName hold hun
              · show UI _ s3.a s3.uAlias; rw [g3, g9]
                exact C03.uniqueAfter_true_ok (f := fun (e : EntA) => e.alias.getD []) hi.uAlias hold hua
              · show UI _ s3.a s3.uCode; rw [g3, g10]; exact UI_insert_same hi.uCode hold (by simp [hcdo])
              · show SI _ s3.a s3.sRoles; rw [g3, g12]; exact hsr'.1
              · show NEK s3.sRoles; rw [g12]; exact hsr'.2
              · show BR s3.a s3.thg; rw [g3]; exact k1
              · exact k4
              · intro hne
                rcases hdep hne with ⟨hc, _⟩ | hb
                · cases hc
                · rw [hbe] at hb; exact hb
              · show LinkInv s3.g s3.aEx s3.bEx; rw [g5, hae, hbe]; exact hg2
              · show LinkInv s3.p s3.cEx s3.bEx; rw [g6, hce, hbe]; exact hi.p.mono hcx (fun _ h => h)
              · show RcInv s3.rc s3.aEx s3.bEx; rw [g7, hbe]
                exact hi.rc.mono (aEx_insert_mono g3) (fun _ h => h)
              · exact C03.uniqueAfter_true_nonempty hun
              · exact C03.setAfter_ok_nonempty hsr (hi.rolesNonEmpty id old hold)
              · intro c hc; exact hi.codeNonEmpty id old c hold (by rw [← hcdo]; exact hc)
              · show UI _ s3.a uc; rw [g3]
                exact C03.uniqueAfter_true_ok (f := fun (e : EntA) => e.colour.getD []) hi.uColour hold huc'
              · show UI _ s3.b s3.uLabel; rw [g4, g11]; exact hi.uLabel
              · refine bossOK_insert (s' := { s3 with uColour := uc }) hi.boss g3 (fun hne => ?_) (fun hne => ?_)
                · rcases hchief hne with ⟨hc, _⟩ | hb
                  · cases hc
                  · show s3.aEx _ = true; rw [hae]; exact hb
                · rcases hboss hne with ⟨hc, _⟩ | hb
                  · cases hc
                  · show s3.aEx _ = true; rw [hae]; exact hb

/-- `A2.Update`: parent fields and `colour` through the extended child store -/
theorem inv_updateA2 {s s' : State} {id : Id} {v : ValsA} {colour : Bytes} {chk : Option ChkA} {cc : Bool} (hi : Inv s)
    (h : updateA2 s id v colour chk cc = .ok s') : Inv s' := by
  unfold updateA2 at h
  split at h
  · cases h
  · next hid =>
    split at h
    · cases h
    · next old hold =>
      split at h
      · cases h
      · next oc hoc =>
      generalize hnewc : newColour chk cc colour oc = newc at h
      simp only [bind, Except.bind] at h
      have hg1 : LinkInv s.g ({ s with a := s.a.insert id { persistFields old v chk with colour := some newc } } : State).aEx s.bEx :=
        hi.g.mono (aEx_insert_mono rfl) (fun _ h => h)
      -- the link step, performed or not
      have hlink : ∃ g' s3 uc, LinkInv g' ({ s with a := s.a.insert id { persistFields old v chk with colour := some newc } } : State).aEx s.bEx ∧
          afterUpdateA false (captureA s id) ({ s with a := s.a.insert id { persistFields old v chk with colour := some newc }, g := g' } : State) id = .ok s3 ∧
          uniqueAfter false true oc newc id s3.uColour = .ok uc ∧ s' = { s3 with uColour := uc } := by
        by_cases hp : proceed chk (fun c => c.groups) = true
        · simp only [hp, if_true] at h
          split at h
          · cases h
          · next s2 hs2 =>
            obtain ⟨g', hg', rfl⟩ := setGroups_ok hs2
            split at h
            · cases h
            · next s3 hs3 =>
              split at h
              · cases h
              · next uc huc =>
                simp only [pure, Except.pure] at h
                cases h
                exact ⟨g', s3, uc, LinkPair.setLinks_pres hg1 (aEx_insert_self rfl) hg', hs3, huc, rfl⟩
        · simp only [hp, Bool.false_eq_true, if_false, pure, Except.pure] at h
          split at h
          · cases h
          · next s3 hs3 =>
            split at h
            · cases h
            · next uc huc =>
              cases h
              exact ⟨s.g, s3, uc, hg1, hs3, huc, rfl⟩
      obtain ⟨g', s3, uc, hg2, h3, huc, rfl⟩ := hlink
      obtain ⟨un, ua, sr, hun, hua, hsr, hfk, hdep, hboss, hchief⟩ := afterUpdateA_ok h3
      simp only [Map.lookup_insert, if_true, captureA, hold, evName, evAlias, evRoles, evOwner, evDep, evBoss, evChief] at hun hua hsr hfk hdep hboss hchief
      obtain ⟨k1, k2, k3, k4⟩ := fkAfter_update_ok (e := { persistFields old v chk with colour := some newc }) (ents := s.a) (by exact hi.br)
        (by exact hi.thgDom) hold (by exact hi.ownerExists id old hold) hfk
      obtain ⟨g1, g2, g3, g4, g5, g6, g7, g8, g9, g10, g11, g12, g13, g14, g15⟩ := k2.fields
      simp only at g1 g2 g3 g4 g5 g6 g7 g8 g9 g10 g11 g12 g13 g14 g15
      rw [g13] at huc
      have huc' : uniqueAfter false true ((fun (e : EntA) => e.colour.getD []) old)
          ((fun (e : EntA) => e.colour.getD []) { persistFields old v chk with colour := some newc }) id s.uColour = .ok uc := by
        simpa [hoc] using huc
      have hsr' := C03.setAfter_ok (r := (·.roles)) (e := ({ persistFields old v chk with colour := some newc } : EntA))
        hi.sRoles hi.nek (oldRoles := old.roles) (id := id) (by intro x; simp [hold]) hsr
      have hae : s3.aEx = ({ s with a := s.a.insert id { persistFields old v chk with colour := some newc } } : State).aEx := aEx_congr g3
      have hbe : s3.bEx = s.bEx := bEx_congr g4
      refine ⟨core_assemble (s' := { s3 with uColour := uc }) (e := { persistFields old v chk with colour := some newc })
        hi.toInvCore g3 g4 g2 (by show s3.hasA = true; rw [g1]; exact hi.hasA id old hold)
        ?_ ?_ ?_ ?_ ?_ ?_ k3 ?_ ?_ ?_ ?_ ?_ ?_ ?_ ?_ hid ?_ g14 g15, ?_, ?_⟩
      · show UI _ s3.a s3.uName; rw [g3, g8]; exact C03.uniqueAfter_update_ok (f := fun (e : EntA) => e.name) hi.uName hold hun
      · show UI _ s3.a s3.uAlias; rw [g3, g9]
        exact C03.uniqueAfter_update_ok (f := fun (e : EntA) => e.alias.getD []) hi.uAlias hold hua
      · show UI _ s3.a s3.uCode; rw [g3, g10]; exact UI_insert_same hi.uCode hold rfl
      · show SI _ s3.a s3.sRoles; rw [g3, g12]; exact hsr'.1
      · show NEK s3.sRoles; rw [g12]; exact hsr'.2
      · show BR s3.a s3.thg; rw [g3]; exact k1
      · exact k4
      · intro hne
        rcases hdep hne with ⟨_, hc⟩ | hb
        · have := hi.depExists id old hold (by rw [hc]; exact hne)
          rw [hc] at this; exact this
        · rw [hbe] at hb; exact hb
      · show LinkInv s3.g s3.aEx s3.bEx; rw [g5, hae, hbe]; exact hg2
      · show LinkInv s3.p s3.cEx s3.bEx; rw [g6, hbe]
        exact hi.p.mono (cEx_insert_mono g3 (by simp [State.cEx, hold, persistFields])) (fun _ h => h)
      · show RcInv s3.rc s3.aEx s3.bEx; rw [g7, hbe]
        exact hi.rc.mono (aEx_insert_mono g3) (fun _ h => h)
      · exact C03.uniqueAfter_update_nonempty hun (hi.namesNonEmpty id old hold)
      · exact C03.setAfter_ok_nonempty hsr (hi.rolesNonEmpty id old hold)
      · intro c hc; exact hi.codeNonEmpty id old c hold hc
      · show UI _ s3.a uc; rw [g3]
        exact C03.uniqueAfter_update_ok (f := fun (e : EntA) => e.colour.getD []) hi.uColour hold huc'
      · show UI _ s3.b s3.uLabel; rw [g4, g11]; exact hi.uLabel
      · refine bossOK_insert (s' := { s3 with uColour := uc }) hi.boss g3 (fun hne => ?_) (fun hne => ?_)
        · rcases hchief hne with ⟨_, hc⟩ | hb
          · have := hi.boss.chief id old hold (by rw [hc]; exact hne)
            rw [hc] at this; exact aEx_insert_mono g3 _ this
          · show s3.aEx _ = true; rw [hae]; exact hb
        · rcases hboss hne with ⟨_, hc⟩ | hb
          · have := hi.boss.boss id old hold (by rw [hc]; exact hne) (by simp)
            rw [hc] at this; exact aEx_insert_mono g3 _ this
          · show s3.aEx _ = true; rw [hae]; exact hb

theorem bEx_insert_mono {s : State} {id : Id} {e : EntB} {s' : State} (hb : s'.b = s.b.insert id e) :
    ∀ j, s.bEx j = true → s'.bEx j = true := by
  intro j hj; simp only [State.bEx, hb, Map.lookup_insert]; split
  · simp
  · exact hj

/-- the core invariant when only store B's entity table grows / is overwritten in place and
    everything else of the core is untouched -/
theorem core_of_b_insert {s s' : State} {id : Id} {e : EntB} (hi : InvCore s) (hid : id ≠ [])
    (hb : s'.b = s.b.insert id e) (ha : s'.a = s.a) (hg : s'.g = s.g) (hp : s'.p = s.p) (hrc : s'.rc = s.rc)
    (ht : s'.thg = s.thg) (h1 : s'.uName = s.uName) (h2 : s'.uAlias = s.uAlias) (h3 : s'.uCode = s.uCode)
    (h4 : s'.sRoles = s.sRoles) (h5 : s'.hasA = s.hasA) (h6 : s'.hasB = true) (h7 : s'.uColour = s.uColour)
    (h8 : s'.pe = s.pe) (h9 : s'.mt = s.mt) : InvCore s' := by
  have hae : s'.aEx = s.aEx := aEx_congr ha
  have hce : s'.cEx = s.cEx := cEx_congr ha
  have hmono := bEx_insert_mono hb
  refine ⟨by rw [ha, h1]; exact hi.uName, by rw [ha, h2]; exact hi.uAlias, by rw [ha, h3]; exact hi.uCode,
    by rw [ha, h4]; exact hi.sRoles, by rw [h4]; exact hi.nek, by rw [ha, ht]; exact hi.br, ?_, ?_, ?_,
    by rw [hg, hae]; exact hi.g.mono (fun _ h => h) hmono, by rw [hp, hce]; exact hi.p.mono (fun _ h => h) hmono,
    by rw [hrc, hae]; exact hi.rc.mono (fun _ h => h) hmono,
    by rw [ha]; exact hi.namesNonEmpty, by rw [ha]; exact hi.rolesNonEmpty, by rw [ha]; exact hi.codeNonEmpty,
    by rw [ha]; exact hi.idA, ?_, by rw [ha, h5]; exact hi.hasA, fun _ _ _ => h6, by rw [ha, h7]; exact hi.uColour,
    by rw [h8, hae]; exact hi.pe, by rw [h9, hae]; exact hi.mt⟩
  · intro b l; rw [ht]; intro hl; exact hmono b (hi.thgDom b l hl)
  · intro j e'; rw [ha]; intro hj hne; exact hmono _ (hi.ownerExists j e' hj hne)
  · intro j e'; rw [ha]; intro hj hne; exact hmono _ (hi.depExists j e' hj hne)
  · rw [hb]; simp only [Map.lookup_insert]
    have : ¬ ([] : Id) = id := fun h => hid h.symm
    simp [this, hi.idB]

theorem inv_createB {s s' : State} {id : Id} {label : Option Bytes} (hi : Inv s) (h : createB s id label = .ok s') :
    Inv s' := by
  unfold createB at h
  split at h
  · cases h
  · next hid =>
    split at h
    · cases h
    · next hex =>
      have hfresh : s.b.lookup id = none := by simpa using hex
      simp only [bind, Except.bind, pure, Except.pure] at h
      split at h
      · cases h
      · next ul hul =>
        cases h
        exact ⟨core_of_b_insert (e := ⟨label⟩) hi.toInvCore hid rfl rfl rfl rfl rfl rfl rfl rfl rfl rfl rfl rfl rfl rfl rfl,
          C03.uniqueAfter_create_ok (f := fun (e : EntB) => e.label.getD []) (e := ⟨label⟩) hi.uLabel hfresh hul,
          bossOK_congr hi.boss rfl⟩

theorem inv_updateB {s s' : State} {id : Id} {label : Option Bytes} {chk : Option Bool} (hi : Inv s)
    (h : updateB s id label chk = .ok s') : Inv s' := by
  unfold updateB at h
  split at h
  · cases h
  · next hid =>
    split at h
    · cases h
    · next old hold =>
      simp only [bind, Except.bind, pure, Except.pure] at h
      split at h
      · cases h
      · next ul hul =>
        cases h
        exact ⟨core_of_b_insert hi.toInvCore hid rfl rfl rfl rfl rfl rfl rfl rfl rfl rfl rfl (hi.hasB id old hold) rfl rfl rfl,
          C03.uniqueAfter_update_ok (f := fun (e : EntB) => e.label.getD []) hi.uLabel hold hul,
          bossOK_congr hi.boss rfl⟩

theorem inv_rcOp {s s' : State} {f : RcPair → Except Err RcPair} (hi : Inv s)
    (hf : ∀ r', f s.rc = .ok r' → RcInv r' s.aEx s.bEx) (h : rcOp s f = .ok s') : Inv s' := by
  simp only [rcOp, bind, Except.bind, pure, Except.pure] at h
  split at h
  · cases h
  · next r' hr =>
    cases h
    exact ⟨{ hi.toInvCore with rc := hf r' hr }, hi.uLabel, bossOK_congr hi.boss rfl⟩



theorem inv_peersOp {s s' : State} {f : SelfMap → Except Err SelfMap} (hi : Inv s)
    (hf : ∀ m', f s.pe = .ok m' → SelfInv m' s.aEx) (h : peersOp s f = .ok s') : Inv s' := by
  simp only [peersOp, bind, Except.bind, pure, Except.pure] at h
  split at h
  · cases h
  · next m' hm =>
    cases h
    exact ⟨{ hi.toInvCore with pe := hf m' hm }, hi.uLabel, bossOK_congr hi.boss rfl⟩

theorem inv_setMentors {s s' : State} {id : Id} {ks : List Id} (hi : Inv s) (h : setMentors s id ks = .ok s') : Inv s' := by
  unfold setMentors at h
  cases ha : s.aEx id with
  | false => simp [ha] at h
  | true =>
    simp only [ha, Bool.not_true, Bool.false_eq_true, if_false, bind, Except.bind, pure, Except.pure] at h
    split at h
    · cases h
    · next m' hm =>
      cases h
      exact ⟨{ hi.toInvCore with mt := LinkPair.setLinks_pres hi.mt ha hm }, hi.uLabel, bossOK_congr hi.boss rfl⟩

/-! ### deleting a thing -/

theorem InvCore.idx {s : State} (hi : InvCore s) : IdxInv s.a s :=
  ⟨hi.uName, hi.uAlias, hi.sRoles, hi.nek, hi.br, hi.thgDom⟩

theorem LinkPair.cleanFwd_of_none {p : LinkPair} {bEx : Id → Bool} {id : Id} (h : p.fwd.lookup id = none) :
    p.cleanFwd bEx id = p := by
  simp [LinkPair.cleanFwd, h]

/-- one constraint round of a delete: the first one strips the entity's index entries, the later
    ones find nothing -/
theorem strip_round {s s1 t : State} {id : Id} {e : EntA} (hi : InvCore s) (hold : s.a.lookup id = some e)
    (ha : s1.a = s.a) (hx : IdxInv s.a s1 ∨ IdxInv (s.a.erase id) s1) (h : beforeDeleteA s1 id = .ok t) :
    IdxInv (s.a.erase id) t ∧ BDFrame s1 t := by
  rcases hx with hx | hx
  · have := beforeDeleteA_first (s := s1) (by rw [ha]; exact hx) (by rw [ha]; exact hold) h
    rwa [ha] at this
  · exact beforeDeleteA_again hx (by simp) (by rw [ha]; exact hold)
      (other_names_differ (f := fun (e : EntA) => e.name) hi.uName hold)
      (other_names_differ (f := fun (e : EntA) => e.alias.getD []) hi.uAlias hold) h

theorem deleteA0Tail_stages {s s1 s' : State} {id : Id} {e : EntA} (hi : InvCore s) (hold : s.a.lookup id = some e)
    (ha : s1.a = s.a) (hx : IdxInv s.a s1 ∨ IdxInv (s.a.erase id) s1) (h : deleteA0Tail s1 e id = .ok s') :
    ∃ s2, IdxInv (s.a.erase id) s2 ∧ s2.hasA = s1.hasA ∧ s2.hasB = s1.hasB ∧ s2.a = s1.a ∧ s2.b = s1.b ∧ s2.g = s1.g ∧
      s2.p = s1.p ∧ s2.rc = s1.rc ∧ s2.uLabel = s1.uLabel ∧ s2.uCode = s1.uCode ∧
      s2.uColour = uniqueBeforeDelete (e.colour.getD []) s1.uColour ∧ s2.pe = s1.pe ∧ s2.mt = s1.mt ∧
      s' = { s2 with a := s2.a.erase id,
                     g := { fwd := (s2.g.cleanFwd s2.bEx id).fwd.erase id, bwd := (s2.g.cleanFwd s2.bEx id).bwd },
                     p := { fwd := s2.p.fwd.erase id, bwd := s2.p.bwd },
                     rc := { fwd := (s2.rc.cleanFwd s2.bEx id).fwd.erase id, bwd := (s2.rc.cleanFwd s2.bEx id).bwd },
                     pe := (selfClean s2.pe s2.aEx id).erase id,
                     mt := { fwd := ((s2.mt.cleanFwd s2.aEx id).cleanBwd s2.aEx id).fwd.erase id,
                             bwd := ((s2.mt.cleanFwd s2.aEx id).cleanBwd s2.aEx id).bwd.erase id } } := by
  simp only [deleteA0Tail, bind, Except.bind, pure, Except.pure] at h
  split at h
  · cases h
  · next tx htx =>
    split at h
    · cases h
    · next s2 hs2 =>
      cases h
      obtain ⟨i1, i2⟩ := strip_round hi hold ha hx htx
      obtain ⟨f1, f2, f3, f4, f5, f6, f7, f8, f9, f10, f11, f12⟩ := i2.fields
      have i1' : IdxInv (s.a.erase id) ({ tx with uColour := uniqueBeforeDelete (evColour (some e)) tx.uColour } : State) :=
        ⟨i1.uName, i1.uAlias, i1.sRoles, i1.nek, i1.br, i1.thgDom⟩
      obtain ⟨j1, j2⟩ := strip_round (s1 := { tx with uColour := uniqueBeforeDelete (evColour (some e)) tx.uColour })
        hi hold (f3.trans ha) (Or.inr i1') hs2
      obtain ⟨g1, g2, g3, g4, g5, g6, g7, g8, g9, g10, g11, g12⟩ := j2.fields
      simp only at g1 g2 g3 g4 g5 g6 g7 g8 g9 g10 g11 g12
      exact ⟨s2, j1, g1.trans f1, g2.trans f2, g3.trans f3, g4.trans f4, g5.trans f5, g6.trans f6, g7.trans f7,
        g9.trans f9, g8.trans f8, by rw [g10, f10]; rfl, g11.trans f11, g12.trans f12, rfl⟩

/-- what `deleteA0` computes, stage by stage -/
theorem deleteA0_stages {s s' : State} {id : Id} (hi : InvCore s) (h : deleteA0 s id = .ok s') :
    id ≠ [] ∧ ∃ e s2, s.a.lookup id = some e ∧ IdxInv (s.a.erase id) s2 ∧
      s2.hasA = s.hasA ∧ s2.hasB = s.hasB ∧ s2.a = s.a ∧ s2.b = s.b ∧ s2.g = s.g ∧ s2.rc = s.rc ∧
      s2.uLabel = s.uLabel ∧ s2.uCode = uniqueBeforeDelete (e.code.getD []) s.uCode ∧
      s2.p = s.p.cleanFwd s.bEx id ∧ s2.uColour = uniqueBeforeDelete (e.colour.getD []) s.uColour ∧
      s2.pe = s.pe ∧ s2.mt = s.mt ∧
      s' = { s2 with a := s2.a.erase id,
                     g := { fwd := (s2.g.cleanFwd s2.bEx id).fwd.erase id, bwd := (s2.g.cleanFwd s2.bEx id).bwd },
                     p := { fwd := s2.p.fwd.erase id, bwd := s2.p.bwd },
                     rc := { fwd := (s2.rc.cleanFwd s2.bEx id).fwd.erase id, bwd := (s2.rc.cleanFwd s2.bEx id).bwd },
                     pe := (selfClean s2.pe s2.aEx id).erase id,
                     mt := { fwd := ((s2.mt.cleanFwd s2.aEx id).cleanBwd s2.aEx id).fwd.erase id,
                             bwd := ((s2.mt.cleanFwd s2.aEx id).cleanBwd s2.aEx id).bwd.erase id } } := by
  unfold deleteA0 at h
  split at h
  · cases h
  · next hid =>
    refine ⟨hid, ?_⟩
    split at h
    · cases h
    · next e hold =>
      simp only [bind, Except.bind, pure, Except.pure] at h
      cases hc : e.code with
      | none =>
        simp only [hc, Option.isSome_none, Bool.false_eq_true, if_false] at h
        obtain ⟨s2, ix, t1, t2, t3, t4, t5, t6, t7, t8, t9, t10, t11, t12, rfl⟩ := deleteA0Tail_stages hi hold rfl (Or.inl hi.idx) h
        have hpn : s.p.fwd.lookup id = none := by
          cases hl : s.p.fwd.lookup id with
          | none => rfl
          | some l => have := hi.p.fwdDom id l hl; simp [State.cEx, hold, hc] at this
        exact ⟨e, s2, hold, ix, t1, t2, t3, t4, t5, t7, t8,
          by rw [t9]; simp [uniqueBeforeDelete, hc], by rw [t6, LinkPair.cleanFwd_of_none hpn], t10, t11, t12, rfl⟩
      | some c =>
        simp only [hc, Option.isSome_some, if_true] at h
        split at h
        · cases h
        · next s1 hs1 =>
          split at hs1
          · cases hs1
          · next t ht =>
            cases hs1
            obtain ⟨i1, i2⟩ := beforeDeleteA_first hi.idx hold ht
            obtain ⟨f1, f2, f3, f4, f5, f6, f7, f8, f9, f10, f11, f12⟩ := i2.fields
            have i1' : IdxInv (s.a.erase id)
                ({ t with uCode := uniqueBeforeDelete (evCode (some e)) t.uCode, p := t.p.cleanFwd t.bEx id } : State) :=
              ⟨i1.uName, i1.uAlias, i1.sRoles, i1.nek, i1.br, i1.thgDom⟩
            obtain ⟨s2, ix, t1, t2, t3, t4, t5, t6, t7, t8, t9, t10, t11, t12, rfl⟩ :=
              deleteA0Tail_stages (s1 := { t with uCode := uniqueBeforeDelete (evCode (some e)) t.uCode, p := t.p.cleanFwd t.bEx id })
                hi hold f3 (Or.inr i1') h
            simp only at t1 t2 t3 t4 t5 t6 t7 t8 t9 t10 t11 t12
            have hbe : t.bEx = s.bEx := bEx_congr f4
            exact ⟨e, s2, hold, ix, t1.trans f1, t2.trans f2, t3.trans f3, t4.trans f4, t5.trans f5, t7.trans f7,
              t8.trans f9, by rw [t9, f8]; simp [evCode, hc], by rw [t6, f6, hbe], by rw [t10, f10], t11.trans f11, t12.trans f12, rfl⟩

theorem aEx_erase {s s' : State} {id : Id} (ha : s'.a = s.a.erase id) :
    ∀ j, s.aEx j = true → j ≠ id → s'.aEx j = true := by
  intro j hj hne; simp only [State.aEx, ha, Map.lookup_erase, hne, if_false]; exact hj

theorem cEx_erase {s s' : State} {id : Id} (ha : s'.a = s.a.erase id) :
    ∀ j, s.cEx j = true → j ≠ id → s'.cEx j = true := by
  intro j hj hne; simp only [State.cEx, ha, Map.lookup_erase, hne, if_false]; exact hj

theorem core_deleteA0 {s s' : State} {id : Id} (hi : InvCore s) (h : deleteA0 s id = .ok s') :
    InvCore s' ∧ s'.a = s.a.erase id ∧ s'.b = s.b ∧ s'.uLabel = s.uLabel ∧ s'.hasB = s.hasB ∧ s'.hasA = s.hasA := by
  obtain ⟨hid, e, s2, hold, ix, q1, q2, q3, q4, q5, q6, q7, q8, q9, q10, q11, q12, rfl⟩ := deleteA0_stages hi h
  have hbe : s2.bEx = s.bEx := bEx_congr q4
  refine ⟨⟨?_, ?_, ?_, ?_, ?_, ?_, ?_, ?_, ?_, ?_, ?_, ?_, ?_, ?_, ?_, ?_, ?_, ?_, ?_, ?_, ?_, ?_⟩, by simp [q3], q4, q7, q2, q1⟩
  · show UI _ (s2.a.erase id) s2.uName; rw [q3]; exact ix.uName
  · show UI _ (s2.a.erase id) s2.uAlias; rw [q3]; exact ix.uAlias
  · show UI _ (s2.a.erase id) s2.uCode; rw [q3, q8]
    exact C03.uniqueBeforeDelete_ok (f := fun (e : EntA) => e.code.getD []) hi.uCode hold
  · show SI _ (s2.a.erase id) s2.sRoles; rw [q3]; exact ix.sRoles
  · exact ix.nek
  · show BR (s2.a.erase id) s2.thg; rw [q3]; exact ix.br
  · intro b l; show s2.thg.lookup b = some l → _
    intro hl; have := ix.thgDom b l hl; simpa [State.bEx] using this
  · intro j e'; show (s2.a.erase id).lookup j = some e' → _ → (State.bEx _ _) = true
    rw [q3]; simp only [Map.lookup_erase]; split
    · simp
    · intro hj hne; have := hi.ownerExists j e' hj hne; simpa [State.bEx, q4] using this
  · intro j e'; show (s2.a.erase id).lookup j = some e' → _ → (State.bEx _ _) = true
    rw [q3]; simp only [Map.lookup_erase]; split
    · simp
    · intro hj hne; have := hi.depExists j e' hj hne; simpa [State.bEx, q4] using this
  · have := LinkPair.cleanFwd_drop_inv (aEx' := ({ s2 with a := s2.a.erase id } : State).aEx) (id := id) hi.g
      (aEx_erase (by simp [q3]))
    rw [q5, hbe]
    exact this.mono (fun _ h => h) (fun j hj => by simpa [State.bEx, q4] using hj)
  · have := LinkPair.cleanFwd_drop_inv (aEx' := ({ s2 with a := s2.a.erase id } : State).cEx) (id := id) hi.p
      (cEx_erase (by simp [q3]))
    rw [q9]
    exact this.mono (fun _ h => h) (fun j hj => by simpa [State.bEx, q4] using hj)
  · have := RcPair.cleanFwd_drop_inv (aEx' := ({ s2 with a := s2.a.erase id } : State).aEx) (id := id) hi.rc
      (aEx_erase (by simp [q3]))
    rw [q6, hbe]
    exact this.mono (fun _ h => h) (fun j hj => by simpa [State.bEx, q4] using hj)
  · intro j e'; show (s2.a.erase id).lookup j = some e' → _; rw [q3]; simp only [Map.lookup_erase]; split
    · simp
    · exact hi.namesNonEmpty j e'
  · intro j e'; show (s2.a.erase id).lookup j = some e' → _; rw [q3]; simp only [Map.lookup_erase]; split
    · simp
    · exact hi.rolesNonEmpty j e'
  · intro j e' c; show (s2.a.erase id).lookup j = some e' → _; rw [q3]; simp only [Map.lookup_erase]; split
    · simp
    · exact hi.codeNonEmpty j e' c
  · show (s2.a.erase id).lookup [] = none; rw [q3]; simp only [Map.lookup_erase]; split <;> simp [hi.idA]
  · show s2.b.lookup [] = none; rw [q4]; exact hi.idB
  · intro j e'; show (s2.a.erase id).lookup j = some e' → s2.hasA = true; rw [q3, q1]
    simp only [Map.lookup_erase]; split
    · simp
    · exact hi.hasA j e'
  · intro j e'; show s2.b.lookup j = some e' → s2.hasB = true; rw [q4, q2]; exact hi.hasB j e'
  · show UI _ (s2.a.erase id) s2.uColour; rw [q3, q10]
    exact C03.uniqueBeforeDelete_ok (f := fun (e : EntA) => e.colour.getD []) hi.uColour hold
  · have hae : s2.aEx = s.aEx := aEx_congr q3
    have := selfClean_drop_inv (ex' := ({ s2 with a := s2.a.erase id } : State).aEx) (id := id) hi.pe
      (aEx_erase (by simp [q3]))
    rw [q11, hae]; exact this
  · have hae : s2.aEx = s.aEx := aEx_congr q3
    have := LinkPair.cleanBoth_drop_inv (ex' := ({ s2 with a := s2.a.erase id } : State).aEx) (id := id) hi.mt
      (aEx_erase (by simp [q3]))
    rw [q12, hae]; exact this



/-! ### the cascading delete of `boss` referrers -/

theorem mem_markBusy (busy : List Id) (id k : Id) : k ∈ markBusy busy id ↔ k = id ∨ k ∈ busy := by
  unfold markBusy
  split
  · next h =>
    have : id ∈ busy := by simpa using h
    constructor
    · exact Or.inr
    · rintro (rfl | h')
      · exact this
      · exact h'
  · simp

theorem mem_minions (s : State) (id j : Id) :
    j ∈ minions s id ↔ ∃ e, s.a.lookup j = some e ∧ e.boss.getD [] = id := by
  simp only [minions, C03.mem_setOf, List.mem_map, List.mem_filter, decide_eq_true_eq, Prod.exists, Map.mem_entries_iff]
  constructor
  · rintro ⟨a, e, ⟨hl, hd⟩, rfl⟩; exact ⟨e, hl, hd⟩
  · rintro ⟨e, hl, hd⟩; exact ⟨j, e, ⟨hl, hd⟩, rfl⟩

theorem minions_congr {s t : State} (h : t.a = s.a) (id : Id) : minions t id = minions s id := by
  simp [minions, h]

/-- what a (nested) `A.DeleteById` guarantees; `busy` = the entities whose cascading delete is in progress -/
structure DelPost (busy : List Id) (s s' : State) (id : Id) : Prop where
  core : InvCore s'
  boss : BossOK busy s'
  b : s'.b = s.b
  uLabel : s'.uLabel = s.uLabel
  hasB : s'.hasB = s.hasB
  /-- survivors are unchanged -/
  sub : ∀ k e, s'.a.lookup k = some e → s.a.lookup k = some e
  gone : s'.a.lookup id = none
  /-- an entity whose delete is in progress further up is not touched -/
  keep : ∀ k, k ∈ busy → k ≠ id → s'.a.lookup k = s.a.lookup k

def DelSpec (del : List Id → State → Id → Except Err State) : Prop :=
  ∀ busy s id s', InvCore s → BossOK busy s → del busy s id = .ok s' → DelPost busy s s' id

/-- a loop over referrers that are all in progress or gone does nothing -/
theorem cascadeLoop_skip (del : State → Id → Except Err State) (busy : List Id) (l : List Id) (s : State)
    (h : ∀ j, j ∈ l → j ∈ busy ∨ s.aEx j = false) : cascadeLoop del busy l s = .ok s := by
  induction l with
  | nil => rfl
  | cons j rest ih =>
    simp only [cascadeLoop]
    have : (busy.contains j || !s.aEx j) = true := by
      rcases h j (by simp) with hj | hj
      · simp [hj]
      · simp [hj]
    simp only [this, if_true]
    exact ih (fun k hk => h k (by simp [hk]))

theorem cascadeLoop_spec {del : State → Id → Except Err State} {busy : List Id}
    (hd : ∀ s j s', InvCore s → BossOK busy s → del s j = .ok s' → DelPost busy s s' j)
    (l : List Id) {s s0 : State} (hi : InvCore s) (hb : BossOK busy s) (h : cascadeLoop del busy l s = .ok s0) :
    InvCore s0 ∧ BossOK busy s0 ∧ s0.b = s.b ∧ s0.uLabel = s.uLabel ∧ s0.hasB = s.hasB ∧
    (∀ k e, s0.a.lookup k = some e → s.a.lookup k = some e) ∧
    (∀ j, j ∈ l → j ∈ busy ∨ s0.a.lookup j = none) ∧
    (∀ k, k ∈ busy → s0.a.lookup k = s.a.lookup k) := by
  induction l generalizing s with
  | nil => simp only [cascadeLoop] at h; cases h; exact ⟨hi, hb, rfl, rfl, rfl, fun _ _ h => h, by simp, fun _ _ => rfl⟩
  | cons j rest ih =>
    simp only [cascadeLoop] at h
    split at h
    · next hskip =>
      obtain ⟨c1, c2, c3, c4, c5, c6, c7, c8⟩ := ih hi hb h
      refine ⟨c1, c2, c3, c4, c5, c6, ?_, c8⟩
      intro k hk
      simp only [List.mem_cons] at hk
      rcases hk with rfl | hk
      · simp only [Bool.or_eq_true, List.contains_eq_mem, decide_eq_true_eq, Bool.not_eq_true'] at hskip
        rcases hskip with hm | hm
        · exact Or.inl hm
        · right
          cases hl : s0.a.lookup k with
          | none => rfl
          | some e => have := c6 k e hl; simp [State.aEx, this] at hm
      · exact c7 k hk
    · next hskip =>
      simp only [Bool.or_eq_true, List.contains_eq_mem, decide_eq_true_eq, Bool.not_eq_true', not_or] at hskip
      cases hdj : del s j with
      | error x => simp [hdj] at h
      | ok s1 =>
        simp only [hdj] at h
        have p := hd s j s1 hi hb hdj
        obtain ⟨c1, c2, c3, c4, c5, c6, c7, c8⟩ := ih p.core p.boss h
        refine ⟨c1, c2, c3.trans p.b, c4.trans p.uLabel, c5.trans p.hasB, fun k e hk => p.sub k e (c6 k e hk), ?_, ?_⟩
        · intro k hk
          simp only [List.mem_cons] at hk
          rcases hk with rfl | hk
          · right
            cases hl : s0.a.lookup k with
            | none => rfl
            | some e => have := c6 k e hl; rw [p.gone] at this; cases this
          · exact c7 k hk
        · intro k hk
          rw [c8 k hk]
          exact p.keep k hk (by rintro rfl; exact hskip.1 hk)

/-- after the cascade every remaining referrer of the id is itself in progress -/
theorem cascadeBoss_spec {del : List Id → State → Id → Except Err State} (hd : DelSpec del) {busy : List Id}
    {s s0 : State} {id : Id} (hi : InvCore s) (hb : BossOK (markBusy busy id) s)
    (h : cascadeBoss del busy s id = .ok s0) :
    InvCore s0 ∧ BossOK (markBusy busy id) s0 ∧ s0.b = s.b ∧ s0.uLabel = s.uLabel ∧ s0.hasB = s.hasB ∧
    (∀ k e, s0.a.lookup k = some e → s.a.lookup k = some e) ∧
    (∀ j e, s0.a.lookup j = some e → e.boss.getD [] = id → j ∈ markBusy busy id) ∧
    (∀ k, k ∈ markBusy busy id → s0.a.lookup k = s.a.lookup k) := by
  unfold cascadeBoss at h
  obtain ⟨c1, c2, c3, c4, c5, c6, c7, c8⟩ :=
    cascadeLoop_spec (fun t j t' ht hbt hdel => hd _ t j t' ht hbt hdel) (minions s id) hi hb h
  refine ⟨c1, c2, c3, c4, c5, c6, ?_, c8⟩
  intro j e hj hbo
  rcases c7 j ((mem_minions s id j).2 ⟨e, c6 j e hj, hbo⟩) with hm | hm
  · exact hm
  · rw [hj] at hm; cases hm

theorem bossOK_mono {busy busy' : List Id} {s : State} (h : BossOK busy s) (hsub : ∀ k, k ∈ busy → k ∈ busy') :
    BossOK busy' s := ⟨fun j e hj hne hnb => h.boss j e hj hne (fun hm => hnb (hsub _ hm)), h.chief⟩

/-- the strip steps keep the entity table -/
theorem beforeDeleteA_a {s s' : State} {id : Id} (h : beforeDeleteA s id = .ok s') : s'.a = s.a := by
  obtain ⟨sr, _, hfk⟩ := beforeDeleteA_ok h
  unfold fkBeforeDelete at hfk
  split at hfk
  · obtain ⟨_, rfl⟩ := backrefDel_eq hfk; rfl
  · simp only [pure, Except.pure] at hfk; cases hfk; rfl

/-- a cascade over a state whose remaining referrers of the id are all in progress does nothing -/
theorem cascadeBoss_skip {del : List Id → State → Id → Except Err State} {busy : List Id} {s0 t : State} {id : Id}
    (hta : t.a = s0.a) (c7 : ∀ j e, s0.a.lookup j = some e → e.boss.getD [] = id → j ∈ markBusy busy id) :
    cascadeBoss del busy t id = .ok t := by
  unfold cascadeBoss
  apply cascadeLoop_skip
  intro j hj
  rw [minions_congr (s := s0) hta] at hj
  obtain ⟨ej, hje, hjb⟩ := (mem_minions s0 id j).1 hj
  exact Or.inl (c7 j ej hje hjb)

theorem chiefCheck_ok_iff (s : State) (id : Id) :
    chiefCheck s id = .ok () ↔ ∀ j e, s.a.lookup j = some e → e.chief.getD [] ≠ id := by
  unfold chiefCheck
  constructor
  · intro h j e hj heq
    split at h
    · cases h
    · next hany =>
      apply hany
      simp only [List.any_eq_true, decide_eq_true_eq, Prod.exists, Map.mem_entries_iff]
      exact ⟨j, e, hj, heq⟩
  · intro h
    split
    · next hany =>
      simp only [List.any_eq_true, decide_eq_true_eq, Prod.exists, Map.mem_entries_iff] at hany
      obtain ⟨j, e, hj, heq⟩ := hany
      exact absurd heq (h j e hj)
    · rfl

/-- a restrict check that passed keeps passing while entities only disappear -/
theorem chiefCheck_mono {s t : State} {id : Id} (h : chiefCheck s id = .ok ())
    (hsub : ∀ j e, t.a.lookup j = some e → s.a.lookup j = some e) : chiefCheck t id = .ok () :=
  (chiefCheck_ok_iff t id).2 (fun j e hj => (chiefCheck_ok_iff s id).1 h j e (hsub j e hj))

/-- `A.DeleteById` = the restrict check, the cascade over the referrers, then the delete proper
    (`deleteA0`): the checks and cascade loops of the later constraint rounds find nothing new -/
theorem deleteA_decomp {fuel : Nat} (hd : DelSpec (deleteA fuel)) {busy : List Id} {s s' : State} {id : Id}
    (hi : InvCore s) (hb : BossOK busy s) (h : deleteA (fuel + 1) busy s id = .ok s') :
    ∃ s0, chiefCheck s id = .ok () ∧ cascadeBoss (deleteA fuel) busy s id = .ok s0 ∧ deleteA0 s0 id = .ok s' := by
  have hb' : BossOK (markBusy busy id) s := bossOK_mono hb (fun k hk => (mem_markBusy busy id k).2 (Or.inr hk))
  unfold deleteA at h
  split at h
  · cases h
  · next hid =>
    split at h
    · cases h
    · next e hold =>
      simp only [bind, Except.bind, pure, Except.pure] at h
      cases hc : e.code with
      | none =>
        simp only [hc, Option.isSome_none, Bool.false_eq_true, if_false] at h
        cases hcc : chiefCheck s id with
        | error x => simp [hcc] at h
        | ok u0 =>
        simp only [hcc] at h
        cases hcb : cascadeBoss (deleteA fuel) busy s id with
        | error x => simp [hcb] at h
        | ok s0 =>
          simp only [hcb] at h
          obtain ⟨_, _, _, _, _, c6, c7, c8⟩ := cascadeBoss_spec hd hi hb' hcb
          have hold0 : s0.a.lookup id = some e := by
            rw [c8 id ((mem_markBusy busy id id).2 (Or.inl rfl))]; exact hold
          cases hbd : beforeDeleteA s0 id with
          | error x => simp [hbd] at h
          | ok tx =>
            simp only [hbd] at h
            have htxa : tx.a = s0.a := beforeDeleteA_a hbd
            rw [chiefCheck_mono (t := { tx with uColour := uniqueBeforeDelete (evColour (some e)) tx.uColour }) hcc
              (fun j e' hj => c6 j e' (by rw [← htxa]; exact hj))] at h
            simp only at h
            rw [cascadeBoss_skip (s0 := s0)
              (t := { tx with uColour := uniqueBeforeDelete (evColour (some e)) tx.uColour })
              (show tx.a = s0.a from htxa) c7] at h
            refine ⟨s0, rfl, rfl, ?_⟩
            unfold deleteA0
            simp only [hid, if_false, hold0, hc, Option.isSome_none, Bool.false_eq_true, bind, Except.bind, pure, Except.pure,
              deleteA0Tail, hbd]
            exact h
      | some c =>
        simp only [hc, Option.isSome_some, if_true] at h
        cases hcc : chiefCheck s id with
        | error x => simp [hcc] at h
        | ok u0 =>
        simp only [hcc] at h
        cases hcb : cascadeBoss (deleteA fuel) busy s id with
        | error x => simp [hcb] at h
        | ok s0 =>
          simp only [hcb] at h
          obtain ⟨_, _, _, _, _, c6, c7, c8⟩ := cascadeBoss_spec hd hi hb' hcb
          have hold0 : s0.a.lookup id = some e := by
            rw [c8 id ((mem_markBusy busy id id).2 (Or.inl rfl))]; exact hold
          cases hbd : beforeDeleteA s0 id with
          | error x => simp [hbd] at h
          | ok t =>
            simp only [hbd] at h
            have hta : t.a = s0.a := beforeDeleteA_a hbd
            -- the checks and cascades of the later rounds are the identity
            rw [chiefCheck_mono (t := { t with uCode := uniqueBeforeDelete (evCode (some e)) t.uCode, p := t.p.cleanFwd t.bEx id }) hcc
              (fun j e' hj => c6 j e' (by rw [← hta]; exact hj))] at h
            simp only at h
            rw [cascadeBoss_skip (s0 := s0)
              (t := { t with uCode := uniqueBeforeDelete (evCode (some e)) t.uCode, p := t.p.cleanFwd t.bEx id }) hta c7] at h
            simp only at h
            cases hbd2 : beforeDeleteA ({ t with uCode := uniqueBeforeDelete (evCode (some e)) t.uCode, p := t.p.cleanFwd t.bEx id } : State) id with
            | error x => simp [hbd2] at h
            | ok tx =>
              simp only [hbd2] at h
              have htxa : tx.a = s0.a := (beforeDeleteA_a hbd2).trans hta
              rw [chiefCheck_mono (t := { tx with uColour := uniqueBeforeDelete (evColour (some e)) tx.uColour }) hcc
                (fun j e' hj => c6 j e' (by rw [← htxa]; exact hj))] at h
              simp only at h
              rw [cascadeBoss_skip (s0 := s0)
                (t := { tx with uColour := uniqueBeforeDelete (evColour (some e)) tx.uColour })
                (show tx.a = s0.a from htxa) c7] at h
              refine ⟨s0, rfl, rfl, ?_⟩
              unfold deleteA0
              simp only [hid, if_false, hold0, hc, Option.isSome_some, if_true, bind, Except.bind, pure, Except.pure, hbd,
                deleteA0Tail, hbd2]
              exact h

theorem deleteA_spec (fuel : Nat) : DelSpec (deleteA fuel) := by
  induction fuel with
  | zero => intro busy s id s' _ _ h; simp [deleteA] at h
  | succ fuel ih =>
    intro busy s id s' hi hb h
    have hb' : BossOK (markBusy busy id) s := bossOK_mono hb (fun k hk => (mem_markBusy busy id k).2 (Or.inr hk))
    obtain ⟨s0, hcc, hcb, h0⟩ := deleteA_decomp ih hi hb h
    obtain ⟨c1, c2, c3, c4, c5, c6, c7, c8⟩ := cascadeBoss_spec ih hi hb' hcb
    obtain ⟨d1, d2, d3, d4, d5, _⟩ := core_deleteA0 c1 h0
    refine ⟨d1, ⟨?_, ?_⟩, d3.trans c3, d4.trans c4, d5.trans c5, ?_, by rw [d2]; simp, ?_⟩
    · intro j e hj hne hnb
      rw [d2] at hj
      simp only [Map.lookup_erase] at hj
      split at hj
      · cases hj
      · next hji =>
        have hnb' : j ∉ markBusy busy id := by
          rw [mem_markBusy]; rintro (h1 | h1)
          · exact hji h1
          · exact hnb h1
        have hex := c2.boss j e hj hne hnb'
        have hne' : e.boss.getD [] ≠ id := fun heq => hnb' (c7 j e hj heq)
        simp only [State.aEx, d2, Map.lookup_erase, hne', if_false]
        exact hex
    · -- restrict: nobody's chief named the id when the delete started, and entities only disappeared
      intro j e hj hne
      rw [d2] at hj
      simp only [Map.lookup_erase] at hj
      split at hj
      · cases hj
      · have hex := c2.chief j e hj hne
        have hne' : e.chief.getD [] ≠ id := (chiefCheck_ok_iff s id).1 hcc j e (c6 j e hj)
        simp only [State.aEx, d2, Map.lookup_erase, hne', if_false]
        exact hex
    · intro k e hk
      rw [d2] at hk
      simp only [Map.lookup_erase] at hk
      split at hk
      · cases hk
      · exact c6 k e hk
    · intro k hk hne
      rw [d2]
      simp only [Map.lookup_erase, hne, if_false]
      exact c8 k ((mem_markBusy busy id k).2 (Or.inr hk))

/-- a delete issued by the caller -/
theorem deleteATop_spec {s s' : State} {id : Id} (hi : InvCore s) (hb : BossOK [] s) (h : deleteATop s id = .ok s') :
    DelPost [] s s' id := deleteA_spec _ [] s id s' hi hb h

theorem deleteATop_id_ne {s s' : State} {id : Id} (h : deleteATop s id = .ok s') : id ≠ [] := by
  unfold deleteATop deleteA at h
  split at h
  · cases h
  · next hid => exact hid

/-! ### deleting an owner (with its cascade) -/

theorem core_congr_uLabel {s : State} (h : InvCore s) (x : Map Bytes Id) : InvCore { s with uLabel := x } :=
  ⟨h.uName, h.uAlias, h.uCode, h.sRoles, h.nek, h.br, h.thgDom, h.ownerExists, h.depExists, h.g, h.p, h.rc,
    h.namesNonEmpty, h.rolesNonEmpty, h.codeNonEmpty, h.idA, h.idB, h.hasA, h.hasB, h.uColour, h.pe, h.mt⟩

theorem deleteAll_spec {ks : List Id} {s s' : State} (hi : InvCore s) (hbo : BossOK [] s) (h : deleteAll ks s = .ok s') :
    InvCore s' ∧ BossOK [] s' ∧ s'.b = s.b ∧ s'.uLabel = s.uLabel ∧ s'.hasB = s.hasB ∧
    (∀ j e, s'.a.lookup j = some e → s.a.lookup j = some e) ∧ (∀ j, j ∈ ks → s'.a.lookup j = none) := by
  induction ks generalizing s with
  | nil => simp only [deleteAll] at h; cases h; exact ⟨hi, hbo, rfl, rfl, rfl, fun _ _ h => h, by simp⟩
  | cons k rest ih =>
    simp only [deleteAll] at h
    split at h
    · next hskip =>
      obtain ⟨d1, d0, d2, d3, d4, d5, d6⟩ := ih hi hbo h
      refine ⟨d1, d0, d2, d3, d4, d5, ?_⟩
      intro j hj
      simp only [List.mem_cons] at hj
      rcases hj with rfl | hj
      · cases hl : s'.a.lookup j with
        | none => rfl
        | some e => have := d5 j e hl; simp [State.aEx, this] at hskip
      · exact d6 j hj
    · cases hk : deleteATop s k with
      | error e => simp [hk] at h
      | ok s1 =>
        simp only [hk] at h
        have p := deleteATop_spec hi hbo hk
        obtain ⟨d1, d0, d2, d3, d4, d5, d6⟩ := ih p.core p.boss h
        refine ⟨d1, d0, d2.trans p.b, d3.trans p.uLabel, d4.trans p.hasB, fun j e hj => p.sub j e (d5 j e hj), ?_⟩
        intro j hj
        simp only [List.mem_cons] at hj
        rcases hj with rfl | hj
        · cases hl : s'.a.lookup j with
          | none => rfl
          | some e =>
            have := d5 j e hl
            rw [p.gone] at this; cases this
        · exact d6 j hj

theorem mem_dependants (s : State) (id j : Id) :
    j ∈ dependants s id ↔ ∃ e, s.a.lookup j = some e ∧ e.dep.getD [] = id := by
  simp only [dependants, C03.mem_setOf, List.mem_map, List.mem_filter, decide_eq_true_eq, Prod.exists, Map.mem_entries_iff]
  constructor
  · rintro ⟨a, e, ⟨hl, hd⟩, rfl⟩; exact ⟨e, hl, hd⟩
  · rintro ⟨e, hl, hd⟩; exact ⟨j, e, ⟨hl, hd⟩, rfl⟩

theorem deleteB_ok {s s' : State} {id : Id} (h : deleteB s id = .ok s') :
    id ≠ [] ∧ ∃ e s1, s.b.lookup id = some e ∧ (s.thg.lookup id).getD [] = [] ∧
      deleteAll (dependants s id) { s with uLabel := uniqueBeforeDelete (e.label.getD []) s.uLabel } = .ok s1 ∧
      s' = { s1 with b := s1.b.erase id, thg := s1.thg.erase id,
                     g := { fwd := (s1.g.cleanBwd s1.aEx id).fwd, bwd := (s1.g.cleanBwd s1.aEx id).bwd.erase id },
                     p := { fwd := (s1.p.cleanBwd s1.cEx id).fwd, bwd := (s1.p.cleanBwd s1.cEx id).bwd.erase id },
                     rc := { fwd := (s1.rc.cleanBwd s1.aEx id).fwd, bwd := (s1.rc.cleanBwd s1.aEx id).bwd.erase id } } := by
  unfold deleteB at h
  split at h
  · cases h
  · next hid =>
    split at h
    · cases h
    · next e he =>
      simp only at h
      split at h
      · cases h
      · next hne =>
        simp only [bind, Except.bind, pure, Except.pure] at h
        split at h
        · cases h
        · next s1 hs1 =>
          cases h
          exact ⟨hid, e, s1, he, by simpa using hne, hs1, rfl⟩

theorem bEx_erase {s s' : State} {id : Id} (hb : s'.b = s.b.erase id) :
    ∀ j, s.bEx j = true → j ≠ id → s'.bEx j = true := by
  intro j hj hne; simp only [State.bEx, hb, Map.lookup_erase, hne, if_false]; exact hj

theorem inv_deleteB {s s' : State} {id : Id} (hi : Inv s) (h : deleteB s id = .ok s') : Inv s' := by
  obtain ⟨hid, e, s1, hold, hempty, hcas, rfl⟩ := deleteB_ok h
  obtain ⟨c, cbo, cb, cl, chb, csub, cgone⟩ := deleteAll_spec (core_congr_uLabel hi.toInvCore _)
    (bossOK_congr (s' := { s with uLabel := uniqueBeforeDelete (e.label.getD []) s.uLabel }) hi.boss rfl) hcas
  simp only at cb cl chb csub
  -- no survivor refers to the owner any more
  have hnoref : ∀ j e', s1.a.lookup j = some e' → e'.owner.getD [] ≠ id := by
    intro j e' hj heq
    have := (hi.br id j).2 ⟨hid, e', csub j e' hj, heq⟩
    rw [hempty] at this; simp at this
  have hnodep : ∀ j e', s1.a.lookup j = some e' → e'.dep.getD [] ≠ id := by
    intro j e' hj heq
    have hm := (mem_dependants s id j).2 ⟨e', csub j e' hj, heq⟩
    have := cgone j hm
    rw [hj] at this; cases this
  have hbmono := bEx_erase (s := s1) (s' := { s1 with b := s1.b.erase id }) (id := id) rfl
  refine ⟨⟨c.uName, c.uAlias, c.uCode, c.sRoles, c.nek, ?_, ?_, ?_, ?_, ?_, ?_, ?_, c.namesNonEmpty, c.rolesNonEmpty,
    c.codeNonEmpty, c.idA, ?_, c.hasA, ?_, c.uColour, c.pe, c.mt⟩, ?_, ?_⟩
  · intro b j
    have := c.br b j
    show j ∈ ((s1.thg.erase id).lookup b).getD [] ↔ _
    simp only [Map.lookup_erase]
    by_cases hb : b = id
    · subst hb; simp only [if_true, Option.getD_none, List.not_mem_nil, false_iff]
      rintro ⟨_, e', hj, heq⟩; exact hnoref j e' hj heq
    · simp only [hb, if_false]; exact this
  · intro b l
    show (s1.thg.erase id).lookup b = some l → _
    simp only [Map.lookup_erase]; split
    · simp
    · intro hl; exact c.thgDom b l hl
  · intro j e' hj hne
    exact hbmono _ (c.ownerExists j e' hj hne) (hnoref j e' hj)
  · intro j e' hj hne
    exact hbmono _ (c.depExists j e' hj hne) (hnodep j e' hj)
  · exact LinkPair.cleanBwd_drop_inv c.g hbmono
  · exact LinkPair.cleanBwd_drop_inv c.p hbmono
  · exact RcPair.cleanBwd_drop_inv c.rc hbmono
  · show (s1.b.erase id).lookup [] = none; simp only [Map.lookup_erase]; split <;> simp [c.idB]
  · intro j e'; show (s1.b.erase id).lookup j = some e' → s1.hasB = true
    simp only [Map.lookup_erase]; split
    · simp
    · exact c.hasB j e'
  · show UI _ (s1.b.erase id) s1.uLabel
    rw [cb, cl]
    exact C03.uniqueBeforeDelete_ok (f := fun (e : EntB) => e.label.getD []) hi.uLabel hold
  · exact bossOK_congr cbo rfl

theorem inv_deleteA {s s' : State} {id : Id} (hi : Inv s) (h : deleteATop s id = .ok s') : Inv s' := by
  have p := deleteATop_spec hi.toInvCore hi.boss h
  exact ⟨p.core, by rw [p.b, p.uLabel]; exact hi.uLabel, p.boss⟩

/-! ### all operations, transactions, histories -/

theorem inv_stepRaw {s s' : State} {op : Op} (hi : Inv s) (h : stepRaw s op = .ok s') : Inv s' := by
  cases op with
  | createA id v => exact inv_createA hi h
  | updateA id v chk => exact inv_updateA hi h
  | deleteA id => exact inv_deleteA hi h
  | createA1 id v code pals => exact inv_createA1 hi h
  | createA2 id v colour => exact inv_createA2 hi h
  | updateA2 id v colour chk cc => exact inv_updateA2 hi h
  | createB id l => exact inv_createB hi h
  | updateB id l chk => exact inv_updateB hi h
  | deleteB id => exact inv_deleteB hi h
  | rcInc a b => exact inv_rcOp (f := fun r => r.inc s.aEx s.bEx a b) hi (fun _ hr => RcPair.inc_pres hi.rc hr) h
  | rcDec a b => exact inv_rcOp (f := fun r => r.dec s.aEx s.bEx a b) hi (fun _ hr => RcPair.dec_pres hi.rc hr) h
  | rcSet a b n => exact inv_rcOp (f := fun r => r.set s.aEx s.bEx a b n) hi (fun _ hr => RcPair.set_pres hi.rc hr) h
  | addPeers id ks => exact inv_peersOp (f := fun m => selfAdd m s.aEx id ks) hi (fun _ hr => selfAdd_pres hi.pe hr) h
  | removePeers id ks => exact inv_peersOp (f := fun m => selfRemove m s.aEx id ks) hi (fun _ hr => selfRemove_pres hi.pe hr) h
  | setPeers id ks => exact inv_peersOp (f := fun m => selfSet m s.aEx id ks) hi (fun _ hr => selfSet_pres hi.pe hr) h
  | setMentors id ks => exact inv_setMentors hi h

theorem inv_applyOps {s s' : State} {ops : List Op} {i : Nat} (hi : Inv s)
    (h : applyOps s ops i = .ok s') : Inv s' := by
  induction ops generalizing s i with
  | nil => simp only [applyOps] at h; cases h; exact hi
  | cons op rest ih =>
    simp only [applyOps] at h
    split at h
    · next s1 h1 => exact ih (inv_stepRaw hi h1) h
    · cases h

theorem inv_txStep {s : State} (ops : List Op) (hi : Inv s) : Inv (txStep s ops).1 := by
  unfold txStep
  split
  · next s' h => exact inv_applyOps hi h
  · exact hi

theorem inv_foldTxs {s : State} (txs : List (List Op)) (hi : Inv s) :
    Inv (txs.foldl (fun s ops => (txStep s ops).1) s) := by
  induction txs generalizing s with
  | nil => exact hi
  | cons ops rest ih => exact ih (inv_txStep ops hi)


end StorageModel.C06
