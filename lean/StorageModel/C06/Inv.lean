import StorageModel.C06.Model
import StorageModel.C03.Refine
/-
  C06: invariants of the universe model and their preservation by every operation.
-/
namespace StorageModel.C06
open StorageModel
open StorageModel.C03 (Map Id Err setInsert setErase setOf uniqueAfter uniqueBeforeDelete setAfter setBeforeDelete
  UI SI NEK mem_setInsert mem_setErase)

/-- the link buckets are symmetric and live only inside existing entities -/
structure LinkInv (s : State) : Prop where
  sym : ∀ j b, b ∈ (s.grp.lookup j).getD [] ↔ j ∈ (s.mem.lookup b).getD []
  memDom : ∀ b l, s.mem.lookup b = some l → (s.b.lookup b).isSome = true
  grpDom : ∀ j l, s.grp.lookup j = some l → (s.a.lookup j).isSome = true

/-- everything but the two link maps is unchanged -/
def LinkFrame (s s' : State) : Prop :=
  s' = { s with grp := s'.grp, mem := s'.mem }

theorem LinkFrame.refl (s : State) : LinkFrame s s := rfl
theorem LinkFrame.trans {s t u : State} (h1 : LinkFrame s t) (h2 : LinkFrame t u) : LinkFrame s u := by
  unfold LinkFrame at *
  rw [h2, h1]

theorem unlinkAB_pres {s : State} {a b : Id} (hi : LinkInv s) (ha : (s.a.lookup a).isSome = true) :
    LinkInv (unlinkAB s a b) ∧ LinkFrame s (unlinkAB s a b) ∧
    (∀ j, (s.grp.lookup j).isSome = true → ((unlinkAB s a b).grp.lookup j).isSome = true) ∧
    ((unlinkAB s a b).grp.lookup a).isSome = true := by
  unfold unlinkAB
  simp only
  cases hb : s.b.lookup b with
  | none =>
    simp only
    refine ⟨⟨?_, hi.memDom, ?_⟩, rfl, ?_, by simp⟩
    · intro j b'
      have h1 := hi.sym j b'
      have h2 := hi.sym a b
      simp only [Map.lookup_insert]
      have : s.mem.lookup b = none := by
        cases hm : s.mem.lookup b with
        | none => rfl
        | some l => have := hi.memDom b l hm; simp [hb] at this
      by_cases hj : j = a
      · subst hj; simp only [if_true, Option.getD_some, mem_setErase]
        by_cases hbb : b' = b
        · subst hbb; simp [this]
        · simp [hbb, h1]
      · simp [hj, h1]
    · intro j l; simp only [Map.lookup_insert]; split
      · next h => subst h; intro _; exact ha
      · exact hi.grpDom j l
    · intro j; simp only [Map.lookup_insert]; split <;> simp
  | some eb =>
    cases hm : s.mem.lookup b with
    | none =>
      simp only
      refine ⟨⟨?_, hi.memDom, ?_⟩, rfl, ?_, by simp⟩
      · intro j b'
        have h1 := hi.sym j b'
        simp only [Map.lookup_insert]
        by_cases hj : j = a
        · subst hj; simp only [if_true, Option.getD_some, mem_setErase]
          by_cases hbb : b' = b
          · subst hbb; simp [hm]
          · simp [hbb, h1]
        · simp [hj, h1]
      · intro j l; simp only [Map.lookup_insert]; split
        · next h => subst h; intro _; exact ha
        · exact hi.grpDom j l
      · intro j; simp only [Map.lookup_insert]; split <;> simp
    | some ms =>
      simp only
      refine ⟨⟨?_, ?_, ?_⟩, rfl, ?_, by simp⟩
      · intro j b'
        have h1 := hi.sym j b'
        simp only [Map.lookup_insert]
        by_cases hj : j = a <;> by_cases hbb : b' = b
        · subst hj; subst hbb; simp
        · subst hj; simp [hbb, h1]
        · subst hbb; simp [hj, h1, hm]
        · simp [hj, hbb, h1]
      · intro b' l; simp only [Map.lookup_insert]; split
        · next h => subst h; intro _; simp [hb]
        · exact hi.memDom b' l
      · intro j l; simp only [Map.lookup_insert]; split
        · next h => subst h; intro _; exact ha
        · exact hi.grpDom j l
      · intro j; simp only [Map.lookup_insert]; split <;> simp

theorem linkAB_pres {s s' : State} {a b : Id} (hi : LinkInv s) (ha : (s.a.lookup a).isSome = true)
    (h : linkAB s a b = .ok s') :
    LinkInv s' ∧ LinkFrame s s' ∧
    (∀ j, (s.grp.lookup j).isSome = true → (s'.grp.lookup j).isSome = true) ∧ (s'.grp.lookup a).isSome = true := by
  unfold linkAB at h
  simp only at h
  cases hb : s.b.lookup b with
  | none => simp [hb] at h
  | some eb =>
    simp only [hb] at h
    cases h
    refine ⟨⟨?_, ?_, ?_⟩, rfl, ?_, by simp⟩
    · intro j b'
      have h1 := hi.sym j b'
      simp only [Map.lookup_insert]
      by_cases hj : j = a <;> by_cases hbb : b' = b
      · subst hj; subst hbb; simp
      · subst hj; simp [hbb, h1]
      · subst hbb; simp [hj, h1]
      · simp [hj, hbb, h1]
    · intro b' l; simp only [Map.lookup_insert]; split
      · next h => subst h; intro _; simp [hb]
      · exact hi.memDom b' l
    · intro j l; simp only [Map.lookup_insert]; split
      · next h => subst h; intro _; exact ha
      · exact hi.grpDom j l
    · intro j; simp only [Map.lookup_insert]; split <;> simp


/-- a state transformer that keeps the link invariant, the frame, and existing `groups` buckets -/
def LinkStep (a : Id) (s s' : State) : Prop :=
  LinkInv s' ∧ LinkFrame s s' ∧
  (∀ j, (s.grp.lookup j).isSome = true → (s'.grp.lookup j).isSome = true) ∧ (s'.grp.lookup a).isSome = true

theorem frame_a {s s' : State} (h : LinkFrame s s') : s'.a = s.a := by unfold LinkFrame at h; rw [h]
theorem frame_b {s s' : State} (h : LinkFrame s s') : s'.b = s.b := by unfold LinkFrame at h; rw [h]

theorem unlink_fold_pres (a : Id) (ks : List Id) {s : State} (hi : LinkInv s) (ha : (s.a.lookup a).isSome = true)
    (hg : (s.grp.lookup a).isSome = true) :
    LinkStep a s (ks.foldl (fun s k => unlinkAB s a k) s) := by
  induction ks generalizing s with
  | nil => exact ⟨hi, LinkFrame.refl s, fun _ h => h, hg⟩
  | cons k rest ih =>
    simp only [List.foldl_cons]
    obtain ⟨h1, h2, h3, h4⟩ := unlinkAB_pres (b := k) hi ha
    have ha' : ((unlinkAB s a k).a.lookup a).isSome = true := by rw [frame_a h2]; exact ha
    obtain ⟨g1, g2, g3, g4⟩ := ih h1 ha' h4
    exact ⟨g1, h2.trans g2, fun j hj => g3 j (h3 j hj), g4⟩

theorem linkAll_pres (a : Id) (ks : List Id) {s s' : State} (hi : LinkInv s) (ha : (s.a.lookup a).isSome = true)
    (hg : (s.grp.lookup a).isSome = true) (h : linkAll a ks s = .ok s') : LinkStep a s s' := by
  induction ks generalizing s with
  | nil => simp only [linkAll] at h; cases h; exact ⟨hi, LinkFrame.refl _, fun _ h => h, hg⟩
  | cons k rest ih =>
    simp only [linkAll] at h
    cases hk : linkAB s a k with
    | error e => simp [hk] at h
    | ok s1 =>
      simp only [hk] at h
      obtain ⟨h1, h2, h3, h4⟩ := linkAB_pres hi ha hk
      have ha' : (s1.a.lookup a).isSome = true := by rw [frame_a h2]; exact ha
      obtain ⟨g1, g2, g3, g4⟩ := ih h1 ha' h4 h
      exact ⟨g1, h2.trans g2, fun j hj => g3 j (h3 j hj), g4⟩

theorem setLinks_pres {s s' : State} {a : Id} {req : List Id} (hi : LinkInv s) (ha : (s.a.lookup a).isSome = true)
    (h : setLinks s a req = .ok s') : LinkStep a s s' := by
  unfold setLinks at h
  simp only at h
  -- the bucket is created first
  have hi0 : LinkInv { s with grp := s.grp.insert a ((s.grp.lookup a).getD []) } := by
    refine ⟨?_, hi.memDom, ?_⟩
    · intro j b
      have := hi.sym j b
      simp only [Map.lookup_insert]
      by_cases hj : j = a
      · subst hj; simpa using this
      · simpa [hj] using this
    · intro j l; simp only [Map.lookup_insert]; split
      · next hj => subst hj; intro _; exact ha
      · exact hi.grpDom j l
  have hg0 : (({ s with grp := s.grp.insert a ((s.grp.lookup a).getD []) } : State).grp.lookup a).isSome = true := by simp
  have hmono : ∀ j, (s.grp.lookup j).isSome = true →
      (({ s with grp := s.grp.insert a ((s.grp.lookup a).getD []) } : State).grp.lookup j).isSome = true := by
    intro j hj; simp only [Map.lookup_insert]; split <;> simp [hj]
  obtain ⟨u1, u2, u3, u4⟩ := unlink_fold_pres a _ hi0 (by exact ha) hg0
  have ha' : ((List.foldl (fun s k => unlinkAB s a k) { s with grp := s.grp.insert a ((s.grp.lookup a).getD []) }
      (List.filter (fun k => !(setOf req).contains k) ((s.grp.lookup a).getD []))).a.lookup a).isSome = true := by
    rw [frame_a u2]; exact ha
  obtain ⟨g1, g2, g3, g4⟩ := linkAll_pres a _ u1 ha' u4 h
  refine ⟨g1, ?_, fun j hj => g3 j (u3 j (hmono j hj)), g4⟩
  have f0 : LinkFrame s { s with grp := s.grp.insert a ((s.grp.lookup a).getD []) } := rfl
  exact f0.trans (u2.trans g2)


/-- back-reference buckets = exactly the referrers -/
def BR (ents : Map Id EntA) (thg : Map Id (List Id)) : Prop :=
  ∀ b j, j ∈ (thg.lookup b).getD [] ↔ (b ≠ [] ∧ ∃ e, ents.lookup j = some e ∧ e.owner.getD [] = b)

/-- only `thg` changed -/
def ThgFrame (s s' : State) : Prop := s' = { s with thg := s'.thg }

def ThgDom (s : State) : Prop := ∀ b l, s.thg.lookup b = some l → (s.b.lookup b).isSome = true

theorem backrefDel_eq {s s' : State} {b : Bytes} {id : Id} (h : backrefDel s b id = .ok s') :
    (s.b.lookup b).isSome = true ∧ s' = { s with thg := s.thg.insert b (setErase id ((s.thg.lookup b).getD [])) } := by
  unfold backrefDel at h
  split at h
  · cases h
  · next hb => cases h; simp [hb]

theorem backrefAdd_eq {s s' : State} {b : Bytes} {id : Id} (h : backrefAdd s b id = .ok s') :
    (s.b.lookup b).isSome = true ∧ s' = { s with thg := s.thg.insert b (setInsert id ((s.thg.lookup b).getD [])) } := by
  unfold backrefAdd at h
  split at h
  · cases h
  · next hb => cases h; simp [hb]

theorem fkAfter_update_ok {s s' : State} {ents : Map Id EntA} {id : Id} {old e : EntA}
    (hbr : BR ents s.thg) (hd : ThgDom s) (hold : ents.lookup id = some old)
    (hoe : old.owner.getD [] ≠ [] → (s.b.lookup (old.owner.getD [])).isSome = true)
    (h : fkAfter false (old.owner.getD []) (e.owner.getD []) id s = .ok s') :
    BR (ents.insert id e) s'.thg ∧ ThgFrame s s' ∧ ThgDom s' ∧
    (e.owner.getD [] ≠ [] → (s.b.lookup (e.owner.getD [])).isSome = true) := by
  unfold fkAfter at h
  simp only [Bool.not_false, Bool.true_and, beq_iff_eq, ne_eq, bind, Except.bind, pure, Except.pure] at h
  split at h
  · next heq =>
    cases h
    refine ⟨?_, rfl, hd, by rw [← heq]; exact hoe⟩
    intro b j
    have := hbr b j
    simp only [Map.lookup_insert]
    grind
  · next hne =>
    by_cases ho : old.owner.getD [] = []
    · simp only [ho, not_true_eq_false, if_false] at h
      by_cases hn : e.owner.getD [] = []
      · exact absurd (ho.trans hn.symm) hne
      · simp only [hn, not_false_eq_true, if_true] at h
        obtain ⟨hb, rfl⟩ := backrefAdd_eq h
        refine ⟨?_, rfl, ?_, fun _ => hb⟩
        · intro b j
          have := hbr b j
          simp only [Map.lookup_insert]
          by_cases hbb : b = e.owner.getD []
          · subst hbb; simp only [if_true, Option.getD_some, mem_setInsert]; grind
          · simp only [hbb, if_false]; grind
        · intro b l; simp only [Map.lookup_insert]; split
          · next hb' => subst hb'; intro _; exact hb
          · exact hd b l
    · simp only [ho, not_false_eq_true, if_true] at h
      cases hdel : backrefDel s (old.owner.getD []) id with
      | error x => simp [hdel] at h
      | ok s1 =>
        simp only [hdel] at h
        obtain ⟨hb1, rfl⟩ := backrefDel_eq hdel
        by_cases hn : e.owner.getD [] = []
        · simp only [hn, not_true_eq_false, if_false] at h
          cases h
          refine ⟨?_, rfl, ?_, fun h => absurd hn h⟩
          · intro b j
            have := hbr b j
            simp only [Map.lookup_insert]
            by_cases hbb : b = old.owner.getD []
            · subst hbb; simp only [if_true, Option.getD_some, mem_setErase]; grind
            · simp only [hbb, if_false]; grind
          · intro b l; simp only [Map.lookup_insert]; split
            · next hb' => subst hb'; intro _; exact hb1
            · exact hd b l
        · simp only [hn, not_false_eq_true, if_true] at h
          obtain ⟨hb2, rfl⟩ := backrefAdd_eq h
          refine ⟨?_, rfl, ?_, fun _ => hb2⟩
          · intro b j
            have := hbr b j
            simp only [Map.lookup_insert]
            by_cases hbb : b = e.owner.getD [] <;> by_cases hbo : b = old.owner.getD []
            · exact absurd (hbo.symm.trans hbb) hne
            · subst hbb; simp only [if_true, Option.getD_some, mem_setInsert, hbo, if_false]; grind
            · subst hbo; simp only [hbb, if_false, if_true, Option.getD_some, mem_setErase]; grind
            · simp only [hbb, hbo, if_false]; grind
          · intro b l; simp only [Map.lookup_insert]; split
            · next hb' => subst hb'; intro _; exact hb2
            · split
              · next hb' => subst hb'; intro _; exact hb1
              · exact hd b l

/-- create context with an old owner captured from an existing entity (child-store create over an
    existing parent): the old back-reference is replaced -/
theorem fkAfter_true_ok {s s' : State} {ents : Map Id EntA} {id : Id} {old e : EntA}
    (hbr : BR ents s.thg) (hd : ThgDom s) (hold : ents.lookup id = some old)
    (h : fkAfter true (old.owner.getD []) (e.owner.getD []) id s = .ok s') :
    BR (ents.insert id e) s'.thg ∧ ThgFrame s s' ∧ ThgDom s' ∧
    (e.owner.getD [] ≠ [] → (s.b.lookup (e.owner.getD [])).isSome = true) := by
  unfold fkAfter at h
  simp only [Bool.not_true, Bool.false_and, Bool.false_eq_true, if_false, ne_eq, bind, Except.bind, pure, Except.pure] at h
  by_cases ho : old.owner.getD [] = []
  · simp only [ho, not_true_eq_false, if_false] at h
    by_cases hn : e.owner.getD [] = []
    · simp only [hn, not_true_eq_false, if_false] at h
      cases h
      refine ⟨?_, rfl, hd, fun h => absurd hn h⟩
      intro b j
      have := hbr b j
      simp only [Map.lookup_insert]
      grind
    · simp only [hn, not_false_eq_true, if_true] at h
      obtain ⟨hb, rfl⟩ := backrefAdd_eq h
      refine ⟨?_, rfl, ?_, fun _ => hb⟩
      · intro b j
        have := hbr b j
        simp only [Map.lookup_insert]
        by_cases hbb : b = e.owner.getD []
        · subst hbb; simp only [if_true, Option.getD_some, mem_setInsert]; grind
        · simp only [hbb, if_false]; grind
      · intro b l; simp only [Map.lookup_insert]; split
        · next hb' => subst hb'; intro _; exact hb
        · exact hd b l
  · simp only [ho, not_false_eq_true, if_true] at h
    cases hdel : backrefDel s (old.owner.getD []) id with
    | error x => simp [hdel] at h
    | ok s1 =>
      simp only [hdel] at h
      obtain ⟨hb1, rfl⟩ := backrefDel_eq hdel
      by_cases hn : e.owner.getD [] = []
      · simp only [hn, not_true_eq_false, if_false] at h
        cases h
        refine ⟨?_, rfl, ?_, fun h => absurd hn h⟩
        · intro b j
          have := hbr b j
          simp only [Map.lookup_insert]
          by_cases hbb : b = old.owner.getD []
          · subst hbb; simp only [if_true, Option.getD_some, mem_setErase]; grind
          · simp only [hbb, if_false]; grind
        · intro b l; simp only [Map.lookup_insert]; split
          · next hb' => subst hb'; intro _; exact hb1
          · exact hd b l
      · simp only [hn, not_false_eq_true, if_true] at h
        obtain ⟨hb2, rfl⟩ := backrefAdd_eq h
        refine ⟨?_, rfl, ?_, fun _ => hb2⟩
        · intro b j
          have := hbr b j
          simp only [Map.lookup_insert]
          by_cases hbb : b = e.owner.getD [] <;> by_cases hbo : b = old.owner.getD []
          · subst hbb; simp only [if_true, Option.getD_some, mem_setInsert, ← hbo, mem_setErase]; grind
          · subst hbb; simp only [if_true, Option.getD_some, mem_setInsert, hbo, if_false]; grind
          · subst hbo; simp only [hbb, if_false, if_true, Option.getD_some, mem_setErase]; grind
          · simp only [hbb, hbo, if_false]; grind
        · intro b l; simp only [Map.lookup_insert]; split
          · next hb' => subst hb'; intro _; exact hb2
          · split
            · next hb' => subst hb'; intro _; exact hb1
            · exact hd b l

theorem fkAfter_create_ok {s s' : State} {ents : Map Id EntA} {id : Id} {e : EntA}
    (hbr : BR ents s.thg) (hd : ThgDom s) (hfresh : ents.lookup id = none)
    (h : fkAfter true [] (e.owner.getD []) id s = .ok s') :
    BR (ents.insert id e) s'.thg ∧ ThgFrame s s' ∧ ThgDom s' ∧
    (e.owner.getD [] ≠ [] → (s.b.lookup (e.owner.getD [])).isSome = true) := by
  unfold fkAfter at h
  simp only [Bool.not_true, Bool.false_and, Bool.false_eq_true, if_false, ne_eq, not_true_eq_false, bind, Except.bind,
    pure, Except.pure] at h
  by_cases hn : e.owner.getD [] = []
  · simp only [hn, not_true_eq_false, if_false] at h
    cases h
    refine ⟨?_, rfl, hd, fun h => absurd hn h⟩
    intro b j
    have := hbr b j
    simp only [Map.lookup_insert]
    grind
  · simp only [hn, not_false_eq_true, if_true] at h
    obtain ⟨hb, rfl⟩ := backrefAdd_eq h
    refine ⟨?_, rfl, ?_, fun _ => hb⟩
    · intro b j
      have := hbr b j
      simp only [Map.lookup_insert]
      by_cases hbb : b = e.owner.getD []
      · subst hbb; simp only [if_true, Option.getD_some, mem_setInsert]; grind
      · simp only [hbb, if_false]; grind
    · intro b l; simp only [Map.lookup_insert]; split
      · next hb' => subst hb'; intro _; exact hb
      · exact hd b l

theorem fkBeforeDelete_ok {s s' : State} {ents : Map Id EntA} {id : Id} {e : EntA}
    (hbr : BR ents s.thg) (hd : ThgDom s) (hold : ents.lookup id = some e)
    (h : fkBeforeDelete (e.owner.getD []) id s = .ok s') :
    BR (ents.erase id) s'.thg ∧ ThgFrame s s' ∧ ThgDom s' := by
  unfold fkBeforeDelete at h
  by_cases hn : e.owner.getD [] = []
  · simp only [hn, ne_eq, not_true_eq_false, if_false, pure, Except.pure] at h
    cases h
    refine ⟨?_, rfl, hd⟩
    intro b j
    have := hbr b j
    simp only [Map.lookup_erase]
    grind
  · simp only [ne_eq, hn, not_false_eq_true, if_true] at h
    obtain ⟨hb, rfl⟩ := backrefDel_eq h
    refine ⟨?_, rfl, ?_⟩
    · intro b j
      have := hbr b j
      simp only [Map.lookup_insert, Map.lookup_erase]
      by_cases hbb : b = e.owner.getD []
      · subst hbb; simp only [if_true, Option.getD_some, mem_setErase]; grind
      · simp only [hbb, if_false]; grind
    · intro b l; simp only [Map.lookup_insert]; split
      · next hb' => subst hb'; intro _; exact hb
      · exact hd b l


/-! ### the invariant -/

structure Inv (s : State) : Prop where
  uName : UI (·.name) s.a s.uName
  uAlias : UI (fun e => e.alias.getD []) s.a s.uAlias
  uCode : UI (fun e => e.code.getD []) s.a s.uCode
  uLabel : UI (fun (e : EntB) => e.label.getD []) s.b s.uLabel
  sRoles : SI (·.roles) s.a s.sRoles
  nek : NEK s.sRoles
  br : BR s.a s.thg
  thgDom : ThgDom s
  ownerExists : ∀ j e, s.a.lookup j = some e → e.owner.getD [] ≠ [] → (s.b.lookup (e.owner.getD [])).isSome = true
  link : LinkInv s
  grpTotal : ∀ j, (s.a.lookup j).isSome = true → (s.grp.lookup j).isSome = true
  namesNonEmpty : ∀ j e, s.a.lookup j = some e → e.name ≠ []
  rolesNonEmpty : ∀ j e, s.a.lookup j = some e → [] ∉ e.roles
  codeNonEmpty : ∀ j e c, s.a.lookup j = some e → e.code = some c → c ≠ []
  idA : s.a.lookup [] = none
  idB : s.b.lookup [] = none
  hasA : ∀ j e, s.a.lookup j = some e → s.hasA = true
  hasB : ∀ j e, s.b.lookup j = some e → s.hasB = true

theorem inv_empty : Inv State.empty := by
  constructor <;> simp [State.empty, UI, SI, NEK, BR, ThgDom]
  constructor <;> simp

theorem UI_insert_fresh_empty {E : Type} {f : E → Bytes} {ents : Map Id E} {idx : Map Bytes Id} {id : Id} {e : E}
    (h : UI f ents idx) (hf : ents.lookup id = none) (he : f e = []) : UI f (ents.insert id e) idx := by
  intro v i
  have := h v i
  simp only [Map.lookup_insert]
  grind

theorem UI_insert_same {E : Type} {f : E → Bytes} {ents : Map Id E} {idx : Map Bytes Id} {id : Id} {old e : E}
    (h : UI f ents idx) (hf : ents.lookup id = some old) (he : f e = f old) : UI f (ents.insert id e) idx := by
  intro v i
  have := h v i
  have := h v id
  simp only [Map.lookup_insert]
  grind

theorem afterUpdateA_ok {isCreate : Bool} {cap : Captured} {s s' : State} {id : Id}
    (h : afterUpdateA isCreate cap s id = .ok s') :
    ∃ un ua sr,
      uniqueAfter isCreate false cap.name (evName (s.a.lookup id)) id s.uName = .ok un ∧
      uniqueAfter isCreate true cap.alias (evAlias (s.a.lookup id)) id s.uAlias = .ok ua ∧
      setAfter cap.roles (evRoles (s.a.lookup id)) id s.sRoles = .ok sr ∧
      fkAfter isCreate cap.owner (evOwner (s.a.lookup id)) id { s with uName := un, uAlias := ua, sRoles := sr } = .ok s' := by
  simp only [afterUpdateA, bind, Except.bind] at h
  cases hun : uniqueAfter isCreate false cap.name (evName (s.a.lookup id)) id s.uName with
  | error x => simp [hun] at h
  | ok un =>
    simp only [hun] at h
    cases hua : uniqueAfter isCreate true cap.alias (evAlias (s.a.lookup id)) id s.uAlias with
    | error x => simp [hua] at h
    | ok ua =>
      simp only [hua] at h
      cases hsr : setAfter cap.roles (evRoles (s.a.lookup id)) id s.sRoles with
      | error x => simp [hsr] at h
      | ok sr =>
        simp only [hsr] at h
        exact ⟨un, ua, sr, rfl, rfl, rfl, h⟩

theorem beforeDeleteA_ok {s s' : State} {id : Id} (h : beforeDeleteA s id = .ok s') :
    ∃ sr, setBeforeDelete (evRoles (s.a.lookup id)) id s.sRoles = .ok sr ∧
      fkBeforeDelete (evOwner (s.a.lookup id)) id
        { s with uName := uniqueBeforeDelete (evName (s.a.lookup id)) s.uName,
                 uAlias := uniqueBeforeDelete (evAlias (s.a.lookup id)) s.uAlias, sRoles := sr } = .ok s' := by
  simp only [beforeDeleteA, bind, Except.bind] at h
  cases hsr : setBeforeDelete (evRoles (s.a.lookup id)) id s.sRoles with
  | error x => simp [hsr] at h
  | ok sr =>
    simp only [hsr] at h
    exact ⟨sr, rfl, h⟩


theorem LinkFrame.fields {s s' : State} (h : LinkFrame s s') :
    s'.hasA = s.hasA ∧ s'.hasB = s.hasB ∧ s'.a = s.a ∧ s'.b = s.b ∧ s'.thg = s.thg ∧ s'.uName = s.uName ∧
    s'.uAlias = s.uAlias ∧ s'.uCode = s.uCode ∧ s'.uLabel = s.uLabel ∧ s'.sRoles = s.sRoles := by
  unfold LinkFrame at h; rw [h]; simp

theorem ThgFrame.fields {s s' : State} (h : ThgFrame s s') :
    s'.hasA = s.hasA ∧ s'.hasB = s.hasB ∧ s'.a = s.a ∧ s'.b = s.b ∧ s'.grp = s.grp ∧ s'.mem = s.mem ∧ s'.uName = s.uName ∧
    s'.uAlias = s.uAlias ∧ s'.uCode = s.uCode ∧ s'.uLabel = s.uLabel ∧ s'.sRoles = s.sRoles := by
  unfold ThgFrame at h; rw [h]; simp

theorem LinkInv_of_eq {s s' : State} (h : LinkInv s) (hg : s'.grp = s.grp) (hm : s'.mem = s.mem) (ha : s'.a = s.a)
    (hb : s'.b = s.b) : LinkInv s' := by
  refine ⟨?_, ?_, ?_⟩
  · rw [hg, hm]; exact h.sym
  · rw [hm, hb]; exact h.memDom
  · rw [hg, ha]; exact h.grpDom

/-- assembling the invariant after an operation that stored entity `e` under `id` in store A -/
theorem inv_assemble {s s' : State} {id : Id} {e : EntA} (hi : Inv s)
    (ha : s'.a = s.a.insert id e) (hb : s'.b = s.b) (hlabel : s'.uLabel = s.uLabel)
    (hhasB : s'.hasB = s.hasB) (hhasA : s'.hasA = true)
    (huN : UI (·.name) s'.a s'.uName) (huA : UI (fun e => e.alias.getD []) s'.a s'.uAlias)
    (huC : UI (fun e => e.code.getD []) s'.a s'.uCode) (hsr : SI (·.roles) s'.a s'.sRoles) (hnek : NEK s'.sRoles)
    (hbr : BR s'.a s'.thg) (hthg : ThgDom s')
    (hown : e.owner.getD [] ≠ [] → (s.b.lookup (e.owner.getD [])).isSome = true)
    (hlink : LinkInv s') (hgrp : ∀ j, (s.grp.lookup j).isSome = true → (s'.grp.lookup j).isSome = true)
    (hgid : (s'.grp.lookup id).isSome = true)
    (hne : e.name ≠ []) (hre : [] ∉ e.roles) (hce : ∀ c, e.code = some c → c ≠ []) (hid : id ≠ []) : Inv s' := by
  refine ⟨huN, huA, huC, by rw [hb, hlabel]; exact hi.uLabel, hsr, hnek, hbr, hthg, ?_, hlink, ?_, ?_, ?_, ?_, ?_,
    by rw [hb]; exact hi.idB, fun _ _ _ => hhasA, ?_⟩
  · intro j e'; rw [ha, hb]; simp only [Map.lookup_insert]; split
    · intro h; cases h; exact hown
    · exact hi.ownerExists j e'
  · intro j; rw [ha]; simp only [Map.lookup_insert]; split
    · next hj => subst hj; intro _; exact hgid
    · intro h; exact hgrp j (hi.grpTotal j h)
  · intro j e'; rw [ha]; simp only [Map.lookup_insert]; split
    · intro h; cases h; exact hne
    · exact hi.namesNonEmpty j e'
  · intro j e'; rw [ha]; simp only [Map.lookup_insert]; split
    · intro h; cases h; exact hre
    · exact hi.rolesNonEmpty j e'
  · intro j e' c; rw [ha]; simp only [Map.lookup_insert]; split
    · intro h; cases h; exact hce c
    · exact hi.codeNonEmpty j e' c
  · rw [ha]; simp only [Map.lookup_insert]
    have : ¬ ([] : Id) = id := fun h => hid h.symm
    simp [this, hi.idA]
  · intro j e'; rw [hb, hhasB]; exact hi.hasB j e'

theorem inv_createA {s s' : State} {id : Id} {v : ValsA} (hi : Inv s) (h : createA s id v = .ok s') : Inv s' := by
  unfold createA at h
  split at h
  · cases h
  · next hid =>
    split at h
    · cases h
    · next hex =>
      have hfresh : s.a.lookup id = none := by simpa using hex
      simp only [bind, Except.bind] at h
      split at h
      · cases h
      · next s2 hsl =>
        -- link step
        have hl1 : LinkInv ({ s with hasA := true, a := s.a.insert id ⟨v.name, v.alias, setOf v.roles, v.owner, none⟩ } : State) :=
          ⟨hi.link.sym, hi.link.memDom, by
            intro j l hj; simp only [Map.lookup_insert]; split
            · simp
            · exact hi.link.grpDom j l hj⟩
        obtain ⟨l1, l2, l3, l4⟩ := setLinks_pres hl1 (by simp) hsl
        obtain ⟨f1, f2, f3, f4, f5, f6, f7, f8, f9, f10⟩ := l2.fields
        obtain ⟨un, ua, sr, hun, hua, hsr, hfk⟩ := afterUpdateA_ok h
        have hlk : s2.a.lookup id = some ⟨v.name, v.alias, setOf v.roles, v.owner, none⟩ := by rw [f3]; simp
        simp only [hlk, evName, evAlias, evRoles, evOwner, Captured.none] at hun hua hsr hfk
        rw [f6] at hun; rw [f7] at hua; rw [f10] at hsr
        simp only at hun hua hsr
        have hbr2 : BR s.a ({ s2 with uName := un, uAlias := ua, sRoles := sr } : State).thg := by
          show BR s.a s2.thg; rw [f5]; exact hi.br
        have hd2 : ThgDom ({ s2 with uName := un, uAlias := ua, sRoles := sr } : State) := by
          intro b l; show s2.thg.lookup b = some l → (s2.b.lookup b).isSome = true; rw [f5, f4]; exact hi.thgDom b l
        obtain ⟨k1, k2, k3, k4⟩ := fkAfter_create_ok (e := ⟨v.name, v.alias, setOf v.roles, v.owner, none⟩) hbr2 hd2 hfresh hfk
        obtain ⟨g1, g2, g3, g4, g5, g6, g7, g8, g9, g10, g11⟩ := k2.fields
        simp only at g1 g2 g3 g4 g5 g6 g7 g8 g9 g10 g11
        have hsr' := C03.setAfter_ok (r := (·.roles)) (e := (⟨v.name, v.alias, setOf v.roles, v.owner, none⟩ : EntA))
          hi.sRoles hi.nek (oldRoles := []) (id := id) (by intro x; simp [hfresh]) hsr
        refine inv_assemble (e := ⟨v.name, v.alias, setOf v.roles, v.owner, none⟩) hi (by rw [g3, f3]) (by rw [g4, f4])
          (by rw [g10, f9]) (by rw [g2, f2]) (by rw [g1, f1]) ?_ ?_ ?_ ?_ ?_ ?_ k3 ?_ ?_ ?_ ?_ ?_ ?_ ?_ hid
        · rw [g3, f3, g7]; exact C03.uniqueAfter_create_ok hi.uName hfresh hun
        · rw [g3, f3, g8]; exact C03.uniqueAfter_create_ok hi.uAlias hfresh hua
        · rw [g3, f3, g9, f8]; exact UI_insert_fresh_empty hi.uCode hfresh rfl
        · rw [g3, f3, g11]; exact hsr'.1
        · rw [g11]; exact hsr'.2
        · rw [g3, f3]; exact k1
        · rw [f4] at k4; exact k4
        · exact LinkInv_of_eq l1 g5 g6 (by rw [g3]) (by rw [g4])
        · intro j hj; rw [g5]; exact l3 j hj
        · rw [g5]; exact l4
        · exact C03.uniqueAfter_create_nonempty hun rfl
        · exact C03.setAfter_ok_nonempty hsr (by simp)
        · intro c hc; cases hc



theorem inv_updateA {s s' : State} {id : Id} {v : ValsA} {chk : Option ChkA} (hi : Inv s)
    (h : updateA s id v chk = .ok s') : Inv s' := by
  unfold updateA at h
  split at h
  · cases h
  · next hid =>
    split at h
    · cases h
    · next old hold =>
      simp only [bind, Except.bind] at h
      have hl1 : LinkInv ({ s with a := s.a.insert id (persistFields old v chk) } : State) :=
        ⟨hi.link.sym, hi.link.memDom, by
          intro j l hj; simp only [Map.lookup_insert]; split
          · simp
          · exact hi.link.grpDom j l hj⟩
      have hg1 : (s.grp.lookup id).isSome = true := hi.grpTotal id (by simp [hold])
      -- the link step, performed or not
      have hlink : ∃ s2, LinkStep id ({ s with a := s.a.insert id (persistFields old v chk) } : State) s2 ∧
          afterUpdateA false (captureA s id) s2 id = .ok s' := by
        by_cases hp : proceed chk (fun c => c.groups) = true
        · simp only [hp, if_true] at h
          split at h
          · cases h
          · next s2 hs2 => exact ⟨s2, setLinks_pres hl1 (by simp) hs2, h⟩
        · simp only [hp, Bool.false_eq_true, if_false, pure, Except.pure] at h
          exact ⟨_, ⟨hl1, LinkFrame.refl _, fun _ h => h, hg1⟩, h⟩
      obtain ⟨s2, hstep, h⟩ := hlink
      obtain ⟨l1, l2, l3, l4⟩ := hstep
      obtain ⟨f1, f2, f3, f4, f5, f6, f7, f8, f9, f10⟩ := l2.fields
      obtain ⟨un, ua, sr, hun, hua, hsr, hfk⟩ := afterUpdateA_ok h
      have hlk : s2.a.lookup id = some (persistFields old v chk) := by rw [f3]; simp
      simp only [hlk, captureA, hold, evName, evAlias, evRoles, evOwner] at hun hua hsr hfk
      rw [f6] at hun; rw [f7] at hua; rw [f10] at hsr
      simp only at hun hua hsr
      have hbr2 : BR s.a ({ s2 with uName := un, uAlias := ua, sRoles := sr } : State).thg := by
        show BR s.a s2.thg; rw [f5]; exact hi.br
      have hd2 : ThgDom ({ s2 with uName := un, uAlias := ua, sRoles := sr } : State) := by
        intro b l; show s2.thg.lookup b = some l → (s2.b.lookup b).isSome = true; rw [f5, f4]; exact hi.thgDom b l
      have hoe : old.owner.getD [] ≠ [] →
          (({ s2 with uName := un, uAlias := ua, sRoles := sr } : State).b.lookup (old.owner.getD [])).isSome = true := by
        show _ → (s2.b.lookup _).isSome = true; rw [f4]; exact hi.ownerExists id old hold
      obtain ⟨k1, k2, k3, k4⟩ := fkAfter_update_ok (e := persistFields old v chk) hbr2 hd2 hold hoe hfk
      obtain ⟨g1, g2, g3, g4, g5, g6, g7, g8, g9, g10, g11⟩ := k2.fields
      simp only at g1 g2 g3 g4 g5 g6 g7 g8 g9 g10 g11
      have hsr' := C03.setAfter_ok (r := (·.roles)) (e := persistFields old v chk)
        hi.sRoles hi.nek (oldRoles := old.roles) (id := id) (by intro x; simp [hold]) hsr
      refine inv_assemble (e := persistFields old v chk) hi (by rw [g3, f3]) (by rw [g4, f4])
        (by rw [g10, f9]) (by rw [g2, f2]) (by rw [g1, f1]; exact hi.hasA id old hold) ?_ ?_ ?_ ?_ ?_ ?_ k3 ?_ ?_ ?_ ?_ ?_ ?_ ?_ hid
      · rw [g3, f3, g7]; exact C03.uniqueAfter_update_ok (f := (·.name)) hi.uName hold hun
      · rw [g3, f3, g8]; exact C03.uniqueAfter_update_ok (f := fun e => e.alias.getD []) hi.uAlias hold hua
      · rw [g3, f3, g9, f8]; exact UI_insert_same hi.uCode hold rfl
      · rw [g3, f3, g11]; exact hsr'.1
      · rw [g11]; exact hsr'.2
      · rw [g3, f3]; exact k1
      · have := k4; simp only at this; rw [f4] at this; exact this
      · exact LinkInv_of_eq l1 g5 g6 (by rw [g3]) (by rw [g4])
      · intro j hj; rw [g5]; exact l3 j hj
      · rw [g5]; exact l4
      · exact C03.uniqueAfter_update_nonempty hun (hi.namesNonEmpty id old hold)
      · exact C03.setAfter_ok_nonempty hsr (hi.rolesNonEmpty id old hold)
      · intro c hc; exact hi.codeNonEmpty id old c hold hc

/-- `A1.Create`, on an id that does not exist at all or over an existing plain parent (whose
    indexed values are captured and replaced since fix 8269ce9) -/
theorem inv_createA1 {s s' : State} {id : Id} {v : ValsA} {code : Bytes} (hi : Inv s)
    (h : createA1 s id v code = .ok s') : Inv s' := by
  unfold createA1 at h
  split at h
  · cases h
  · next hid =>
    split at h
    · cases h
    · next hnc =>
      simp only [bind, Except.bind] at h
      split at h
      · cases h
      · next s2 hsl =>
        have hl1 : LinkInv ({ s with hasA := true, a := s.a.insert id ⟨v.name, v.alias, setOf v.roles, v.owner, some code⟩ } : State) :=
          ⟨hi.link.sym, hi.link.memDom, by
            intro j l hj; simp only [Map.lookup_insert]; split
            · simp
            · exact hi.link.grpDom j l hj⟩
        obtain ⟨l1, l2, l3, l4⟩ := setLinks_pres hl1 (by simp) hsl
        obtain ⟨f1, f2, f3, f4, f5, f6, f7, f8, f9, f10⟩ := l2.fields
        split at h
        · cases h
        · next s3 hs3 =>
          split at h
          · cases h
          · next uc huc =>
            simp only [pure, Except.pure] at h
            cases h
            obtain ⟨un, ua, sr, hun, hua, hsr, hfk⟩ := afterUpdateA_ok hs3
            have hlk : s2.a.lookup id = some ⟨v.name, v.alias, setOf v.roles, v.owner, some code⟩ := by rw [f3]; simp
            have hbr2 : BR s.a ({ s2 with uName := un, uAlias := ua, sRoles := sr } : State).thg := by
              show BR s.a s2.thg; rw [f5]; exact hi.br
            have hd2 : ThgDom ({ s2 with uName := un, uAlias := ua, sRoles := sr } : State) := by
              intro b l; show s2.thg.lookup b = some l → (s2.b.lookup b).isSome = true; rw [f5, f4]; exact hi.thgDom b l
            cases hold : s.a.lookup id with
            | none =>
              simp only [hold, Option.isSome_none, Bool.false_eq_true, if_false, hlk, evName, evAlias, evRoles, evOwner,
                Captured.none] at hun hua hsr hfk
              rw [f6] at hun; rw [f7] at hua; rw [f10] at hsr
              simp only at hun hua hsr
              obtain ⟨k1, k2, k3, k4⟩ := fkAfter_create_ok (e := ⟨v.name, v.alias, setOf v.roles, v.owner, some code⟩) hbr2 hd2 hold hfk
              obtain ⟨g1, g2, g3, g4, g5, g6, g7, g8, g9, g10, g11⟩ := k2.fields
              simp only at g1 g2 g3 g4 g5 g6 g7 g8 g9 g10 g11
              rw [g9, f8] at huc
              simp only at huc
              have hsr' := C03.setAfter_ok (r := (·.roles)) (e := (⟨v.name, v.alias, setOf v.roles, v.owner, some code⟩ : EntA))
                hi.sRoles hi.nek (oldRoles := []) (id := id) (by intro x; simp [hold]) hsr
              refine inv_assemble (e := ⟨v.name, v.alias, setOf v.roles, v.owner, some code⟩) hi
                (show s3.a = _ by rw [g3, f3]) (show s3.b = _ by rw [g4, f4])
                (show s3.uLabel = _ by rw [g10, f9]) (show s3.hasB = _ by rw [g2, f2]) (show s3.hasA = _ by rw [g1, f1])
                ?_ ?_ ?_ ?_ ?_ ?_ ?_ ?_ ?_ ?_ ?_ ?_ ?_ ?_ hid
              · show UI _ s3.a s3.uName; rw [g3, f3, g7]; exact C03.uniqueAfter_create_ok hi.uName hold hun
              · show UI _ s3.a s3.uAlias; rw [g3, f3, g8]; exact C03.uniqueAfter_create_ok hi.uAlias hold hua
              · show UI _ s3.a uc; rw [g3, f3]
                exact C03.uniqueAfter_create_ok (f := fun e => e.code.getD [])
                  (e := (⟨v.name, v.alias, setOf v.roles, v.owner, some code⟩ : EntA)) hi.uCode hold huc
              · show SI _ s3.a s3.sRoles; rw [g3, f3, g11]; exact hsr'.1
              · show NEK s3.sRoles; rw [g11]; exact hsr'.2
              · show BR s3.a s3.thg; rw [g3, f3]; exact k1
              · exact k3
              · have := k4; simp only at this; rw [f4] at this; exact this
              · exact LinkInv_of_eq l1 (show s3.grp = _ from g5) (show s3.mem = _ from g6) (show s3.a = _ by rw [g3]) (show s3.b = _ by rw [g4])
              · intro j hj; show (s3.grp.lookup j).isSome = true; rw [g5]; exact l3 j hj
              · show (s3.grp.lookup id).isSome = true; rw [g5]; exact l4
              · exact C03.uniqueAfter_create_nonempty hun rfl
              · exact C03.setAfter_ok_nonempty hsr (by simp)
              · intro c hc; cases hc; exact C03.uniqueAfter_create_nonempty huc rfl
            | some old =>
              have hcode : old.code = none := by
                cases hc : old.code with
                | none => rfl
                | some c => simp [hold, hc] at hnc
              simp only [hold, Option.isSome_some, if_true, captureA, hlk, evName, evAlias, evRoles, evOwner] at hun hua hsr hfk
              rw [f6] at hun; rw [f7] at hua; rw [f10] at hsr
              simp only at hun hua hsr
              obtain ⟨k1, k2, k3, k4⟩ := fkAfter_true_ok (e := ⟨v.name, v.alias, setOf v.roles, v.owner, some code⟩) hbr2 hd2 hold hfk
              obtain ⟨g1, g2, g3, g4, g5, g6, g7, g8, g9, g10, g11⟩ := k2.fields
              simp only at g1 g2 g3 g4 g5 g6 g7 g8 g9 g10 g11
              rw [g9, f8] at huc
              simp only at huc
              have huc' : uniqueAfter true false ((fun (e : EntA) => e.code.getD []) old)
                  ((fun (e : EntA) => e.code.getD []) ⟨v.name, v.alias, setOf v.roles, v.owner, some code⟩) id s.uCode = .ok uc := by
                simpa [hcode] using huc
              have hsr' := C03.setAfter_ok (r := (·.roles)) (e := (⟨v.name, v.alias, setOf v.roles, v.owner, some code⟩ : EntA))
                hi.sRoles hi.nek (oldRoles := old.roles) (id := id) (by intro x; simp [hold]) hsr
              refine inv_assemble (e := ⟨v.name, v.alias, setOf v.roles, v.owner, some code⟩) hi
                (show s3.a = _ by rw [g3, f3]) (show s3.b = _ by rw [g4, f4])
                (show s3.uLabel = _ by rw [g10, f9]) (show s3.hasB = _ by rw [g2, f2]) (show s3.hasA = _ by rw [g1, f1])
                ?_ ?_ ?_ ?_ ?_ ?_ ?_ ?_ ?_ ?_ ?_ ?_ ?_ ?_ hid
              · show UI _ s3.a s3.uName; rw [g3, f3, g7]
                exact C03.uniqueAfter_true_ok (f := fun (e : EntA) => e.name) hi.uName hold hun
              · show UI _ s3.a s3.uAlias; rw [g3, f3, g8]
                exact C03.uniqueAfter_true_ok (f := fun (e : EntA) => e.alias.getD []) hi.uAlias hold hua
              · show UI _ s3.a uc; rw [g3, f3]
                exact C03.uniqueAfter_true_ok (f := fun (e : EntA) => e.code.getD []) hi.uCode hold huc'
              · show SI _ s3.a s3.sRoles; rw [g3, f3, g11]; exact hsr'.1
              · show NEK s3.sRoles; rw [g11]; exact hsr'.2
              · show BR s3.a s3.thg; rw [g3, f3]; exact k1
              · exact k3
              · have := k4; simp only at this; rw [f4] at this; exact this
              · exact LinkInv_of_eq l1 (show s3.grp = _ from g5) (show s3.mem = _ from g6) (show s3.a = _ by rw [g3]) (show s3.b = _ by rw [g4])
              · intro j hj; show (s3.grp.lookup j).isSome = true; rw [g5]; exact l3 j hj
              · show (s3.grp.lookup id).isSome = true; rw [g5]; exact l4
              · exact C03.uniqueAfter_true_nonempty hun
              · exact C03.setAfter_ok_nonempty hsr (hi.rolesNonEmpty id old hold)
              · intro c hc; cases hc; exact C03.uniqueAfter_create_nonempty huc rfl

theorem inv_createB {s s' : State} {id : Id} {label : Option Bytes} (hi : Inv s) (h : createB s id label = .ok s') :
    Inv s' := by
  unfold createB at h
  split at h
  · cases h
  · next hid =>
    split at h
    · cases h
    · next hex =>
      have hfresh : s.b.lookup id = none := by simpa using hex
      simp only [bind, Except.bind, pure, Except.pure] at h
      split at h
      · cases h
      · next ul hul =>
        cases h
        refine ⟨hi.uName, hi.uAlias, hi.uCode,
          C03.uniqueAfter_create_ok (f := fun (e : EntB) => e.label.getD []) (e := ⟨label⟩) hi.uLabel hfresh hul,
          hi.sRoles, hi.nek, hi.br, ?_, ?_, ⟨hi.link.sym, ?_, hi.link.grpDom⟩, hi.grpTotal, hi.namesNonEmpty,
          hi.rolesNonEmpty, hi.codeNonEmpty, hi.idA, ?_, hi.hasA, fun _ _ _ => rfl⟩
        · intro b l hb; simp only [Map.lookup_insert]; split
          · simp
          · exact hi.thgDom b l hb
        · intro j e hj hne; simp only [Map.lookup_insert]; split
          · simp
          · exact hi.ownerExists j e hj hne
        · intro b l hb; simp only [Map.lookup_insert]; split
          · simp
          · exact hi.link.memDom b l hb
        · simp only [Map.lookup_insert]
          have : ¬ ([] : Id) = id := fun h => hid h.symm
          simp [this, hi.idB]

theorem inv_updateB {s s' : State} {id : Id} {label : Option Bytes} {chk : Option Bool} (hi : Inv s)
    (h : updateB s id label chk = .ok s') : Inv s' := by
  unfold updateB at h
  split at h
  · cases h
  · next hid =>
    split at h
    · cases h
    · next old hold =>
      simp only [bind, Except.bind, pure, Except.pure] at h
      split at h
      · cases h
      · next ul hul =>
        cases h
        refine ⟨hi.uName, hi.uAlias, hi.uCode,
          C03.uniqueAfter_update_ok (f := fun (e : EntB) => e.label.getD []) hi.uLabel hold hul,
          hi.sRoles, hi.nek, hi.br, ?_, ?_, ⟨hi.link.sym, ?_, hi.link.grpDom⟩, hi.grpTotal, hi.namesNonEmpty,
          hi.rolesNonEmpty, hi.codeNonEmpty, hi.idA, ?_, hi.hasA, ?_⟩
        · intro b l hb; simp only [Map.lookup_insert]; split
          · simp
          · exact hi.thgDom b l hb
        · intro j e hj hne; simp only [Map.lookup_insert]; split
          · simp
          · exact hi.ownerExists j e hj hne
        · intro b l hb; simp only [Map.lookup_insert]; split
          · simp
          · exact hi.link.memDom b l hb
        · simp only [Map.lookup_insert]
          have : ¬ ([] : Id) = id := fun h => hid h.symm
          simp [this, hi.idB]
        · intro j e; simp only [Map.lookup_insert]; split
          · intro _; exact hi.hasB id old hold
          · exact hi.hasB j e

/-! ### deleting an owner -/

/-- one step of `cleanupLinksB` -/
def clB (id : Id) (s : State) (a : Id) : State :=
  match s.a.lookup a, s.grp.lookup a with
  | some _, some gs => { s with grp := s.grp.insert a (setErase id gs) }
  | _, _ => s

theorem cleanupLinksB_eq (s : State) (id : Id) :
    cleanupLinksB s id = ((s.mem.lookup id).getD []).foldl (clB id) s := rfl

/-- only `grp` changed -/
def GrpFrame (s s' : State) : Prop := s' = { s with grp := s'.grp }

theorem clB_fold (id : Id) (ks : List Id) (s : State)
    (hdom : ∀ j l, s.grp.lookup j = some l → (s.a.lookup j).isSome = true) :
    let s' := ks.foldl (clB id) s
    GrpFrame s s' ∧
    (∀ j b, b ∈ (s'.grp.lookup j).getD [] ↔ (b ∈ (s.grp.lookup j).getD [] ∧ ¬ (b = id ∧ j ∈ ks))) ∧
    (∀ j, (s'.grp.lookup j).isSome = (s.grp.lookup j).isSome) := by
  induction ks generalizing s with
  | nil => simp [GrpFrame]
  | cons k rest ih =>
    simp only [List.foldl_cons]
    have hstep : GrpFrame s (clB id s k) ∧
        (∀ j b, b ∈ ((clB id s k).grp.lookup j).getD [] ↔ (b ∈ (s.grp.lookup j).getD [] ∧ ¬ (b = id ∧ j = k))) ∧
        (∀ j, ((clB id s k).grp.lookup j).isSome = (s.grp.lookup j).isSome) := by
      unfold clB
      cases hg : s.grp.lookup k with
      | none =>
        have : (match s.a.lookup k, (none : Option (List Id)) with
          | some _, some gs => { s with grp := s.grp.insert k (setErase id gs) }
          | _, _ => s) = s := by cases s.a.lookup k <;> rfl
        rw [this]
        refine ⟨rfl, ?_, fun _ => rfl⟩
        intro j b
        by_cases hj : j = k
        · subst hj; simp [hg]
        · simp [hj]
      | some gs =>
        have hex := hdom k gs hg
        cases ha : s.a.lookup k with
        | none => simp [ha] at hex
        | some e =>
          simp only
          refine ⟨rfl, ?_, ?_⟩
          · intro j b
            simp only [Map.lookup_insert]
            by_cases hj : j = k
            · subst hj; simp [hg, and_comm]
            · simp [hj]
          · intro j; simp only [Map.lookup_insert]; split
            · next hj => subst hj; simp [hg]
            · rfl
    obtain ⟨s1, s2, s3⟩ := hstep
    have hdom' : ∀ j l, (clB id s k).grp.lookup j = some l → ((clB id s k).a.lookup j).isSome = true := by
      intro j l hl
      have ha : (clB id s k).a = s.a := by unfold GrpFrame at s1; rw [s1]
      rw [ha]
      have := s3 j
      rw [hl] at this
      cases hh : s.grp.lookup j with
      | none => simp [hh] at this
      | some l' => exact hdom j l' hh
    obtain ⟨t1, t2, t3⟩ := ih (clB id s k) hdom'
    refine ⟨?_, ?_, ?_⟩
    · unfold GrpFrame at *; rw [t1, s1]
    · intro j b; rw [t2, s2]; simp only [List.mem_cons]; grind
    · intro j; rw [t3, s3]



theorem deleteB_ok {s s' : State} {id : Id} (h : deleteB s id = .ok s') :
    id ≠ [] ∧ ∃ e, s.b.lookup id = some e ∧ (s.thg.lookup id).getD [] = [] ∧
      s' = { cleanupLinksB { s with uLabel := uniqueBeforeDelete (e.label.getD []) s.uLabel } id with
             b := (cleanupLinksB { s with uLabel := uniqueBeforeDelete (e.label.getD []) s.uLabel } id).b.erase id,
             mem := (cleanupLinksB { s with uLabel := uniqueBeforeDelete (e.label.getD []) s.uLabel } id).mem.erase id,
             thg := (cleanupLinksB { s with uLabel := uniqueBeforeDelete (e.label.getD []) s.uLabel } id).thg.erase id } := by
  unfold deleteB at h
  split at h
  · cases h
  · next hid =>
    split at h
    · cases h
    · next e he =>
      simp only at h
      split at h
      · cases h
      · next hne =>
        cases h
        exact ⟨hid, e, he, by simpa using hne, rfl⟩

theorem inv_deleteB {s s' : State} {id : Id} (hi : Inv s) (h : deleteB s id = .ok s') : Inv s' := by
  obtain ⟨hid, e, hold, hempty, rfl⟩ := deleteB_ok h
  have hdom : ∀ j l, ({ s with uLabel := uniqueBeforeDelete (e.label.getD []) s.uLabel } : State).grp.lookup j = some l →
      (({ s with uLabel := uniqueBeforeDelete (e.label.getD []) s.uLabel } : State).a.lookup j).isSome = true :=
    hi.link.grpDom
  obtain ⟨c1, c2, c3⟩ := clB_fold id ((s.mem.lookup id).getD []) _ hdom
  rw [← cleanupLinksB_eq] at c1 c2 c3
  generalize hs1 : cleanupLinksB { s with uLabel := uniqueBeforeDelete (e.label.getD []) s.uLabel } id = s1 at c1 c2 c3 ⊢
  simp only at c2 c3
  unfold GrpFrame at c1
  have ea : s1.a = s.a := by rw [c1]
  have eb : s1.b = s.b := by rw [c1]
  have em : s1.mem = s.mem := by rw [c1]
  have et : s1.thg = s.thg := by rw [c1]
  have e1 : s1.uName = s.uName := by rw [c1]
  have e2 : s1.uAlias = s.uAlias := by rw [c1]
  have e3 : s1.uCode = s.uCode := by rw [c1]
  have e4 : s1.uLabel = uniqueBeforeDelete (e.label.getD []) s.uLabel := by rw [c1]
  have e5 : s1.sRoles = s.sRoles := by rw [c1]
  have e6 : s1.hasA = s.hasA := by rw [c1]
  have e7 : s1.hasB = s.hasB := by rw [c1]
  have hnoref : ∀ j e', s.a.lookup j = some e' → e'.owner.getD [] ≠ id := by
    intro j e' hj heq
    have := (hi.br id j).2 ⟨hid, e', hj, heq⟩
    rw [hempty] at this; simp at this
  refine ⟨?_, ?_, ?_, ?_, ?_, ?_, ?_, ?_, ?_, ⟨?_, ?_, ?_⟩, ?_, ?_, ?_, ?_, ?_, ?_, ?_, ?_⟩
  · show UI _ s1.a s1.uName; rw [ea, e1]; exact hi.uName
  · show UI _ s1.a s1.uAlias; rw [ea, e2]; exact hi.uAlias
  · show UI _ s1.a s1.uCode; rw [ea, e3]; exact hi.uCode
  · show UI _ (s1.b.erase id) s1.uLabel; rw [eb, e4]
    exact C03.uniqueBeforeDelete_ok (f := fun (e : EntB) => e.label.getD []) hi.uLabel hold
  · show SI _ s1.a s1.sRoles; rw [ea, e5]; exact hi.sRoles
  · show NEK s1.sRoles; rw [e5]; exact hi.nek
  · show BR s1.a (s1.thg.erase id); rw [ea, et]
    intro b j
    have := hi.br b j
    simp only [Map.lookup_erase]
    by_cases hb : b = id
    · subst hb; simp only [if_true, Option.getD_none, List.not_mem_nil, false_iff]
      rintro ⟨_, e', hj, heq⟩; exact hnoref j e' hj heq
    · simp only [hb, if_false]; exact this
  · intro b l
    show (s1.thg.erase id).lookup b = some l → ((s1.b.erase id).lookup b).isSome = true
    rw [et, eb]; simp only [Map.lookup_erase]; split
    · simp
    · exact hi.thgDom b l
  · intro j e'
    show s1.a.lookup j = some e' → e'.owner.getD [] ≠ [] → ((s1.b.erase id).lookup (e'.owner.getD [])).isSome = true
    rw [ea, eb]; intro hj hne; simp only [Map.lookup_erase]
    have := hnoref j e' hj
    simp only [this, if_false]
    exact hi.ownerExists j e' hj hne
  · intro j b
    show b ∈ (s1.grp.lookup j).getD [] ↔ j ∈ ((s1.mem.erase id).lookup b).getD []
    rw [c2, em]; simp only [Map.lookup_erase]
    have hs := hi.link.sym j b
    by_cases hb : b = id
    · subst hb; simp only [if_true, Option.getD_none, List.not_mem_nil, iff_false]
      intro ⟨h1, h2⟩; exact h2 (by simpa using hs.1 h1)
    · simp only [hb, if_false, false_and, not_false_eq_true, and_true]; exact hs
  · intro b l
    show (s1.mem.erase id).lookup b = some l → ((s1.b.erase id).lookup b).isSome = true
    rw [em, eb]; simp only [Map.lookup_erase]; split
    · simp
    · exact hi.link.memDom b l
  · intro j l
    show s1.grp.lookup j = some l → (s1.a.lookup j).isSome = true
    rw [ea]; intro hl
    have := c3 j; rw [hl] at this
    cases hh : s.grp.lookup j with
    | none => simp [hh] at this
    | some l' => exact hi.link.grpDom j l' hh
  · intro j
    show (s1.a.lookup j).isSome = true → (s1.grp.lookup j).isSome = true
    rw [ea, c3]; exact hi.grpTotal j
  · intro j e'; show s1.a.lookup j = some e' → _; rw [ea]; exact hi.namesNonEmpty j e'
  · intro j e'; show s1.a.lookup j = some e' → _; rw [ea]; exact hi.rolesNonEmpty j e'
  · intro j e' c; show s1.a.lookup j = some e' → _; rw [ea]; exact hi.codeNonEmpty j e' c
  · show s1.a.lookup [] = none; rw [ea]; exact hi.idA
  · show (s1.b.erase id).lookup [] = none; rw [eb]; simp only [Map.lookup_erase]; split <;> simp [hi.idB]
  · intro j e'; show s1.a.lookup j = some e' → s1.hasA = true; rw [ea, e6]; exact hi.hasA j e'
  · intro j e'; show (s1.b.erase id).lookup j = some e' → s1.hasB = true; rw [eb, e7]
    simp only [Map.lookup_erase]; split
    · simp
    · exact hi.hasB j e'



/-! ### deleting a thing -/

theorem uniqueBeforeDelete_absent {E : Type} {f : E → Bytes} {ents : Map Id E} {idx : Map Bytes Id} {v : Bytes}
    (h : UI f ents idx) (hv : v = [] ∨ ∀ i e, ents.lookup i = some e → f e ≠ v) :
    UI f ents (uniqueBeforeDelete v idx) := by
  unfold uniqueBeforeDelete
  split
  · next hne =>
    rcases hv with hv | hv
    · exact absurd hv hne
    · intro w i
      have := h w i
      simp only [Map.lookup_erase]
      split
      · next hw =>
        subst hw
        constructor
        · intro h; cases h
        · rintro ⟨_, e, he, hf⟩; exact absurd hf (hv i e he)
      · exact this
  · exact h

theorem setBeforeDelete_absent {E : Type} {r : E → List Bytes} {ents : Map Id E} {idx idx' : Map Bytes (List Id)} {id : Id}
    {vals : List Bytes} (hsi : SI r ents idx) (hnek : NEK idx) (hno : ents.lookup id = none)
    (h : setBeforeDelete vals id idx = .ok idx') : SI r ents idx' ∧ NEK idx' := by
  unfold setBeforeDelete at h
  split at h
  · cases h
  · cases h
    refine ⟨?_, C03.nek_foldl_del _ _ _ hnek⟩
    intro v i
    have := hsi v i
    have h2 := hsi v id
    simp only [C03.mem_foldl_del]
    constructor
    · intro ⟨h1, _⟩; exact this.1 h1
    · intro h1
      refine ⟨this.2 h1, ?_⟩
      rintro ⟨rfl, _⟩
      obtain ⟨e, he, _⟩ := h1
      rw [hno] at he; cases he

theorem fkBeforeDelete_absent {s s' : State} {ents : Map Id EntA} {id : Id} {v : Bytes}
    (hbr : BR ents s.thg) (hd : ThgDom s) (hno : ents.lookup id = none)
    (h : fkBeforeDelete v id s = .ok s') : BR ents s'.thg ∧ ThgFrame s s' ∧ ThgDom s' := by
  unfold fkBeforeDelete at h
  by_cases hn : v = []
  · simp only [hn, ne_eq, not_true_eq_false, if_false, pure, Except.pure] at h
    cases h; exact ⟨hbr, rfl, hd⟩
  · simp only [ne_eq, hn, not_false_eq_true, if_true] at h
    obtain ⟨hb, rfl⟩ := backrefDel_eq h
    refine ⟨?_, rfl, ?_⟩
    · intro b j
      have := hbr b j
      have h2 := hbr b id
      simp only [Map.lookup_insert]
      by_cases hbb : b = v
      · subst hbb; simp only [if_true, Option.getD_some, mem_setErase]
        constructor
        · intro ⟨_, h1⟩; exact this.1 h1
        · intro h1
          refine ⟨?_, this.2 h1⟩
          rintro rfl
          obtain ⟨_, e, he, _⟩ := h1
          rw [hno] at he; cases he
      · simp only [hbb, if_false]; exact this
    · intro b l; simp only [Map.lookup_insert]; split
      · next hb' => subst hb'; intro _; exact hb
      · exact hd b l

/-- the index part of the invariant, relative to an entity table -/
structure IdxInv (ents : Map Id EntA) (s : State) : Prop where
  uName : UI (·.name) ents s.uName
  uAlias : UI (fun e => e.alias.getD []) ents s.uAlias
  sRoles : SI (·.roles) ents s.sRoles
  nek : NEK s.sRoles
  br : BR ents s.thg
  thgDom : ThgDom s

/-- `beforeDeleteA` touches the three A indexes and the back-reference buckets only -/
def BDFrame (s s' : State) : Prop :=
  s' = { s with uName := s'.uName, uAlias := s'.uAlias, sRoles := s'.sRoles, thg := s'.thg }

theorem beforeDeleteA_first {s s' : State} {id : Id} {e : EntA} (hi : IdxInv s.a s) (hold : s.a.lookup id = some e)
    (h : beforeDeleteA s id = .ok s') : IdxInv (s.a.erase id) s' ∧ BDFrame s s' := by
  obtain ⟨sr, hsr, hfk⟩ := beforeDeleteA_ok h
  simp only [hold, evName, evAlias, evRoles, evOwner] at hsr hfk
  have hsr' := C03.setBeforeDelete_ok (r := (·.roles)) hi.sRoles hi.nek hold hsr
  obtain ⟨k1, k2, k3⟩ := fkBeforeDelete_ok (ents := s.a) (s := ({ s with uName := uniqueBeforeDelete (e.name) (s.uName), uAlias := uniqueBeforeDelete (e.alias.getD []) (s.uAlias), sRoles := sr } : State)) hi.br hi.thgDom hold hfk
  unfold ThgFrame at k2
  refine ⟨⟨?_, ?_, ?_, ?_, k1, k3⟩, ?_⟩
  · rw [k2]; exact C03.uniqueBeforeDelete_ok (f := (·.name)) hi.uName hold
  · rw [k2]; exact C03.uniqueBeforeDelete_ok (f := fun e => e.alias.getD []) hi.uAlias hold
  · rw [k2]; exact hsr'.1
  · rw [k2]; exact hsr'.2
  · unfold BDFrame; rw [k2]

theorem beforeDeleteA_again {s s' : State} {ents : Map Id EntA} {id : Id} {e : EntA} (hi : IdxInv ents s)
    (hno : ents.lookup id = none) (hold : s.a.lookup id = some e)
    (hn : e.name = [] ∨ ∀ i e', ents.lookup i = some e' → e'.name ≠ e.name)
    (ha : e.alias.getD [] = [] ∨ ∀ i e', ents.lookup i = some e' → e'.alias.getD [] ≠ e.alias.getD [])
    (h : beforeDeleteA s id = .ok s') : IdxInv ents s' ∧ BDFrame s s' := by
  obtain ⟨sr, hsr, hfk⟩ := beforeDeleteA_ok h
  simp only [hold, evName, evAlias, evRoles, evOwner] at hsr hfk
  have hsr' := setBeforeDelete_absent (r := (·.roles)) hi.sRoles hi.nek hno hsr
  obtain ⟨k1, k2, k3⟩ := fkBeforeDelete_absent (ents := ents) (s := ({ s with uName := uniqueBeforeDelete (e.name) (s.uName), uAlias := uniqueBeforeDelete (e.alias.getD []) (s.uAlias), sRoles := sr } : State)) hi.br hi.thgDom hno hfk
  unfold ThgFrame at k2
  refine ⟨⟨?_, ?_, ?_, ?_, k1, k3⟩, ?_⟩
  · rw [k2]; exact uniqueBeforeDelete_absent (f := fun (e : EntA) => e.name) hi.uName hn
  · rw [k2]; exact uniqueBeforeDelete_absent (f := fun (e : EntA) => e.alias.getD []) hi.uAlias ha
  · rw [k2]; exact hsr'.1
  · rw [k2]; exact hsr'.2
  · unfold BDFrame; rw [k2]

/-- one step of `cleanupLinksA` -/
def clA (id : Id) (s : State) (b : Id) : State :=
  match s.b.lookup b, s.mem.lookup b with
  | some _, some ms => { s with mem := s.mem.insert b (setErase id ms) }
  | _, _ => s

theorem cleanupLinksA_eq (s : State) (id : Id) :
    cleanupLinksA s id = ((s.grp.lookup id).getD []).foldl (clA id) s := rfl

def MemFrame (s s' : State) : Prop := s' = { s with mem := s'.mem }

theorem clA_fold (id : Id) (ks : List Id) (s : State)
    (hdom : ∀ b l, s.mem.lookup b = some l → (s.b.lookup b).isSome = true) :
    let s' := ks.foldl (clA id) s
    MemFrame s s' ∧
    (∀ b j, j ∈ (s'.mem.lookup b).getD [] ↔ (j ∈ (s.mem.lookup b).getD [] ∧ ¬ (j = id ∧ b ∈ ks))) ∧
    (∀ b, (s'.mem.lookup b).isSome = (s.mem.lookup b).isSome) := by
  induction ks generalizing s with
  | nil => simp [MemFrame]
  | cons k rest ih =>
    simp only [List.foldl_cons]
    have hstep : MemFrame s (clA id s k) ∧
        (∀ b j, j ∈ ((clA id s k).mem.lookup b).getD [] ↔ (j ∈ (s.mem.lookup b).getD [] ∧ ¬ (j = id ∧ b = k))) ∧
        (∀ b, ((clA id s k).mem.lookup b).isSome = (s.mem.lookup b).isSome) := by
      unfold clA
      cases hg : s.mem.lookup k with
      | none =>
        have : (match s.b.lookup k, (none : Option (List Id)) with
          | some _, some ms => { s with mem := s.mem.insert k (setErase id ms) }
          | _, _ => s) = s := by cases s.b.lookup k <;> rfl
        rw [this]
        refine ⟨rfl, ?_, fun _ => rfl⟩
        intro b j
        by_cases hb : b = k
        · subst hb; simp [hg]
        · simp [hb]
      | some ms =>
        have hex := hdom k ms hg
        cases hb : s.b.lookup k with
        | none => simp [hb] at hex
        | some e =>
          simp only
          refine ⟨rfl, ?_, ?_⟩
          · intro b j
            simp only [Map.lookup_insert]
            by_cases hbk : b = k
            · subst hbk; simp [hg, and_comm]
            · simp [hbk]
          · intro b; simp only [Map.lookup_insert]; split
            · next hbk => subst hbk; simp [hg]
            · rfl
    obtain ⟨s1, s2, s3⟩ := hstep
    have hdom' : ∀ b l, (clA id s k).mem.lookup b = some l → ((clA id s k).b.lookup b).isSome = true := by
      intro b l hl
      have hb : (clA id s k).b = s.b := by unfold MemFrame at s1; rw [s1]
      rw [hb]
      have := s3 b
      rw [hl] at this
      cases hh : s.mem.lookup b with
      | none => simp [hh] at this
      | some l' => exact hdom b l' hh
    obtain ⟨t1, t2, t3⟩ := ih (clA id s k) hdom'
    refine ⟨?_, ?_, ?_⟩
    · unfold MemFrame at *; rw [t1, s1]
    · intro b j; rw [t2, s2]; simp only [List.mem_cons]; grind
    · intro b; rw [t3, s3]



theorem BDFrame.fields {s s' : State} (h : BDFrame s s') :
    s'.hasA = s.hasA ∧ s'.hasB = s.hasB ∧ s'.a = s.a ∧ s'.b = s.b ∧ s'.grp = s.grp ∧ s'.mem = s.mem ∧
    s'.uCode = s.uCode ∧ s'.uLabel = s.uLabel := by
  unfold BDFrame at h; rw [h]; simp

theorem Inv.idx {s : State} (hi : Inv s) : IdxInv s.a s :=
  ⟨hi.uName, hi.uAlias, hi.sRoles, hi.nek, hi.br, hi.thgDom⟩

theorem other_names_differ {E : Type} {f : E → Bytes} {ents : Map Id E} {idx : Map Bytes Id} {id : Id} {e : E}
    (h : UI f ents idx) (hold : ents.lookup id = some e) :
    f e = [] ∨ ∀ i e', (ents.erase id).lookup i = some e' → f e' ≠ f e := by
  by_cases hz : f e = []
  · exact Or.inl hz
  · right
    intro i e' hi' heq
    simp only [Map.lookup_erase] at hi'
    split at hi'
    · cases hi'
    · next hne =>
      have h1 := (h (f e) i).2 ⟨hz, e', hi', heq⟩
      have h2 := (h (f e) id).2 ⟨hz, e, hold, rfl⟩
      rw [h1] at h2; cases h2; exact hne rfl

/-- what `deleteA` computes, stage by stage -/
theorem deleteA_stages {s s' : State} {id : Id} (hi : Inv s) (h : deleteA s id = .ok s') :
    id ≠ [] ∧ ∃ e s2, s.a.lookup id = some e ∧ IdxInv (s.a.erase id) s2 ∧
      s2.hasA = s.hasA ∧ s2.hasB = s.hasB ∧ s2.a = s.a ∧ s2.b = s.b ∧ s2.grp = s.grp ∧ s2.mem = s.mem ∧
      s2.uLabel = s.uLabel ∧ s2.uCode = uniqueBeforeDelete (e.code.getD []) s.uCode ∧
      s' = { cleanupLinksA s2 id with a := (cleanupLinksA s2 id).a.erase id, grp := (cleanupLinksA s2 id).grp.erase id } := by
  unfold deleteA at h
  split at h
  · cases h
  · next hid =>
    refine ⟨hid, ?_⟩
    split at h
    · cases h
    · next e hold =>
      simp only [bind, Except.bind, pure, Except.pure] at h
      cases hc : e.code with
      | none =>
        simp only [hc, Option.isSome_none, Bool.false_eq_true, if_false] at h
        split at h
        · cases h
        · next s2 hs2 =>
          cases h
          obtain ⟨i1, i2⟩ := beforeDeleteA_first hi.idx hold hs2
          obtain ⟨f1, f2, f3, f4, f5, f6, f7, f8⟩ := i2.fields
          exact ⟨e, s2, hold, i1, f1, f2, f3, f4, f5, f6, f8,
            by rw [f7]; simp [uniqueBeforeDelete, hc], rfl⟩
      | some c =>
        simp only [hc, Option.isSome_some, if_true] at h
        split at h
        · cases h
        · next s1 hs1 =>
          split at hs1
          · cases hs1
          · next t ht =>
            cases hs1
            split at h
            · cases h
            · next s2 hs2 =>
              cases h
              obtain ⟨i1, i2⟩ := beforeDeleteA_first hi.idx hold ht
              obtain ⟨f1, f2, f3, f4, f5, f6, f7, f8⟩ := i2.fields
              have i1' : IdxInv (s.a.erase id) ({ t with uCode := uniqueBeforeDelete (evCode (some e)) t.uCode } : State) :=
                ⟨i1.uName, i1.uAlias, i1.sRoles, i1.nek, i1.br, i1.thgDom⟩
              have hold1 : ({ t with uCode := uniqueBeforeDelete (evCode (some e)) t.uCode } : State).a.lookup id = some e := by
                show t.a.lookup id = some e; rw [f3]; exact hold
              obtain ⟨j1, j2⟩ := beforeDeleteA_again i1' (by simp) hold1
                (other_names_differ (f := fun (e : EntA) => e.name) hi.uName hold)
                (other_names_differ (f := fun (e : EntA) => e.alias.getD []) hi.uAlias hold) hs2
              obtain ⟨g1, g2, g3, g4, g5, g6, g7, g8⟩ := j2.fields
              simp only at g1 g2 g3 g4 g5 g6 g7 g8
              exact ⟨e, s2, hold, j1, by rw [g1, f1], by rw [g2, f2], by rw [g3, f3], by rw [g4, f4], by rw [g5, f5],
                by rw [g6, f6], by rw [g8, f8], by rw [g7, f7]; simp [evCode, hc], rfl⟩

theorem inv_deleteA {s s' : State} {id : Id} (hi : Inv s) (h : deleteA s id = .ok s') : Inv s' := by
  obtain ⟨hid, e, s2, hold, ix, q1, q2, q3, q4, q5, q6, q7, q8, rfl⟩ := deleteA_stages hi h
  have hdom : ∀ b l, s2.mem.lookup b = some l → (s2.b.lookup b).isSome = true := by
    rw [q6, q4]; exact hi.link.memDom
  obtain ⟨c1, c2, c3⟩ := clA_fold id ((s2.grp.lookup id).getD []) s2 hdom
  rw [← cleanupLinksA_eq] at c1 c2 c3
  generalize hs3 : cleanupLinksA s2 id = s3 at c1 c2 c3 ⊢
  unfold MemFrame at c1
  have ea : s3.a = s.a := by rw [c1]; exact q3
  have eb : s3.b = s.b := by rw [c1]; exact q4
  have eg : s3.grp = s.grp := by rw [c1]; exact q5
  have et : s3.thg = s2.thg := by rw [c1]
  have e1 : s3.uName = s2.uName := by rw [c1]
  have e2 : s3.uAlias = s2.uAlias := by rw [c1]
  have e3 : s3.uCode = uniqueBeforeDelete (e.code.getD []) s.uCode := by rw [c1]; exact q8
  have e4 : s3.uLabel = s.uLabel := by rw [c1]; exact q7
  have e5 : s3.sRoles = s2.sRoles := by rw [c1]
  have e6 : s3.hasA = s.hasA := by rw [c1]; exact q1
  have e7 : s3.hasB = s.hasB := by rw [c1]; exact q2
  rw [q5, q6] at c2
  rw [q6] at c3
  refine ⟨?_, ?_, ?_, ?_, ?_, ?_, ?_, ?_, ?_, ⟨?_, ?_, ?_⟩, ?_, ?_, ?_, ?_, ?_, ?_, ?_, ?_⟩
  · show UI _ (s3.a.erase id) s3.uName; rw [ea, e1]; exact ix.uName
  · show UI _ (s3.a.erase id) s3.uAlias; rw [ea, e2]; exact ix.uAlias
  · show UI _ (s3.a.erase id) s3.uCode; rw [ea, e3]
    exact C03.uniqueBeforeDelete_ok (f := fun (e : EntA) => e.code.getD []) hi.uCode hold
  · show UI _ s3.b s3.uLabel; rw [eb, e4]; exact hi.uLabel
  · show SI _ (s3.a.erase id) s3.sRoles; rw [ea, e5]; exact ix.sRoles
  · show NEK s3.sRoles; rw [e5]; exact ix.nek
  · show BR (s3.a.erase id) s3.thg; rw [ea, et]; exact ix.br
  · intro b l; show s3.thg.lookup b = some l → (s3.b.lookup b).isSome = true
    rw [et, eb, ← q4]; exact ix.thgDom b l
  · intro j e'; show (s3.a.erase id).lookup j = some e' → _ → (s3.b.lookup _).isSome = true
    rw [ea, eb]; simp only [Map.lookup_erase]; split
    · simp
    · exact hi.ownerExists j e'
  · intro j b
    show b ∈ ((s3.grp.erase id).lookup j).getD [] ↔ j ∈ (s3.mem.lookup b).getD []
    rw [c2, eg]; simp only [Map.lookup_erase]
    have hs := hi.link.sym j b
    by_cases hj : j = id
    · subst hj; simp only [if_true, Option.getD_none, List.not_mem_nil, false_iff]
      intro ⟨h1, h2⟩; exact h2 (by simpa using hs.2 h1)
    · simp only [hj, if_false, false_and, not_false_eq_true, and_true]; exact hs
  · intro b l; show s3.mem.lookup b = some l → (s3.b.lookup b).isSome = true
    rw [eb]; intro hl
    have := c3 b; rw [hl] at this
    cases hh : s.mem.lookup b with
    | none => simp [hh] at this
    | some l' => exact hi.link.memDom b l' hh
  · intro j l; show (s3.grp.erase id).lookup j = some l → ((s3.a.erase id).lookup j).isSome = true
    rw [eg, ea]; simp only [Map.lookup_erase]; split
    · simp
    · exact hi.link.grpDom j l
  · intro j; show ((s3.a.erase id).lookup j).isSome = true → ((s3.grp.erase id).lookup j).isSome = true
    rw [eg, ea]; simp only [Map.lookup_erase]; split
    · simp
    · exact hi.grpTotal j
  · intro j e'; show (s3.a.erase id).lookup j = some e' → _; rw [ea]; simp only [Map.lookup_erase]; split
    · simp
    · exact hi.namesNonEmpty j e'
  · intro j e'; show (s3.a.erase id).lookup j = some e' → _; rw [ea]; simp only [Map.lookup_erase]; split
    · simp
    · exact hi.rolesNonEmpty j e'
  · intro j e' c; show (s3.a.erase id).lookup j = some e' → _; rw [ea]; simp only [Map.lookup_erase]; split
    · simp
    · exact hi.codeNonEmpty j e' c
  · show (s3.a.erase id).lookup [] = none; rw [ea]; simp only [Map.lookup_erase]; split <;> simp [hi.idA]
  · show s3.b.lookup [] = none; rw [eb]; exact hi.idB
  · intro j e'; show (s3.a.erase id).lookup j = some e' → s3.hasA = true; rw [ea, e6]
    simp only [Map.lookup_erase]; split
    · simp
    · exact hi.hasA j e'
  · intro j e'; show s3.b.lookup j = some e' → s3.hasB = true; rw [eb, e7]; exact hi.hasB j e'


/-! ### all operations, transactions, histories -/

theorem inv_stepRaw {s s' : State} {op : Op} (hi : Inv s) (h : stepRaw s op = .ok s') : Inv s' := by
  cases op with
  | createA id v => exact inv_createA hi h
  | updateA id v chk => exact inv_updateA hi h
  | deleteA id => exact inv_deleteA hi h
  | createA1 id v code => exact inv_createA1 hi h
  | createB id l => exact inv_createB hi h
  | updateB id l chk => exact inv_updateB hi h
  | deleteB id => exact inv_deleteB hi h

theorem inv_applyOps {s s' : State} {ops : List Op} {i : Nat} (hi : Inv s)
    (h : applyOps s ops i = .ok s') : Inv s' := by
  induction ops generalizing s i with
  | nil => simp only [applyOps] at h; cases h; exact hi
  | cons op rest ih =>
    simp only [applyOps] at h
    split at h
    · next s1 h1 => exact ih (inv_stepRaw hi h1) h
    · cases h

theorem inv_txStep {s : State} (ops : List Op) (hi : Inv s) : Inv (txStep s ops).1 := by
  unfold txStep
  split
  · next s' h => exact inv_applyOps hi h
  · exact hi

theorem inv_foldTxs {s : State} (txs : List (List Op)) (hi : Inv s) :
    Inv (txs.foldl (fun s ops => (txStep s ops).1) s) := by
  induction txs generalizing s with
  | nil => exact hi
  | cons ops rest ih => exact ih (inv_txStep ops hi)

end StorageModel.C06
