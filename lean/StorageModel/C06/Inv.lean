import StorageModel.C06.Links
/-
  C06: invariants of the universe model and their preservation by every operation.
-/
namespace StorageModel.C06
open StorageModel
open StorageModel.C03 (Map Id Err setInsert setErase setOf uniqueAfter uniqueBeforeDelete setAfter setBeforeDelete
  UI SI NEK mem_setInsert mem_setErase)

/-- back-reference buckets = exactly the referrers -/
def BR (ents : Map Id EntA) (thg : Map Id (List Id)) : Prop :=
  ∀ b j, j ∈ (thg.lookup b).getD [] ↔ (b ≠ [] ∧ ∃ e, ents.lookup j = some e ∧ e.owner.getD [] = b)

/-- only `thg` changed -/
def ThgFrame (s s' : State) : Prop := s' = { s with thg := s'.thg }

def ThgDom (s : State) : Prop := ∀ b l, s.thg.lookup b = some l → (s.b.lookup b).isSome = true

theorem backrefDel_eq {s s' : State} {b : Bytes} {id : Id} (h : backrefDel s b id = .ok s') :
    (s.b.lookup b).isSome = true ∧ s' = { s with thg := s.thg.insert b (setErase id ((s.thg.lookup b).getD [])) } := by
  unfold backrefDel at h
  split at h
  · cases h
  · next hb => cases h; simp [hb]

theorem backrefAdd_eq {s s' : State} {b : Bytes} {id : Id} (h : backrefAdd s b id = .ok s') :
    (s.b.lookup b).isSome = true ∧ s' = { s with thg := s.thg.insert b (setInsert id ((s.thg.lookup b).getD [])) } := by
  unfold backrefAdd at h
  split at h
  · cases h
  · next hb => cases h; simp [hb]

theorem fkAfter_update_ok {s s' : State} {ents : Map Id EntA} {id : Id} {old e : EntA}
    (hbr : BR ents s.thg) (hd : ThgDom s) (hold : ents.lookup id = some old)
    (hoe : old.owner.getD [] ≠ [] → (s.b.lookup (old.owner.getD [])).isSome = true)
    (h : fkAfter false (old.owner.getD []) (e.owner.getD []) id s = .ok s') :
    BR (ents.insert id e) s'.thg ∧ ThgFrame s s' ∧ ThgDom s' ∧
    (e.owner.getD [] ≠ [] → (s.b.lookup (e.owner.getD [])).isSome = true) := by
  unfold fkAfter at h
  simp only [Bool.not_false, Bool.true_and, beq_iff_eq, ne_eq, bind, Except.bind, pure, Except.pure] at h
  split at h
  · next heq =>
    cases h
    refine ⟨?_, rfl, hd, by rw [← heq]; exact hoe⟩
    intro b j
    have := hbr b j
    simp only [Map.lookup_insert]
    grind
  · next hne =>
    by_cases ho : old.owner.getD [] = []
    · simp only [ho, not_true_eq_false, if_false] at h
      by_cases hn : e.owner.getD [] = []
      · exact absurd (ho.trans hn.symm) hne
      · simp only [hn, not_false_eq_true, if_true] at h
        obtain ⟨hb, rfl⟩ := backrefAdd_eq h
        refine ⟨?_, rfl, ?_, fun _ => hb⟩
        · intro b j
          have := hbr b j
          simp only [Map.lookup_insert]
          by_cases hbb : b = e.owner.getD []
          · subst hbb; simp only [if_true, Option.getD_some, mem_setInsert]; grind
          · simp only [hbb, if_false]; grind
        · intro b l; simp only [Map.lookup_insert]; split
          · next hb' => subst hb'; intro _; exact hb
          · exact hd b l
    · simp only [ho, not_false_eq_true, if_true] at h
      cases hdel : backrefDel s (old.owner.getD []) id with
      | error x => simp [hdel] at h
      | ok s1 =>
        simp only [hdel] at h
        obtain ⟨hb1, rfl⟩ := backrefDel_eq hdel
        by_cases hn : e.owner.getD [] = []
        · simp only [hn, not_true_eq_false, if_false] at h
          cases h
          refine ⟨?_, rfl, ?_, fun h => absurd hn h⟩
          · intro b j
            have := hbr b j
            simp only [Map.lookup_insert]
            by_cases hbb : b = old.owner.getD []
            · subst hbb; simp only [if_true, Option.getD_some, mem_setErase]; grind
            · simp only [hbb, if_false]; grind
          · intro b l; simp only [Map.lookup_insert]; split
            · next hb' => subst hb'; intro _; exact hb1
            · exact hd b l
        · simp only [hn, not_false_eq_true, if_true] at h
          obtain ⟨hb2, rfl⟩ := backrefAdd_eq h
          refine ⟨?_, rfl, ?_, fun _ => hb2⟩
          · intro b j
            have := hbr b j
            simp only [Map.lookup_insert]
            by_cases hbb : b = e.owner.getD [] <;> by_cases hbo : b = old.owner.getD []
            · exact absurd (hbo.symm.trans hbb) hne
            · subst hbb; simp only [if_true, Option.getD_some, mem_setInsert, hbo, if_false]; grind
            · subst hbo; simp only [hbb, if_false, if_true, Option.getD_some, mem_setErase]; grind
            · simp only [hbb, hbo, if_false]; grind
          · intro b l; simp only [Map.lookup_insert]; split
            · next hb' => subst hb'; intro _; exact hb2
            · split
              · next hb' => subst hb'; intro _; exact hb1
              · exact hd b l

/-- create context with an old owner captured from an existing entity (child-store create over an
    existing parent): the old back-reference is replaced -/
theorem fkAfter_true_ok {s s' : State} {ents : Map Id EntA} {id : Id} {old e : EntA}
    (hbr : BR ents s.thg) (hd : ThgDom s) (hold : ents.lookup id = some old)
    (h : fkAfter true (old.owner.getD []) (e.owner.getD []) id s = .ok s') :
    BR (ents.insert id e) s'.thg ∧ ThgFrame s s' ∧ ThgDom s' ∧
    (e.owner.getD [] ≠ [] → (s.b.lookup (e.owner.getD [])).isSome = true) := by
  unfold fkAfter at h
  simp only [Bool.not_true, Bool.false_and, Bool.false_eq_true, if_false, ne_eq, bind, Except.bind, pure, Except.pure] at h
  by_cases ho : old.owner.getD [] = []
  · simp only [ho, not_true_eq_false, if_false] at h
    by_cases hn : e.owner.getD [] = []
    · simp only [hn, not_true_eq_false, if_false] at h
      cases h
      refine ⟨?_, rfl, hd, fun h => absurd hn h⟩
      intro b j
      have := hbr b j
      simp only [Map.lookup_insert]
      grind
    · simp only [hn, not_false_eq_true, if_true] at h
      obtain ⟨hb, rfl⟩ := backrefAdd_eq h
      refine ⟨?_, rfl, ?_, fun _ => hb⟩
      · intro b j
        have := hbr b j
        simp only [Map.lookup_insert]
        by_cases hbb : b = e.owner.getD []
        · subst hbb; simp only [if_true, Option.getD_some, mem_setInsert]; grind
        · simp only [hbb, if_false]; grind
      · intro b l; simp only [Map.lookup_insert]; split
        · next hb' => subst hb'; intro _; exact hb
        · exact hd b l
  · simp only [ho, not_false_eq_true, if_true] at h
    cases hdel : backrefDel s (old.owner.getD []) id with
    | error x => simp [hdel] at h
    | ok s1 =>
      simp only [hdel] at h
      obtain ⟨hb1, rfl⟩ := backrefDel_eq hdel
      by_cases hn : e.owner.getD [] = []
      · simp only [hn, not_true_eq_false, if_false] at h
        cases h
        refine ⟨?_, rfl, ?_, fun h => absurd hn h⟩
        · intro b j
          have := hbr b j
          simp only [Map.lookup_insert]
          by_cases hbb : b = old.owner.getD []
          · subst hbb; simp only [if_true, Option.getD_some, mem_setErase]; grind
          · simp only [hbb, if_false]; grind
        · intro b l; simp only [Map.lookup_insert]; split
          · next hb' => subst hb'; intro _; exact hb1
          · exact hd b l
      · simp only [hn, not_false_eq_true, if_true] at h
        obtain ⟨hb2, rfl⟩ := backrefAdd_eq h
        refine ⟨?_, rfl, ?_, fun _ => hb2⟩
        · intro b j
          have := hbr b j
          simp only [Map.lookup_insert]
          by_cases hbb : b = e.owner.getD [] <;> by_cases hbo : b = old.owner.getD []
          · subst hbb; simp only [if_true, Option.getD_some, mem_setInsert, ← hbo, mem_setErase]; grind
          · subst hbb; simp only [if_true, Option.getD_some, mem_setInsert, hbo, if_false]; grind
          · subst hbo; simp only [hbb, if_false, if_true, Option.getD_some, mem_setErase]; grind
          · simp only [hbb, hbo, if_false]; grind
        · intro b l; simp only [Map.lookup_insert]; split
          · next hb' => subst hb'; intro _; exact hb2
          · split
            · next hb' => subst hb'; intro _; exact hb1
            · exact hd b l

theorem fkAfter_create_ok {s s' : State} {ents : Map Id EntA} {id : Id} {e : EntA}
    (hbr : BR ents s.thg) (hd : ThgDom s) (hfresh : ents.lookup id = none)
    (h : fkAfter true [] (e.owner.getD []) id s = .ok s') :
    BR (ents.insert id e) s'.thg ∧ ThgFrame s s' ∧ ThgDom s' ∧
    (e.owner.getD [] ≠ [] → (s.b.lookup (e.owner.getD [])).isSome = true) := by
  unfold fkAfter at h
  simp only [Bool.not_true, Bool.false_and, Bool.false_eq_true, if_false, ne_eq, not_true_eq_false, bind, Except.bind,
    pure, Except.pure] at h
  by_cases hn : e.owner.getD [] = []
  · simp only [hn, not_true_eq_false, if_false] at h
    cases h
    refine ⟨?_, rfl, hd, fun h => absurd hn h⟩
    intro b j
    have := hbr b j
    simp only [Map.lookup_insert]
    grind
  · simp only [hn, not_false_eq_true, if_true] at h
    obtain ⟨hb, rfl⟩ := backrefAdd_eq h
    refine ⟨?_, rfl, ?_, fun _ => hb⟩
    · intro b j
      have := hbr b j
      simp only [Map.lookup_insert]
      by_cases hbb : b = e.owner.getD []
      · subst hbb; simp only [if_true, Option.getD_some, mem_setInsert]; grind
      · simp only [hbb, if_false]; grind
    · intro b l; simp only [Map.lookup_insert]; split
      · next hb' => subst hb'; intro _; exact hb
      · exact hd b l

theorem fkBeforeDelete_ok {s s' : State} {ents : Map Id EntA} {id : Id} {e : EntA}
    (hbr : BR ents s.thg) (hd : ThgDom s) (hold : ents.lookup id = some e)
    (h : fkBeforeDelete (e.owner.getD []) id s = .ok s') :
    BR (ents.erase id) s'.thg ∧ ThgFrame s s' ∧ ThgDom s' := by
  unfold fkBeforeDelete at h
  by_cases hn : e.owner.getD [] = []
  · simp only [hn, ne_eq, not_true_eq_false, if_false, pure, Except.pure] at h
    cases h
    refine ⟨?_, rfl, hd⟩
    intro b j
    have := hbr b j
    simp only [Map.lookup_erase]
    grind
  · simp only [ne_eq, hn, not_false_eq_true, if_true] at h
    obtain ⟨hb, rfl⟩ := backrefDel_eq h
    refine ⟨?_, rfl, ?_⟩
    · intro b j
      have := hbr b j
      simp only [Map.lookup_insert, Map.lookup_erase]
      by_cases hbb : b = e.owner.getD []
      · subst hbb; simp only [if_true, Option.getD_some, mem_setErase]; grind
      · simp only [hbb, if_false]; grind
    · intro b l; simp only [Map.lookup_insert]; split
      · next hb' => subst hb'; intro _; exact hb
      · exact hd b l


theorem UI_insert_fresh_empty {E : Type} {f : E → Bytes} {ents : Map Id E} {idx : Map Bytes Id} {id : Id} {e : E}
    (h : UI f ents idx) (hf : ents.lookup id = none) (he : f e = []) : UI f (ents.insert id e) idx := by
  intro v i
  have := h v i
  simp only [Map.lookup_insert]
  grind

theorem UI_insert_same {E : Type} {f : E → Bytes} {ents : Map Id E} {idx : Map Bytes Id} {id : Id} {old e : E}
    (h : UI f ents idx) (hf : ents.lookup id = some old) (he : f e = f old) : UI f (ents.insert id e) idx := by
  intro v i
  have := h v i
  have := h v id
  simp only [Map.lookup_insert]
  grind


/-- `fkConstraint.ProcessAfterUpdate`: the state is untouched; a new non-empty target exists -/
theorem depAfter_ok {isCreate : Bool} {old new : Bytes} {s s' : State} (h : depAfter isCreate old new s = .ok s') :
    s' = s ∧ (new ≠ [] → (isCreate = false ∧ old = new) ∨ s.bEx new = true) := by
  unfold depAfter at h
  split at h
  · next hc =>
    cases h
    refine ⟨rfl, fun _ => Or.inl ?_⟩
    simp only [Bool.and_eq_true, Bool.not_eq_true', beq_iff_eq] at hc
    exact hc
  · split at h
    · split at h
      · next hb => cases h; exact ⟨rfl, fun _ => Or.inr hb⟩
      · cases h
    · next hn => cases h; exact ⟨rfl, fun h => absurd h hn⟩

theorem afterUpdateA_ok {isCreate : Bool} {cap : Captured} {s s' : State} {id : Id}
    (h : afterUpdateA isCreate cap s id = .ok s') :
    ∃ un ua sr,
      uniqueAfter isCreate false cap.name (evName (s.a.lookup id)) id s.uName = .ok un ∧
      uniqueAfter isCreate true cap.alias (evAlias (s.a.lookup id)) id s.uAlias = .ok ua ∧
      setAfter cap.roles (evRoles (s.a.lookup id)) id s.sRoles = .ok sr ∧
      fkAfter isCreate cap.owner (evOwner (s.a.lookup id)) id { s with uName := un, uAlias := ua, sRoles := sr } = .ok s' ∧
      (evDep (s.a.lookup id) ≠ [] →
        (isCreate = false ∧ cap.dep = evDep (s.a.lookup id)) ∨ s'.bEx (evDep (s.a.lookup id)) = true) := by
  simp only [afterUpdateA, bind, Except.bind] at h
  cases hun : uniqueAfter isCreate false cap.name (evName (s.a.lookup id)) id s.uName with
  | error x => simp [hun] at h
  | ok un =>
    simp only [hun] at h
    cases hua : uniqueAfter isCreate true cap.alias (evAlias (s.a.lookup id)) id s.uAlias with
    | error x => simp [hua] at h
    | ok ua =>
      simp only [hua] at h
      cases hsr : setAfter cap.roles (evRoles (s.a.lookup id)) id s.sRoles with
      | error x => simp [hsr] at h
      | ok sr =>
        simp only [hsr] at h
        cases hfk : fkAfter isCreate cap.owner (evOwner (s.a.lookup id)) id { s with uName := un, uAlias := ua, sRoles := sr } with
        | error x => simp [hfk] at h
        | ok s1 =>
          simp only [hfk] at h
          obtain ⟨rfl, hd⟩ := depAfter_ok h
          exact ⟨un, ua, sr, rfl, rfl, rfl, hfk, hd⟩

theorem beforeDeleteA_ok {s s' : State} {id : Id} (h : beforeDeleteA s id = .ok s') :
    ∃ sr, setBeforeDelete (evRoles (s.a.lookup id)) id s.sRoles = .ok sr ∧
      fkBeforeDelete (evOwner (s.a.lookup id)) id
        { s with uName := uniqueBeforeDelete (evName (s.a.lookup id)) s.uName,
                 uAlias := uniqueBeforeDelete (evAlias (s.a.lookup id)) s.uAlias, sRoles := sr } = .ok s' := by
  simp only [beforeDeleteA, bind, Except.bind] at h
  cases hsr : setBeforeDelete (evRoles (s.a.lookup id)) id s.sRoles with
  | error x => simp [hsr] at h
  | ok sr =>
    simp only [hsr] at h
    exact ⟨sr, rfl, h⟩

theorem ThgFrame.fields {s s' : State} (h : ThgFrame s s') :
    s'.hasA = s.hasA ∧ s'.hasB = s.hasB ∧ s'.a = s.a ∧ s'.b = s.b ∧ s'.g = s.g ∧ s'.p = s.p ∧ s'.rc = s.rc ∧
    s'.uName = s.uName ∧ s'.uAlias = s.uAlias ∧ s'.uCode = s.uCode ∧ s'.uLabel = s.uLabel ∧ s'.sRoles = s.sRoles := by
  unfold ThgFrame at h; rw [h]; simp

theorem uniqueBeforeDelete_absent {E : Type} {f : E → Bytes} {ents : Map Id E} {idx : Map Bytes Id} {v : Bytes}
    (h : UI f ents idx) (hv : v = [] ∨ ∀ i e, ents.lookup i = some e → f e ≠ v) :
    UI f ents (uniqueBeforeDelete v idx) := by
  unfold uniqueBeforeDelete
  split
  · next hne =>
    rcases hv with hv | hv
    · exact absurd hv hne
    · intro w i
      have := h w i
      simp only [Map.lookup_erase]
      split
      · next hw =>
        subst hw
        constructor
        · intro h; cases h
        · rintro ⟨_, e, he, hf⟩; exact absurd hf (hv i e he)
      · exact this
  · exact h

theorem setBeforeDelete_absent {E : Type} {r : E → List Bytes} {ents : Map Id E} {idx idx' : Map Bytes (List Id)} {id : Id}
    {vals : List Bytes} (hsi : SI r ents idx) (hnek : NEK idx) (hno : ents.lookup id = none)
    (h : setBeforeDelete vals id idx = .ok idx') : SI r ents idx' ∧ NEK idx' := by
  unfold setBeforeDelete at h
  split at h
  · cases h
  · cases h
    refine ⟨?_, C03.nek_foldl_del _ _ _ hnek⟩
    intro v i
    have := hsi v i
    have h2 := hsi v id
    simp only [C03.mem_foldl_del]
    constructor
    · intro ⟨h1, _⟩; exact this.1 h1
    · intro h1
      refine ⟨this.2 h1, ?_⟩
      rintro ⟨rfl, _⟩
      obtain ⟨e, he, _⟩ := h1
      rw [hno] at he; cases he

theorem fkBeforeDelete_absent {s s' : State} {ents : Map Id EntA} {id : Id} {v : Bytes}
    (hbr : BR ents s.thg) (hd : ThgDom s) (hno : ents.lookup id = none)
    (h : fkBeforeDelete v id s = .ok s') : BR ents s'.thg ∧ ThgFrame s s' ∧ ThgDom s' := by
  unfold fkBeforeDelete at h
  by_cases hn : v = []
  · simp only [hn, ne_eq, not_true_eq_false, if_false, pure, Except.pure] at h
    cases h; exact ⟨hbr, rfl, hd⟩
  · simp only [ne_eq, hn, not_false_eq_true, if_true] at h
    obtain ⟨hb, rfl⟩ := backrefDel_eq h
    refine ⟨?_, rfl, ?_⟩
    · intro b j
      have := hbr b j
      have h2 := hbr b id
      simp only [Map.lookup_insert]
      by_cases hbb : b = v
      · subst hbb; simp only [if_true, Option.getD_some, mem_setErase]
        constructor
        · intro ⟨_, h1⟩; exact this.1 h1
        · intro h1
          refine ⟨?_, this.2 h1⟩
          rintro rfl
          obtain ⟨_, e, he, _⟩ := h1
          rw [hno] at he; cases he
      · simp only [hbb, if_false]; exact this
    · intro b l; simp only [Map.lookup_insert]; split
      · next hb' => subst hb'; intro _; exact hb
      · exact hd b l

/-- the index part of the invariant, relative to an entity table -/
structure IdxInv (ents : Map Id EntA) (s : State) : Prop where
  uName : UI (·.name) ents s.uName
  uAlias : UI (fun e => e.alias.getD []) ents s.uAlias
  sRoles : SI (·.roles) ents s.sRoles
  nek : NEK s.sRoles
  br : BR ents s.thg
  thgDom : ThgDom s

/-- `beforeDeleteA` touches the three A indexes and the back-reference buckets only -/
def BDFrame (s s' : State) : Prop :=
  s' = { s with uName := s'.uName, uAlias := s'.uAlias, sRoles := s'.sRoles, thg := s'.thg }

theorem beforeDeleteA_first {s s' : State} {id : Id} {e : EntA} (hi : IdxInv s.a s) (hold : s.a.lookup id = some e)
    (h : beforeDeleteA s id = .ok s') : IdxInv (s.a.erase id) s' ∧ BDFrame s s' := by
  obtain ⟨sr, hsr, hfk⟩ := beforeDeleteA_ok h
  simp only [hold, evName, evAlias, evRoles, evOwner] at hsr hfk
  have hsr' := C03.setBeforeDelete_ok (r := (·.roles)) hi.sRoles hi.nek hold hsr
  obtain ⟨k1, k2, k3⟩ := fkBeforeDelete_ok (ents := s.a) (s := ({ s with uName := uniqueBeforeDelete (e.name) (s.uName), uAlias := uniqueBeforeDelete (e.alias.getD []) (s.uAlias), sRoles := sr } : State)) hi.br hi.thgDom hold hfk
  unfold ThgFrame at k2
  refine ⟨⟨?_, ?_, ?_, ?_, k1, k3⟩, ?_⟩
  · rw [k2]; exact C03.uniqueBeforeDelete_ok (f := (·.name)) hi.uName hold
  · rw [k2]; exact C03.uniqueBeforeDelete_ok (f := fun e => e.alias.getD []) hi.uAlias hold
  · rw [k2]; exact hsr'.1
  · rw [k2]; exact hsr'.2
  · unfold BDFrame; rw [k2]

theorem beforeDeleteA_again {s s' : State} {ents : Map Id EntA} {id : Id} {e : EntA} (hi : IdxInv ents s)
    (hno : ents.lookup id = none) (hold : s.a.lookup id = some e)
    (hn : e.name = [] ∨ ∀ i e', ents.lookup i = some e' → e'.name ≠ e.name)
    (ha : e.alias.getD [] = [] ∨ ∀ i e', ents.lookup i = some e' → e'.alias.getD [] ≠ e.alias.getD [])
    (h : beforeDeleteA s id = .ok s') : IdxInv ents s' ∧ BDFrame s s' := by
  obtain ⟨sr, hsr, hfk⟩ := beforeDeleteA_ok h
  simp only [hold, evName, evAlias, evRoles, evOwner] at hsr hfk
  have hsr' := setBeforeDelete_absent (r := (·.roles)) hi.sRoles hi.nek hno hsr
  obtain ⟨k1, k2, k3⟩ := fkBeforeDelete_absent (ents := ents) (s := ({ s with uName := uniqueBeforeDelete (e.name) (s.uName), uAlias := uniqueBeforeDelete (e.alias.getD []) (s.uAlias), sRoles := sr } : State)) hi.br hi.thgDom hno hfk
  unfold ThgFrame at k2
  refine ⟨⟨?_, ?_, ?_, ?_, k1, k3⟩, ?_⟩
  · rw [k2]; exact uniqueBeforeDelete_absent (f := fun (e : EntA) => e.name) hi.uName hn
  · rw [k2]; exact uniqueBeforeDelete_absent (f := fun (e : EntA) => e.alias.getD []) hi.uAlias ha
  · rw [k2]; exact hsr'.1
  · rw [k2]; exact hsr'.2
  · unfold BDFrame; rw [k2]

/-- one step of `cleanupLinksA` -/
theorem other_names_differ {E : Type} {f : E → Bytes} {ents : Map Id E} {idx : Map Bytes Id} {id : Id} {e : E}
    (h : UI f ents idx) (hold : ents.lookup id = some e) :
    f e = [] ∨ ∀ i e', (ents.erase id).lookup i = some e' → f e' ≠ f e := by
  by_cases hz : f e = []
  · exact Or.inl hz
  · right
    intro i e' hi' heq
    simp only [Map.lookup_erase] at hi'
    split at hi'
    · cases hi'
    · next hne =>
      have h1 := (h (f e) i).2 ⟨hz, e', hi', heq⟩
      have h2 := (h (f e) id).2 ⟨hz, e, hold, rfl⟩
      rw [h1] at h2; cases h2; exact hne rfl

/-- what `deleteA` computes, stage by stage -/

theorem BDFrame.fields {s s' : State} (h : BDFrame s s') :
    s'.hasA = s.hasA ∧ s'.hasB = s.hasB ∧ s'.a = s.a ∧ s'.b = s.b ∧ s'.g = s.g ∧ s'.p = s.p ∧ s'.rc = s.rc ∧
    s'.uCode = s.uCode ∧ s'.uLabel = s.uLabel := by
  unfold BDFrame at h; rw [h]; simp


/-! ### the invariant -/

/-- everything except the unique index of store B (which a cascading delete of B suspends) -/
structure InvCore (s : State) : Prop where
  uName : UI (·.name) s.a s.uName
  uAlias : UI (fun e => e.alias.getD []) s.a s.uAlias
  uCode : UI (fun e => e.code.getD []) s.a s.uCode
  sRoles : SI (·.roles) s.a s.sRoles
  nek : NEK s.sRoles
  br : BR s.a s.thg
  thgDom : ThgDom s
  ownerExists : ∀ j e, s.a.lookup j = some e → e.owner.getD [] ≠ [] → s.bEx (e.owner.getD []) = true
  depExists : ∀ j e, s.a.lookup j = some e → e.dep.getD [] ≠ [] → s.bEx (e.dep.getD []) = true
  g : LinkInv s.g s.aEx s.bEx
  p : LinkInv s.p s.cEx s.bEx
  rc : RcInv s.rc s.aEx s.bEx
  namesNonEmpty : ∀ j e, s.a.lookup j = some e → e.name ≠ []
  rolesNonEmpty : ∀ j e, s.a.lookup j = some e → [] ∉ e.roles
  codeNonEmpty : ∀ j e c, s.a.lookup j = some e → e.code = some c → c ≠ []
  idA : s.a.lookup [] = none
  idB : s.b.lookup [] = none
  hasA : ∀ j e, s.a.lookup j = some e → s.hasA = true
  hasB : ∀ j e, s.b.lookup j = some e → s.hasB = true

structure Inv (s : State) : Prop extends InvCore s where
  uLabel : UI (fun (e : EntB) => e.label.getD []) s.b s.uLabel

theorem inv_empty : Inv State.empty := by
  refine ⟨⟨?_, ?_, ?_, ?_, ?_, ?_, ?_, ?_, ?_, LinkInv.empty _ _, LinkInv.empty _ _, RcInv.empty _ _, ?_, ?_, ?_, ?_, ?_, ?_, ?_⟩, ?_⟩ <;>
    simp [State.empty, UI, SI, NEK, BR, ThgDom]

theorem aEx_congr {s s' : State} (h : s'.a = s.a) : s'.aEx = s.aEx := by funext j; simp [State.aEx, h]
theorem bEx_congr {s s' : State} (h : s'.b = s.b) : s'.bEx = s.bEx := by funext j; simp [State.bEx, h]
theorem cEx_congr {s s' : State} (h : s'.a = s.a) : s'.cEx = s.cEx := by funext j; simp [State.cEx, h]

theorem setGroups_ok {s s' : State} {id : Id} {req : List Id} (h : setGroups s id req = .ok s') :
    ∃ g', s.g.setLinks s.bEx id req = .ok g' ∧ s' = { s with g := g' } := by
  simp only [setGroups, bind, Except.bind, pure, Except.pure] at h
  split at h
  · cases h
  · next g' hg => cases h; exact ⟨g', hg, rfl⟩

theorem setPals_ok {s s' : State} {id : Id} {req : List Id} (h : setPals s id req = .ok s') :
    ∃ p', s.p.setLinks s.bEx id req = .ok p' ∧ s' = { s with p := p' } := by
  simp only [setPals, bind, Except.bind, pure, Except.pure] at h
  split at h
  · cases h
  · next p' hp => cases h; exact ⟨p', hp, rfl⟩

/-- assembling the core invariant after an operation that stored entity `e` under `id` in store A -/
theorem core_assemble {s s' : State} {id : Id} {e : EntA} (hi : InvCore s)
    (ha : s'.a = s.a.insert id e) (hb : s'.b = s.b) (hhasB : s'.hasB = s.hasB) (hhasA : s'.hasA = true)
    (huN : UI (·.name) s'.a s'.uName) (huA : UI (fun e => e.alias.getD []) s'.a s'.uAlias)
    (huC : UI (fun e => e.code.getD []) s'.a s'.uCode) (hsr : SI (·.roles) s'.a s'.sRoles) (hnek : NEK s'.sRoles)
    (hbr : BR s'.a s'.thg) (hthg : ThgDom s')
    (hown : e.owner.getD [] ≠ [] → s.bEx (e.owner.getD []) = true)
    (hdep : e.dep.getD [] ≠ [] → s.bEx (e.dep.getD []) = true)
    (hg : LinkInv s'.g s'.aEx s'.bEx) (hp : LinkInv s'.p s'.cEx s'.bEx) (hrc : RcInv s'.rc s'.aEx s'.bEx)
    (hne : e.name ≠ []) (hre : [] ∉ e.roles) (hce : ∀ c, e.code = some c → c ≠ []) (hid : id ≠ []) : InvCore s' := by
  have hbe : s'.bEx = s.bEx := bEx_congr hb
  refine ⟨huN, huA, huC, hsr, hnek, hbr, hthg, ?_, ?_, hg, hp, hrc, ?_, ?_, ?_, ?_,
    by rw [hb]; exact hi.idB, fun _ _ _ => hhasA, ?_⟩
  · intro j e'; rw [ha, hbe]; simp only [Map.lookup_insert]; split
    · intro h; cases h; exact hown
    · exact hi.ownerExists j e'
  · intro j e'; rw [ha, hbe]; simp only [Map.lookup_insert]; split
    · intro h; cases h; exact hdep
    · exact hi.depExists j e'
  · intro j e'; rw [ha]; simp only [Map.lookup_insert]; split
    · intro h; cases h; exact hne
    · exact hi.namesNonEmpty j e'
  · intro j e'; rw [ha]; simp only [Map.lookup_insert]; split
    · intro h; cases h; exact hre
    · exact hi.rolesNonEmpty j e'
  · intro j e' c; rw [ha]; simp only [Map.lookup_insert]; split
    · intro h; cases h; exact hce c
    · exact hi.codeNonEmpty j e' c
  · rw [ha]; simp only [Map.lookup_insert]
    have : ¬ ([] : Id) = id := fun h => hid h.symm
    simp [this, hi.idA]
  · intro j e'; rw [hb, hhasB]; exact hi.hasB j e'

/-- existence predicates after inserting an A entity -/
theorem aEx_insert_mono {s : State} {id : Id} {e : EntA} {s' : State} (ha : s'.a = s.a.insert id e) :
    ∀ j, s.aEx j = true → s'.aEx j = true := by
  intro j hj; simp only [State.aEx, ha, Map.lookup_insert]; split
  · simp
  · exact hj

theorem aEx_insert_self {s : State} {id : Id} {e : EntA} {s' : State} (ha : s'.a = s.a.insert id e) :
    s'.aEx id = true := by simp [State.aEx, ha]

/-- child data only appears or stays: valid when the stored entity keeps or gains `code` -/
theorem cEx_insert_mono {s : State} {id : Id} {e : EntA} {s' : State} (ha : s'.a = s.a.insert id e)
    (hc : s.cEx id = true → e.code.isSome = true) : ∀ j, s.cEx j = true → s'.cEx j = true := by
  intro j hj; simp only [State.cEx, ha, Map.lookup_insert]; split
  · next h => subst h; simpa using hc hj
  · exact hj



theorem inv_createA {s s' : State} {id : Id} {v : ValsA} (hi : Inv s) (h : createA s id v = .ok s') : Inv s' := by
  unfold createA at h
  split at h
  · cases h
  · next hid =>
    split at h
    · cases h
    · next hex =>
      have hfresh : s.a.lookup id = none := by simpa using hex
      simp only [bind, Except.bind] at h
      split at h
      · cases h
      · next s2 hsl =>
        obtain ⟨g', hg', rfl⟩ := setGroups_ok hsl
        have hg1 : LinkInv s.g ({ s with hasA := true, a := s.a.insert id ⟨v.name, v.alias, setOf v.roles, v.owner, v.dep, none⟩ } : State).aEx s.bEx :=
          hi.g.mono (aEx_insert_mono rfl) (fun _ h => h)
        have hg2 := LinkPair.setLinks_pres hg1 (aEx_insert_self rfl) hg'
        obtain ⟨un, ua, sr, hun, hua, hsr, hfk, hdep⟩ := afterUpdateA_ok h
        simp only [Map.lookup_insert, if_true, evName, evAlias, evRoles, evOwner, evDep, Captured.none] at hun hua hsr hfk hdep
        obtain ⟨k1, k2, k3, k4⟩ := fkAfter_create_ok (e := ⟨v.name, v.alias, setOf v.roles, v.owner, v.dep, none⟩)
          (ents := s.a) (by exact hi.br) (by exact hi.thgDom) hfresh hfk
        obtain ⟨g1, g2, g3, g4, g5, g6, g7, g8, g9, g10, g11, g12⟩ := k2.fields
        simp only at g1 g2 g3 g4 g5 g6 g7 g8 g9 g10 g11 g12
        have hsr' := C03.setAfter_ok (r := (·.roles)) (e := (⟨v.name, v.alias, setOf v.roles, v.owner, v.dep, none⟩ : EntA))
          hi.sRoles hi.nek (oldRoles := []) (id := id) (by intro x; simp [hfresh]) hsr
        have hae : s'.aEx = ({ s with hasA := true, a := s.a.insert id ⟨v.name, v.alias, setOf v.roles, v.owner, v.dep, none⟩ } : State).aEx :=
          aEx_congr g3
        have hbe : s'.bEx = s.bEx := bEx_congr g4
        refine ⟨core_assemble (e := ⟨v.name, v.alias, setOf v.roles, v.owner, v.dep, none⟩) hi.toInvCore g3 g4 g2 g1
          ?_ ?_ ?_ ?_ ?_ ?_ k3 ?_ ?_ ?_ ?_ ?_ ?_ ?_ ?_ hid, ?_⟩
        · rw [g3, g8]; exact C03.uniqueAfter_create_ok hi.uName hfresh hun
        · rw [g3, g9]; exact C03.uniqueAfter_create_ok hi.uAlias hfresh hua
        · rw [g3, g10]; exact UI_insert_fresh_empty hi.uCode hfresh rfl
        · rw [g3, g12]; exact hsr'.1
        · rw [g12]; exact hsr'.2
        · rw [g3]; exact k1
        · exact k4
        · intro hne
          rcases hdep hne with ⟨hc, _⟩ | hb
          · cases hc
          · rw [hbe] at hb; exact hb
        · rw [g5, hae, hbe]; exact hg2
        · rw [g6, hbe]
          exact hi.p.mono (cEx_insert_mono g3 (by simp [State.cEx, hfresh])) (fun _ h => h)
        · rw [g7, hbe]
          exact hi.rc.mono (aEx_insert_mono g3) (fun _ h => h)
        · exact C03.uniqueAfter_create_nonempty hun rfl
        · exact C03.setAfter_ok_nonempty hsr (by simp)
        · intro c hc; cases hc
        · rw [g4, g11]; exact hi.uLabel



theorem inv_updateA {s s' : State} {id : Id} {v : ValsA} {chk : Option ChkA} (hi : Inv s)
    (h : updateA s id v chk = .ok s') : Inv s' := by
  unfold updateA at h
  split at h
  · cases h
  · next hid =>
    split at h
    · cases h
    · next old hold =>
      simp only [bind, Except.bind] at h
      have hg1 : LinkInv s.g ({ s with a := s.a.insert id (persistFields old v chk) } : State).aEx s.bEx :=
        hi.g.mono (aEx_insert_mono rfl) (fun _ h => h)
      -- the link step, performed or not
      have hlink : ∃ g', LinkInv g' ({ s with a := s.a.insert id (persistFields old v chk) } : State).aEx s.bEx ∧
          afterUpdateA false (captureA s id) ({ s with a := s.a.insert id (persistFields old v chk), g := g' } : State) id = .ok s' := by
        by_cases hp : proceed chk (fun c => c.groups) = true
        · simp only [hp, if_true] at h
          split at h
          · cases h
          · next s2 hs2 =>
            obtain ⟨g', hg', rfl⟩ := setGroups_ok hs2
            exact ⟨g', LinkPair.setLinks_pres hg1 (aEx_insert_self rfl) hg', h⟩
        · simp only [hp, Bool.false_eq_true, if_false, pure, Except.pure] at h
          exact ⟨s.g, hg1, h⟩
      obtain ⟨g', hg2, h⟩ := hlink
      obtain ⟨un, ua, sr, hun, hua, hsr, hfk, hdep⟩ := afterUpdateA_ok h
      simp only [Map.lookup_insert, if_true, captureA, hold, evName, evAlias, evRoles, evOwner, evDep] at hun hua hsr hfk hdep
      obtain ⟨k1, k2, k3, k4⟩ := fkAfter_update_ok (e := persistFields old v chk) (ents := s.a) (by exact hi.br)
        (by exact hi.thgDom) hold (by exact hi.ownerExists id old hold) hfk
      obtain ⟨g1, g2, g3, g4, g5, g6, g7, g8, g9, g10, g11, g12⟩ := k2.fields
      simp only at g1 g2 g3 g4 g5 g6 g7 g8 g9 g10 g11 g12
      have hsr' := C03.setAfter_ok (r := (·.roles)) (e := persistFields old v chk)
        hi.sRoles hi.nek (oldRoles := old.roles) (id := id) (by intro x; simp [hold]) hsr
      have hae : s'.aEx = ({ s with a := s.a.insert id (persistFields old v chk) } : State).aEx := aEx_congr g3
      have hbe : s'.bEx = s.bEx := bEx_congr g4
      refine ⟨core_assemble (e := persistFields old v chk) hi.toInvCore g3 g4 g2 (by rw [g1]; exact hi.hasA id old hold)
        ?_ ?_ ?_ ?_ ?_ ?_ k3 ?_ ?_ ?_ ?_ ?_ ?_ ?_ ?_ hid, ?_⟩
      · rw [g3, g8]; exact C03.uniqueAfter_update_ok (f := fun (e : EntA) => e.name) hi.uName hold hun
      · rw [g3, g9]; exact C03.uniqueAfter_update_ok (f := fun (e : EntA) => e.alias.getD []) hi.uAlias hold hua
      · rw [g3, g10]; exact UI_insert_same hi.uCode hold rfl
      · rw [g3, g12]; exact hsr'.1
      · rw [g12]; exact hsr'.2
      · rw [g3]; exact k1
      · exact k4
      · intro hne
        rcases hdep hne with ⟨_, hc⟩ | hb
        · have := hi.depExists id old hold (by rw [hc]; exact hne)
          rw [hc] at this; exact this
        · rw [hbe] at hb; exact hb
      · rw [g5, hae, hbe]; exact hg2
      · rw [g6, hbe]
        exact hi.p.mono (cEx_insert_mono g3 (by simp [State.cEx, hold, persistFields])) (fun _ h => h)
      · rw [g7, hbe]
        exact hi.rc.mono (aEx_insert_mono g3) (fun _ h => h)
      · exact C03.uniqueAfter_update_nonempty hun (hi.namesNonEmpty id old hold)
      · exact C03.setAfter_ok_nonempty hsr (hi.rolesNonEmpty id old hold)
      · intro c hc; exact hi.codeNonEmpty id old c hold hc
      · rw [g4, g11]; exact hi.uLabel



/-- `A1.Create`, on an id that does not exist at all or over an existing plain parent (whose
    indexed values are captured and replaced since fix 8269ce9) -/
theorem inv_createA1 {s s' : State} {id : Id} {v : ValsA} {code : Bytes} {pals : List Id} (hi : Inv s)
    (h : createA1 s id v code pals = .ok s') : Inv s' := by
  unfold createA1 at h
  split at h
  · cases h
  · next hid =>
    split at h
    · cases h
    · next hnc =>
      simp only [bind, Except.bind] at h
      split at h
      · cases h
      · next s2 hsl =>
        obtain ⟨g', hg', rfl⟩ := setGroups_ok hsl
        split at h
        · cases h
        · next s2' hsp =>
          obtain ⟨p', hp', rfl⟩ := setPals_ok hsp
          have hg1 : LinkInv s.g ({ s with hasA := true, a := s.a.insert id ⟨v.name, v.alias, setOf v.roles, v.owner, v.dep, some code⟩ } : State).aEx s.bEx :=
            hi.g.mono (aEx_insert_mono rfl) (fun _ h => h)
          have hg2 := LinkPair.setLinks_pres hg1 (aEx_insert_self rfl) hg'
          have hp1 : LinkInv s.p ({ s with hasA := true, a := s.a.insert id ⟨v.name, v.alias, setOf v.roles, v.owner, v.dep, some code⟩ } : State).cEx s.bEx :=
            hi.p.mono (cEx_insert_mono rfl (fun _ => rfl)) (fun _ h => h)
          have hp2 := LinkPair.setLinks_pres hp1 (by simp [State.cEx]) hp'
          split at h
          · cases h
          · next s3 hs3 =>
            split at h
            · cases h
            · next uc huc =>
              simp only [pure, Except.pure] at h
              cases h
              obtain ⟨un, ua, sr, hun, hua, hsr, hfk, hdep⟩ := afterUpdateA_ok hs3
              simp only [Map.lookup_insert, if_true, evName, evAlias, evRoles, evOwner, evDep] at hun hua hsr hfk hdep
              cases hold : s.a.lookup id with
              | none =>
                simp only [hold, Option.isSome_none, Bool.false_eq_true, if_false, Captured.none] at hun hua hsr hfk hdep
                obtain ⟨k1, k2, k3, k4⟩ := fkAfter_create_ok (e := ⟨v.name, v.alias, setOf v.roles, v.owner, v.dep, some code⟩)
                  (ents := s.a) (by exact hi.br) (by exact hi.thgDom) hold hfk
                obtain ⟨g1, g2, g3, g4, g5, g6, g7, g8, g9, g10, g11, g12⟩ := k2.fields
                simp only at g1 g2 g3 g4 g5 g6 g7 g8 g9 g10 g11 g12
                rw [g10] at huc
                have hsr' := C03.setAfter_ok (r := (·.roles)) (e := (⟨v.name, v.alias, setOf v.roles, v.owner, v.dep, some code⟩ : EntA))
                  hi.sRoles hi.nek (oldRoles := []) (id := id) (by intro x; simp [hold]) hsr
                have hae : s3.aEx = ({ s with hasA := true, a := s.a.insert id ⟨v.name, v.alias, setOf v.roles, v.owner, v.dep, some code⟩ } : State).aEx :=
                  aEx_congr g3
                have hce : s3.cEx = ({ s with hasA := true, a := s.a.insert id ⟨v.name, v.alias, setOf v.roles, v.owner, v.dep, some code⟩ } : State).cEx :=
                  cEx_congr g3
                have hbe : s3.bEx = s.bEx := bEx_congr g4
                refine ⟨core_assemble (s' := { s3 with uCode := uc }) (e := ⟨v.name, v.alias, setOf v.roles, v.owner, v.dep, some code⟩)
                  hi.toInvCore g3 g4 g2 g1 ?_ ?_ ?_ ?_ ?_ ?_ k3 ?_ ?_ ?_ ?_ ?_ ?_ ?_ ?_ hid, ?_⟩
                · show UI _ s3.a s3.uName; rw [g3, g8]; exact C03.uniqueAfter_create_ok hi.uName hold hun
                · show UI _ s3.a s3.uAlias; rw [g3, g9]; exact C03.uniqueAfter_create_ok hi.uAlias hold hua
                · show UI _ s3.a uc; rw [g3]
                  exact C03.uniqueAfter_create_ok (f := fun (e : EntA) => e.code.getD [])
                    (e := (⟨v.name, v.alias, setOf v.roles, v.owner, v.dep, some code⟩ : EntA)) hi.uCode hold huc
                · show SI _ s3.a s3.sRoles; rw [g3, g12]; exact hsr'.1
                · show NEK s3.sRoles; rw [g12]; exact hsr'.2
                · show BR s3.a s3.thg; rw [g3]; exact k1
                · exact k4
                · intro hne
                  rcases hdep hne with ⟨hc, _⟩ | hb
                  · cases hc
                  · rw [hbe] at hb; exact hb
                · show LinkInv s3.g s3.aEx s3.bEx; rw [g5, hae, hbe]; exact hg2
                · show LinkInv s3.p s3.cEx s3.bEx; rw [g6, hce, hbe]; exact hp2
                · show RcInv s3.rc s3.aEx s3.bEx; rw [g7, hbe]
                  exact hi.rc.mono (aEx_insert_mono g3) (fun _ h => h)
                · exact C03.uniqueAfter_create_nonempty hun rfl
                · exact C03.setAfter_ok_nonempty hsr (by simp)
                · intro c hc; cases hc; exact C03.uniqueAfter_create_nonempty huc rfl
                · show UI _ s3.b s3.uLabel; rw [g4, g11]; exact hi.uLabel
              | some old =>
                have hcode : old.code = none := by
                  cases hc : old.code with
                  | none => rfl
                  | some c => simp [State.cEx, hold, hc] at hnc
                simp only [hold, Option.isSome_some, if_true, captureA, evName, evAlias, evRoles, evOwner, evDep] at hun hua hsr hfk hdep
                obtain ⟨k1, k2, k3, k4⟩ := fkAfter_true_ok (e := ⟨v.name, v.alias, setOf v.roles, v.owner, v.dep, some code⟩)
                  (ents := s.a) (by exact hi.br) (by exact hi.thgDom) hold hfk
                obtain ⟨g1, g2, g3, g4, g5, g6, g7, g8, g9, g10, g11, g12⟩ := k2.fields
                simp only at g1 g2 g3 g4 g5 g6 g7 g8 g9 g10 g11 g12
                rw [g10] at huc
                have huc' : uniqueAfter true false ((fun (e : EntA) => e.code.getD []) old)
                    ((fun (e : EntA) => e.code.getD []) ⟨v.name, v.alias, setOf v.roles, v.owner, v.dep, some code⟩) id s.uCode = .ok uc := by
                  simpa [hcode] using huc
                have hsr' := C03.setAfter_ok (r := (·.roles)) (e := (⟨v.name, v.alias, setOf v.roles, v.owner, v.dep, some code⟩ : EntA))
                  hi.sRoles hi.nek (oldRoles := old.roles) (id := id) (by intro x; simp [hold]) hsr
                have hae : s3.aEx = ({ s with hasA := true, a := s.a.insert id ⟨v.name, v.alias, setOf v.roles, v.owner, v.dep, some code⟩ } : State).aEx :=
                  aEx_congr g3
                have hce : s3.cEx = ({ s with hasA := true, a := s.a.insert id ⟨v.name, v.alias, setOf v.roles, v.owner, v.dep, some code⟩ } : State).cEx :=
                  cEx_congr g3
                have hbe : s3.bEx = s.bEx := bEx_congr g4
                refine ⟨core_assemble (s' := { s3 with uCode := uc }) (e := ⟨v.name, v.alias, setOf v.roles, v.owner, v.dep, some code⟩)
                  hi.toInvCore g3 g4 g2 g1 ?_ ?_ ?_ ?_ ?_ ?_ k3 ?_ ?_ ?_ ?_ ?_ ?_ ?_ ?_ hid, ?_⟩
                · show UI _ s3.a s3.uName; rw [g3, g8]
                  exact C03.uniqueAfter_true_ok (f := fun (e : EntA) => e.name) hi.uName hold hun
                · show UI _ s3.a s3.uAlias; rw [g3, g9]
                  exact C03.uniqueAfter_true_ok (f := fun (e : EntA) => e.alias.getD []) hi.uAlias hold hua
                · show UI _ s3.a uc; rw [g3]
                  exact C03.uniqueAfter_true_ok (f := fun (e : EntA) => e.code.getD []) hi.uCode hold huc'
                · show SI _ s3.a s3.sRoles; rw [g3, g12]; exact hsr'.1
                · show NEK s3.sRoles; rw [g12]; exact hsr'.2
                · show BR s3.a s3.thg; rw [g3]; exact k1
                · exact k4
                · intro hne
                  rcases hdep hne with ⟨hc, _⟩ | hb
                  · cases hc
                  · rw [hbe] at hb; exact hb
                · show LinkInv s3.g s3.aEx s3.bEx; rw [g5, hae, hbe]; exact hg2
                · show LinkInv s3.p s3.cEx s3.bEx; rw [g6, hce, hbe]; exact hp2
                · show RcInv s3.rc s3.aEx s3.bEx; rw [g7, hbe]
                  exact hi.rc.mono (aEx_insert_mono g3) (fun _ h => h)
                · exact C03.uniqueAfter_true_nonempty hun
                · exact C03.setAfter_ok_nonempty hsr (hi.rolesNonEmpty id old hold)
                · intro c hc; cases hc; exact C03.uniqueAfter_create_nonempty huc rfl
                · show UI _ s3.b s3.uLabel; rw [g4, g11]; exact hi.uLabel


end StorageModel.C06
