import StorageModel.C06.NoTrace
/-
  C06: after a committed delete the id is gone from every map of the model, and re-creating it
  yields an entity indexed by its new values only, accepted or rejected by the other entities alone.
-/
namespace StorageModel.C06
open StorageModel
open StorageModel.C03 (Map Id Err setInsert setErase setOf UI SI NEK uniqueAfter setAfter HeldByOther)

theorem deleteA_absent {s s' : State} {id : Id} (hi : Inv s) (h : deleteATop s id = .ok s') :
    s'.a.lookup id = none ∧ s'.b = s.b := by
  have p := deleteATop_spec hi.toInvCore hi.boss h
  exact ⟨p.gone, p.b⟩

theorem deleteB_absent {s s' : State} {id : Id} (h : deleteB s id = .ok s') : s'.b.lookup id = none := by
  obtain ⟨_, e, s1, _, _, _, rfl⟩ := deleteB_ok h
  simp

/-- in a consistent state an id that is not an entity occurs in no index, back-reference, link or
    ref-count map -/
theorem absent_everywhere {s : State} {id : Id} (hi : Inv s) (hna : s.a.lookup id = none) (hnb : s.b.lookup id = none) :
    (∀ v, s.uName.lookup v ≠ some id) ∧ (∀ v, s.uAlias.lookup v ≠ some id) ∧ (∀ v, s.uCode.lookup v ≠ some id) ∧
    (∀ v, s.uLabel.lookup v ≠ some id) ∧ (∀ v, id ∉ (s.sRoles.lookup v).getD []) ∧
    (∀ b, id ∉ (s.thg.lookup b).getD []) ∧
    (∀ b, id ∉ (s.g.bwd.lookup b).getD []) ∧ (∀ j, id ∉ (s.g.fwd.lookup j).getD []) ∧
    (∀ b, id ∉ (s.p.bwd.lookup b).getD []) ∧ (∀ j, id ∉ (s.p.fwd.lookup j).getD []) ∧
    (∀ b, cnt s.rc.bwd b id = none) ∧ (∀ j, cnt s.rc.fwd j id = none) ∧
    s.g.fwd.lookup id = none ∧ s.g.bwd.lookup id = none ∧ s.p.fwd.lookup id = none ∧ s.p.bwd.lookup id = none ∧
    s.rc.fwd.lookup id = none ∧ s.rc.bwd.lookup id = none ∧ s.thg.lookup id = none ∧
    (∀ v, s.uColour.lookup v ≠ some id) ∧
    s.pe.lookup id = none ∧ (∀ j, id ∉ (s.pe.lookup j).getD []) ∧
    s.mt.fwd.lookup id = none ∧ s.mt.bwd.lookup id = none ∧
    (∀ j, id ∉ (s.mt.fwd.lookup j).getD []) ∧ (∀ j, id ∉ (s.mt.bwd.lookup j).getD []) := by
  have ha : s.aEx id = false := by simp [State.aEx, hna]
  have hb : s.bEx id = false := by simp [State.bEx, hnb]
  have hc : s.cEx id = false := by simp [State.cEx, hna]
  have none_of {α : Type} {o : Option α} {f : Bool} (hf : f = false) (h : ∀ x, o = some x → f = true) : o = none := by
    cases o with
    | none => rfl
    | some x => have := h x rfl; rw [hf] at this; cases this
  have g1 : s.g.fwd.lookup id = none := none_of ha (fun l hl => hi.g.fwdDom id l hl)
  have g2 : s.g.bwd.lookup id = none := none_of hb (fun l hl => hi.g.bwdDom id l hl)
  have p1 : s.p.fwd.lookup id = none := none_of hc (fun l hl => hi.p.fwdDom id l hl)
  have p2 : s.p.bwd.lookup id = none := none_of hb (fun l hl => hi.p.bwdDom id l hl)
  have r1 : s.rc.fwd.lookup id = none := none_of ha (fun l hl => hi.rc.fwdDom id l hl)
  have r2 : s.rc.bwd.lookup id = none := none_of hb (fun l hl => hi.rc.bwdDom id l hl)
  have e1 : s.pe.lookup id = none := none_of ha (fun l hl => hi.pe.dom id l hl)
  have m1 : s.mt.fwd.lookup id = none := none_of ha (fun l hl => hi.mt.fwdDom id l hl)
  have m2 : s.mt.bwd.lookup id = none := none_of ha (fun l hl => hi.mt.bwdDom id l hl)
  refine ⟨?_, ?_, ?_, ?_, ?_, ?_, ?_, ?_, ?_, ?_, ?_, ?_, g1, g2, p1, p2, r1, r2, ?_, ?_, e1, ?_, m1, m2, ?_, ?_⟩
  · intro v h; obtain ⟨_, e, he, _⟩ := (hi.uName v id).1 h; rw [hna] at he; cases he
  · intro v h; obtain ⟨_, e, he, _⟩ := (hi.uAlias v id).1 h; rw [hna] at he; cases he
  · intro v h; obtain ⟨_, e, he, _⟩ := (hi.uCode v id).1 h; rw [hna] at he; cases he
  · intro v h; obtain ⟨_, e, he, _⟩ := (hi.uLabel v id).1 h; rw [hnb] at he; cases he
  · intro v h; obtain ⟨e, he, _⟩ := (hi.sRoles v id).1 h; rw [hna] at he; cases he
  · intro b h; obtain ⟨_, e, he, _⟩ := (hi.br b id).1 h; rw [hna] at he; cases he
  · intro b h; have := (hi.g.sym id b).2 h; simp [g1] at this
  · intro j h; have := (hi.g.sym j id).1 h; simp [g2] at this
  · intro b h; have := (hi.p.sym id b).2 h; simp [p1] at this
  · intro j h; have := (hi.p.sym j id).1 h; simp [p2] at this
  · intro b; rw [← hi.rc.agree]; simp [cnt, r1]
  · intro j; rw [hi.rc.agree]; simp [cnt, r2]
  · exact none_of hb (fun l hl => hi.thgDom id l hl)
  · intro v h; obtain ⟨_, e, he, _⟩ := (hi.uColour v id).1 h; rw [hna] at he; cases he
  · intro j h; have := (hi.pe.sym j id).1 h; simp [e1] at this
  · intro j h; have := (hi.mt.sym j id).1 h; simp [m2] at this
  · intro j h; have := (hi.mt.sym id j).2 h; simp [m1] at this

/-- `fkAfter` writes back-reference buckets only -/
theorem fkAfter_frame {ic : Bool} {old new : Bytes} {id : Id} {s s' : State} (hfk : fkAfter ic old new id s = .ok s') :
    ThgFrame s s' := by
  unfold fkAfter at hfk
  simp only [bind, Except.bind, pure, Except.pure] at hfk
  split at hfk
  · cases hfk; rfl
  · split at hfk
    · split at hfk
      · cases hfk
      · next t ht =>
        obtain ⟨_, rfl⟩ := backrefDel_eq ht
        split at hfk
        · obtain ⟨_, rfl⟩ := backrefAdd_eq hfk; rfl
        · cases hfk; rfl
    · split at hfk
      · obtain ⟨_, rfl⟩ := backrefAdd_eq hfk; rfl
      · cases hfk; rfl

/-- the entity tables after a successful `A.Create` -/
theorem createA_entity {s s' : State} {id : Id} {v : ValsA} (h : createA s id v = .ok s') :
    s'.a = s.a.insert id ⟨v.name, v.alias, setOf v.roles, v.owner, v.dep, v.boss, v.chief, none, none⟩ ∧ s'.b = s.b := by
  unfold createA at h
  split at h
  · cases h
  · split at h
    · cases h
    · simp only [bind, Except.bind] at h
      split at h
      · cases h
      · next s2 hsl =>
        obtain ⟨g', _, rfl⟩ := setGroups_ok hsl
        obtain ⟨un, ua, sr, _, _, _, hfk, _⟩ := afterUpdateA_ok h
        have hfr := fkAfter_frame hfk
        obtain ⟨_, _, g3, g4, _⟩ := hfr.fields
        exact ⟨g3, g4⟩

/-- `A.Create` touches neither the ref-count buckets nor the child store's link buckets -/
theorem createA_rc {s s' : State} {id : Id} {v : ValsA} (h : createA s id v = .ok s') : s'.rc = s.rc ∧ s'.p = s.p := by
  unfold createA at h
  split at h
  · cases h
  · split at h
    · cases h
    · simp only [bind, Except.bind] at h
      split at h
      · cases h
      · next s2 hsl =>
        obtain ⟨g', _, rfl⟩ := setGroups_ok hsl
        obtain ⟨un, ua, sr, _, _, _, hfk, _⟩ := afterUpdateA_ok h
        obtain ⟨_, _, _, _, _, g6, g7, _⟩ := (fkAfter_frame hfk).fields
        exact ⟨g7, g6⟩

/-- `A.Create` does not touch the buckets of the self-link collections -/
theorem createA_self {s s' : State} {id : Id} {v : ValsA} (h : createA s id v = .ok s') : s'.pe = s.pe ∧ s'.mt = s.mt := by
  unfold createA at h
  split at h
  · cases h
  · split at h
    · cases h
    · simp only [bind, Except.bind] at h
      split at h
      · cases h
      · next s2 hsl =>
        obtain ⟨g', _, rfl⟩ := setGroups_ok hsl
        obtain ⟨un, ua, sr, _, _, _, hfk, _⟩ := afterUpdateA_ok h
        obtain ⟨_, _, _, _, _, _, _, _, _, _, _, _, _, g14, g15⟩ := (fkAfter_frame hfk).fields
        exact ⟨g14, g15⟩

/-! ### acceptance of a (re-)creation -/

namespace LinkPair

theorem link_ok_iff {p : LinkPair} {bEx : Id → Bool} {a b : Id} : (∃ p', p.link bEx a b = .ok p') ↔ bEx b = true := by
  unfold link
  simp only
  cases bEx b <;> simp

theorem linkAll_ok_iff {aEx bEx : Id → Bool} (a : Id) (ks : List Id) {p : LinkPair} (hi : LinkInv p aEx bEx)
    (ha : aEx a = true) : (∃ p', linkAll bEx a ks p = .ok p') ↔ ∀ k, k ∈ ks → bEx k = true := by
  induction ks generalizing p with
  | nil => simp [linkAll]
  | cons k rest ih =>
    simp only [linkAll, List.mem_cons, forall_eq_or_imp]
    cases hk : p.link bEx a k with
    | error e =>
      have : ¬ bEx k = true := fun h => by
        obtain ⟨p', hp'⟩ := link_ok_iff.2 h; rw [hk] at hp'; cases hp'
      simp [this]
    | ok p1 =>
      obtain ⟨h1, hkb⟩ := link_pres hi ha hk
      simp only [hkb, true_and]
      exact ih h1

theorem setLinks_fresh_ok_iff {p : LinkPair} {aEx bEx : Id → Bool} {a : Id} {req : List Id} (hi : LinkInv p aEx bEx)
    (ha : aEx a = true) (hg : p.fwd.lookup a = none) :
    (∃ p', p.setLinks bEx a req = .ok p') ↔ ∀ k, k ∈ req → bEx k = true := by
  unfold setLinks
  simp only [hg, Option.getD_none, List.filter_nil, List.foldl_nil, List.contains_nil, Bool.not_false]
  have hft : List.filter (fun _ => true) (setOf req) = setOf req := by simp
  rw [hft]
  have hi0 : LinkInv ({ p with fwd := p.fwd.insert a [] } : LinkPair) aEx bEx := by
    refine ⟨?_, hi.bwdDom, ?_⟩
    · intro j b
      have := hi.sym j b
      simp only [Map.lookup_insert]
      by_cases hj : j = a
      · subst hj; simpa [hg] using this
      · simpa [hj] using this
    · intro j l; simp only [Map.lookup_insert]; split
      · next hj => subst hj; intro _; exact ha
      · exact hi.fwdDom j l
  rw [linkAll_ok_iff a (setOf req) hi0 ha]
  simp only [C03.mem_setOf]

end LinkPair

theorem uniqueAfter_create_ok_iff {E : Type} {f : E → Bytes} {ents : Map Id E} {idx : Map Bytes Id} {id : Id} {new : Bytes}
    {nullable : Bool} (hui : UI f ents idx) (hfresh : ents.lookup id = none) :
    (∃ idx', uniqueAfter true nullable [] new id idx = .ok idx') ↔
      ((new = [] ∧ nullable = true) ∨ (new ≠ [] ∧ ¬ HeldByOther f ents id new)) := by
  constructor
  · rintro ⟨idx', h⟩; exact C03.uniqueAfter_create_okc hui h
  · intro hc
    cases h : uniqueAfter true nullable [] new id idx with
    | ok idx' => exact ⟨idx', rfl⟩
    | error x =>
      rcases C03.uniqueAfter_create_err hui hfresh h with ⟨_, h1, h2⟩ | ⟨_, h1, h2⟩
      · rcases hc with ⟨_, h3⟩ | ⟨h3, _⟩
        · rw [h2] at h3; cases h3
        · exact absurd h1 h3
      · rcases hc with ⟨h3, _⟩ | ⟨_, h3⟩
        · exact absurd h3 h1
        · exact absurd h2 h3

theorem setAfter_create_ok_iff {new : List Bytes} {id : Id} {idx : Map Bytes (List Id)} :
    (∃ idx', setAfter [] new id idx = .ok idx') ↔ [] ∉ new := by
  constructor
  · rintro ⟨idx', h⟩; exact C03.setAfter_ok_nonempty h (by simp)
  · intro hn
    cases h : setAfter [] new id idx with
    | ok idx' => exact ⟨idx', rfl⟩
    | error x => exact absurd (C03.setAfter_err h (by simp)).2 hn

theorem fkAfter_create_ok_iff {s : State} {id : Id} {new : Bytes} :
    (∃ s', fkAfter true [] new id s = .ok s') ↔ (new = [] ∨ s.bEx new = true) := by
  unfold fkAfter
  simp only [Bool.not_true, Bool.false_and, Bool.false_eq_true, if_false, ne_eq, not_true_eq_false, bind, Except.bind,
    pure, Except.pure]
  by_cases hn : new = []
  · simp [hn]
  · simp only [hn, not_false_eq_true, if_true, false_or]
    unfold backrefAdd State.bEx
    cases s.b.lookup new <;> simp

theorem fkAfter_create_b {s s' : State} {id : Id} {new : Bytes} (h : fkAfter true [] new id s = .ok s') : s'.b = s.b := by
  unfold fkAfter at h
  simp only [Bool.not_true, Bool.false_and, Bool.false_eq_true, if_false, ne_eq, not_true_eq_false, bind, Except.bind,
    pure, Except.pure] at h
  split at h
  · obtain ⟨_, rfl⟩ := backrefAdd_eq h; rfl
  · cases h; rfl

theorem depAfter_create_ok_iff {s : State} {new : Bytes} :
    (∃ s', depAfter true [] new s = .ok s') ↔ (new = [] ∨ s.bEx new = true) := by
  unfold depAfter
  simp only [Bool.not_true, Bool.false_and, Bool.false_eq_true, if_false, ne_eq]
  by_cases hn : new = []
  · simp [hn]
  · simp only [hn, not_false_eq_true, if_true, false_or]
    cases s.bEx new <;> simp

theorem bossAfter_create_ok_iff {s : State} {new : Bytes} :
    bossAfter true [] new s = .ok () ↔ (new = [] ∨ s.aEx new = true) := by
  unfold bossAfter
  simp only [Bool.not_true, Bool.false_and, Bool.false_eq_true, if_false, ne_eq]
  by_cases hn : new = []
  · simp [hn]
  · simp only [hn, not_false_eq_true, if_true, false_or]
    cases s.aEx new <;> simp

/-- what decides whether `A.Create id v` is accepted: the *other* entities only (a `boss` may also
    be the entity itself: it exists by the time the fk constraint looks) -/
def AcceptableA (s : State) (id : Id) (v : ValsA) : Prop :=
  (v.chief.getD [] = [] ∨ v.chief.getD [] = id ∨ s.aEx (v.chief.getD []) = true) ∧
  (v.boss.getD [] = [] ∨ v.boss.getD [] = id ∨ s.aEx (v.boss.getD []) = true) ∧
  v.name ≠ [] ∧ ¬ HeldByOther (fun (e : EntA) => e.name) s.a id v.name ∧
  (v.alias.getD [] = [] ∨ ¬ HeldByOther (fun (e : EntA) => e.alias.getD []) s.a id (v.alias.getD [])) ∧
  [] ∉ setOf v.roles ∧
  (∀ g, g ∈ v.groups → s.bEx g = true) ∧
  (v.owner.getD [] = [] ∨ s.bEx (v.owner.getD []) = true) ∧
  (v.dep.getD [] = [] ∨ s.bEx (v.dep.getD []) = true)

theorem createA_accepts_iff {s : State} {id : Id} {v : ValsA} (hi : Inv s) (hid : id ≠ [])
    (hna : s.a.lookup id = none) : (∃ s', createA s id v = .ok s') ↔ AcceptableA s id v := by
  have hg : s.g.fwd.lookup id = none := by
    cases hgl : s.g.fwd.lookup id with
    | none => rfl
    | some l => have := hi.g.fwdDom id l hgl; simp [State.aEx, hna] at this
  have hg1 : LinkInv s.g ({ s with hasA := true, a := s.a.insert id ⟨v.name, v.alias, setOf v.roles, v.owner, v.dep, v.boss, v.chief, none, none⟩ } : State).aEx ({ s with hasA := true, a := s.a.insert id ⟨v.name, v.alias, setOf v.roles, v.owner, v.dep, v.boss, v.chief, none, none⟩ } : State).bEx :=
    hi.g.mono (aEx_insert_mono rfl) (fun _ h => h)
  have hlinks := LinkPair.setLinks_fresh_ok_iff (req := v.groups) hg1 (aEx_insert_self rfl) hg
  unfold createA AcceptableA
  simp only [hid, if_false, hna, Option.isSome_none, Bool.false_eq_true, bind, Except.bind, setGroups, pure, Except.pure]
  cases hsl : s.g.setLinks ({ s with hasA := true, a := s.a.insert id ⟨v.name, v.alias, setOf v.roles, v.owner, v.dep, v.boss, v.chief, none, none⟩ } : State).bEx
      id v.groups with
  | error x =>
    have hno : ¬ ∀ k, k ∈ v.groups → s.bEx k = true := by
      intro h; obtain ⟨p', hp'⟩ := hlinks.2 h; rw [hsl] at hp'; cases hp'
    simp only [false_iff, reduceCtorEq, exists_false]
    intro h; exact hno h.2.2.2.2.2.2.1
  | ok g' =>
    have hgr : ∀ k, k ∈ v.groups → s.bEx k = true := hlinks.1 ⟨g', hsl⟩
    simp only [afterUpdateA, Map.lookup_insert, if_true, evName, evAlias, evRoles, evOwner, evDep, evBoss, evChief, Captured.none, bind,
      Except.bind]
    have hbx : ∀ w : Bytes, ({ s with hasA := true, a := s.a.insert id ⟨v.name, v.alias, setOf v.roles, v.owner, v.dep, v.boss, v.chief, none, none⟩, g := g' } : State).aEx w = true ↔ (w = id ∨ s.aEx w = true) := by
      intro w
      simp only [State.aEx, Map.lookup_insert]
      by_cases hbi : w = id
      · simp [hbi]
      · simp [hbi]
    cases hch : bossAfter true [] (v.chief.getD []) ({ s with hasA := true, a := s.a.insert id ⟨v.name, v.alias, setOf v.roles, v.owner, v.dep, v.boss, v.chief, none, none⟩, g := g' } : State) with
    | error x =>
      simp only [false_iff, reduceCtorEq, exists_false]
      intro h
      have : bossAfter true [] (v.chief.getD []) ({ s with hasA := true, a := s.a.insert id ⟨v.name, v.alias, setOf v.roles, v.owner, v.dep, v.boss, v.chief, none, none⟩, g := g' } : State) = .ok () := by
        rw [bossAfter_create_ok_iff, hbx]; exact h.1
      rw [hch] at this; cases this
    | ok u0 =>
    have hcacc : v.chief.getD [] = [] ∨ v.chief.getD [] = id ∨ s.aEx (v.chief.getD []) = true := by
      have := bossAfter_create_ok_iff.1 hch
      rw [hbx] at this; exact this
    simp only
    cases hbo : bossAfter true [] (v.boss.getD []) ({ s with hasA := true, a := s.a.insert id ⟨v.name, v.alias, setOf v.roles, v.owner, v.dep, v.boss, v.chief, none, none⟩, g := g' } : State) with
    | error x =>
      simp only [false_iff, reduceCtorEq, exists_false]
      intro h
      have : bossAfter true [] (v.boss.getD []) ({ s with hasA := true, a := s.a.insert id ⟨v.name, v.alias, setOf v.roles, v.owner, v.dep, v.boss, v.chief, none, none⟩, g := g' } : State) = .ok () := by
        rw [bossAfter_create_ok_iff, hbx]; exact h.2.1
      rw [hbo] at this; cases this
    | ok u =>
    have hbacc : v.boss.getD [] = [] ∨ v.boss.getD [] = id ∨ s.aEx (v.boss.getD []) = true := by
      have := bossAfter_create_ok_iff.1 hbo
      rw [hbx] at this; exact this
    simp only
    have hN := uniqueAfter_create_ok_iff (f := fun (e : EntA) => e.name) (new := v.name) (nullable := false) (id := id)
      hi.uName hna
    have hA := uniqueAfter_create_ok_iff (f := fun (e : EntA) => e.alias.getD []) (new := v.alias.getD [])
      (nullable := true) (id := id) hi.uAlias hna
    have hR := setAfter_create_ok_iff (new := setOf v.roles) (id := id) (idx := s.sRoles)
    cases hun : uniqueAfter true false [] v.name id s.uName with
    | error x =>
      have : ¬ ((v.name = [] ∧ false = true) ∨ (v.name ≠ [] ∧ ¬ HeldByOther (fun (e : EntA) => e.name) s.a id v.name)) := by
        intro h; obtain ⟨i, hi'⟩ := hN.2 h; rw [hun] at hi'; cases hi'
      simp only [false_iff, reduceCtorEq, exists_false]
      intro h; exact this (Or.inr ⟨h.2.2.1, h.2.2.2.1⟩)
    | ok un =>
      have hn' := hN.1 ⟨un, hun⟩
      simp only
      cases hua : uniqueAfter true true [] (v.alias.getD []) id s.uAlias with
      | error x =>
        have : ¬ ((v.alias.getD [] = [] ∧ true = true) ∨
            (v.alias.getD [] ≠ [] ∧ ¬ HeldByOther (fun (e : EntA) => e.alias.getD []) s.a id (v.alias.getD []))) := by
          intro h; obtain ⟨i, hi'⟩ := hA.2 h; rw [hua] at hi'; cases hi'
        simp only [false_iff, reduceCtorEq, exists_false]
        intro h
        apply this
        rcases h.2.2.2.2.1 with h1 | h1
        · exact Or.inl ⟨h1, rfl⟩
        · by_cases hz : v.alias.getD [] = []
          · exact Or.inl ⟨hz, rfl⟩
          · exact Or.inr ⟨hz, h1⟩
      | ok ua =>
        have ha' := hA.1 ⟨ua, hua⟩
        simp only
        cases hsr : setAfter [] (setOf v.roles) id s.sRoles with
        | error x =>
          have : ¬ [] ∉ setOf v.roles := by
            intro h; obtain ⟨i, hi'⟩ := hR.2 h; rw [hsr] at hi'; cases hi'
          simp only [false_iff, reduceCtorEq, exists_false]
          intro h; exact this h.2.2.2.2.2.1
        | ok sr =>
          have hr' := hR.1 ⟨sr, hsr⟩
          simp only
          have base : v.name ≠ [] ∧ ¬ HeldByOther (fun (e : EntA) => e.name) s.a id v.name ∧
              (v.alias.getD [] = [] ∨ ¬ HeldByOther (fun (e : EntA) => e.alias.getD []) s.a id (v.alias.getD [])) := by
            refine ⟨?_, ?_, ?_⟩
            · rcases hn' with ⟨_, h⟩ | ⟨h, _⟩
              · cases h
              · exact h
            · rcases hn' with ⟨_, h⟩ | ⟨_, h⟩
              · cases h
              · exact h
            · rcases ha' with ⟨h, _⟩ | ⟨_, h⟩
              · exact Or.inl h
              · exact Or.inr h
          cases hfk : fkAfter true [] (v.owner.getD []) id ({ s with hasA := true, a := s.a.insert id ⟨v.name, v.alias, setOf v.roles, v.owner, v.dep, v.boss, v.chief, none, none⟩, g := g', uName := un, uAlias := ua, sRoles := sr } : State) with
          | error x =>
            have : ¬ (v.owner.getD [] = [] ∨ s.bEx (v.owner.getD []) = true) := by
              intro h
              obtain ⟨t, ht⟩ := (fkAfter_create_ok_iff (id := id) (s := ({ s with hasA := true, a := s.a.insert id ⟨v.name, v.alias, setOf v.roles, v.owner, v.dep, v.boss, v.chief, none, none⟩, g := g', uName := un, uAlias := ua, sRoles := sr } : State))).2 h
              rw [hfk] at ht; cases ht
            simp only [false_iff, reduceCtorEq, exists_false]
            intro h; exact this h.2.2.2.2.2.2.2.1
          | ok s1 =>
            have ho := (fkAfter_create_ok_iff (id := id)).1 ⟨s1, hfk⟩
            have hb0 := fkAfter_create_b hfk
            have hb1 : s1.bEx = s.bEx := bEx_congr hb0
            simp only
            rw [depAfter_create_ok_iff, hb1]
            constructor
            · intro hd; exact ⟨hcacc, hbacc, base.1, base.2.1, base.2.2, hr', hgr, ho, hd⟩
            · intro h; exact h.2.2.2.2.2.2.2.2

theorem acceptableA_congr {s t : State} {id : Id} {v : ValsA} (ha : ∀ j, t.a.lookup j = s.a.lookup j)
    (hb : ∀ j, t.b.lookup j = s.b.lookup j) : AcceptableA t id v ↔ AcceptableA s id v := by
  unfold AcceptableA HeldByOther State.bEx State.aEx
  simp only [ha, hb]

/-! ### the transitive referrers of an entity through `boss` -/

/-- `Reports s id j`: following `boss` from `j` leads to `id` in one or more steps -/
inductive Reports (s : State) (id : Id) : Id → Prop
  | direct {j : Id} {e : EntA} : s.a.lookup j = some e → e.boss.getD [] = id → Reports s id j
  | step {j k : Id} {e : EntA} : s.a.lookup j = some e → e.boss.getD [] = k → Reports s id k → Reports s id j

theorem Reports.exists {s : State} {id j : Id} (h : Reports s id j) : ∃ e, s.a.lookup j = some e := by
  cases h with
  | direct h1 _ => exact ⟨_, h1⟩
  | step h1 _ _ => exact ⟨_, h1⟩

/-- a cascading delete removes every transitive referrer -/
theorem boss_cascade_removes {s s' : State} {id j : Id} (hi : Inv s) (h : deleteATop s id = .ok s')
    (hr : Reports s id j) : s'.a.lookup j = none := by
  have p := deleteATop_spec hi.toInvCore hi.boss h
  have key : ∀ (j k : Id) (e : EntA), s.a.lookup j = some e → e.boss.getD [] = k → k ≠ [] → s'.a.lookup k = none →
      s'.a.lookup j = none := by
    intro j k e hj hk hne hgone
    cases hl : s'.a.lookup j with
    | none => rfl
    | some e' =>
      have h1 := p.sub j e' hl
      rw [hj] at h1; cases h1
      have := p.boss.boss j e hl (by rw [hk]; exact hne) (by simp)
      rw [hk] at this
      simp [State.aEx, hgone] at this
  induction hr with
  | direct h1 h2 => exact key _ _ _ h1 h2 (deleteATop_id_ne h) p.gone
  | @step j' k' e' h1 h2 h3 ih =>
    obtain ⟨ek, hek⟩ := h3.exists
    have hkne : k' ≠ [] := by
      rintro rfl
      rw [hi.idA] at hek; cases hek
    exact key _ _ _ h1 h2 hkne ih

end StorageModel.C06
