import StorageModel.C06.NoTrace
/-
  C06: after a committed delete the id is gone from every map of the model, and re-creating it
  yields an entity indexed by its new values only.
-/
namespace StorageModel.C06
open StorageModel
open StorageModel.C03 (Map Id Err setInsert setErase setOf UI SI NEK uniqueAfter setAfter HeldByOther)

theorem deleteA_absent {s s' : State} {id : Id} (hi : Inv s) (h : deleteA s id = .ok s') :
    s'.a.lookup id = none ∧ s'.b = s.b := by
  obtain ⟨_, e, s2, _, _, _, _, _, q4, _, _, _, _, rfl⟩ := deleteA_stages hi h
  have hdom : ∀ b l, s2.mem.lookup b = some l → (s2.b.lookup b).isSome = true := by
    intro b l hl
    have := hi.link.memDom b l
    rename_i q6 _ _
    rw [q6] at hl; rw [q4]; exact this hl
  obtain ⟨c1, _, _⟩ := clA_fold id ((s2.grp.lookup id).getD []) s2 hdom
  rw [← cleanupLinksA_eq] at c1
  unfold MemFrame at c1
  refine ⟨by simp, ?_⟩
  show (cleanupLinksA s2 id).b = s.b
  rw [c1]; exact q4

theorem deleteB_absent {s s' : State} {id : Id} (hi : Inv s) (h : deleteB s id = .ok s') :
    s'.b.lookup id = none ∧ s'.a = s.a := by
  obtain ⟨_, e, _, _, rfl⟩ := deleteB_ok h
  obtain ⟨c1, _, _⟩ := clB_fold id ((s.mem.lookup id).getD [])
    { s with uLabel := C03.uniqueBeforeDelete (e.label.getD []) s.uLabel } hi.link.grpDom
  rw [← cleanupLinksB_eq] at c1
  unfold GrpFrame at c1
  refine ⟨by simp, ?_⟩
  show (cleanupLinksB _ id).a = s.a
  rw [c1]

/-- in a consistent state an id that is not an entity occurs in no index, back-reference or link map -/
theorem absent_everywhere {s : State} {id : Id} (hi : Inv s) (hna : s.a.lookup id = none) (hnb : s.b.lookup id = none) :
    (∀ v, s.uName.lookup v ≠ some id) ∧ (∀ v, s.uAlias.lookup v ≠ some id) ∧ (∀ v, s.uCode.lookup v ≠ some id) ∧
    (∀ v, s.uLabel.lookup v ≠ some id) ∧ (∀ v, id ∉ (s.sRoles.lookup v).getD []) ∧
    (∀ b, id ∉ (s.thg.lookup b).getD []) ∧ (∀ b, id ∉ (s.mem.lookup b).getD []) ∧ (∀ j, id ∉ (s.grp.lookup j).getD []) ∧
    s.grp.lookup id = none ∧ s.mem.lookup id = none ∧ s.thg.lookup id = none := by
  refine ⟨?_, ?_, ?_, ?_, ?_, ?_, ?_, ?_, ?_, ?_, ?_⟩
  · intro v h; obtain ⟨_, e, he, _⟩ := (hi.uName v id).1 h; rw [hna] at he; cases he
  · intro v h; obtain ⟨_, e, he, _⟩ := (hi.uAlias v id).1 h; rw [hna] at he; cases he
  · intro v h; obtain ⟨_, e, he, _⟩ := (hi.uCode v id).1 h; rw [hna] at he; cases he
  · intro v h; obtain ⟨_, e, he, _⟩ := (hi.uLabel v id).1 h; rw [hnb] at he; cases he
  · intro v h; obtain ⟨e, he, _⟩ := (hi.sRoles v id).1 h; rw [hna] at he; cases he
  · intro b h; obtain ⟨_, e, he, _⟩ := (hi.br b id).1 h; rw [hna] at he; cases he
  · intro b h
    have h1 := (hi.link.sym id b).2 h
    cases hg : s.grp.lookup id with
    | none => simp [hg] at h1
    | some l => have := hi.link.grpDom id l hg; simp [hna] at this
  · intro j h
    have h1 := (hi.link.sym j id).1 h
    cases hm : s.mem.lookup id with
    | none => simp [hm] at h1
    | some l => have := hi.link.memDom id l hm; simp [hnb] at this
  · cases hg : s.grp.lookup id with
    | none => rfl
    | some l => have := hi.link.grpDom id l hg; simp [hna] at this
  · cases hm : s.mem.lookup id with
    | none => rfl
    | some l => have := hi.link.memDom id l hm; simp [hnb] at this
  · cases ht : s.thg.lookup id with
    | none => rfl
    | some l => have := hi.thgDom id l ht; simp [hnb] at this

/-- the entity table after a successful `A.Create` -/
theorem createA_entity {s s' : State} {id : Id} {v : ValsA} (hi : Inv s) (h : createA s id v = .ok s') :
    s'.a = s.a.insert id ⟨v.name, v.alias, setOf v.roles, v.owner, none⟩ ∧ s'.b = s.b := by
  unfold createA at h
  split at h
  · cases h
  · split at h
    · cases h
    · simp only [bind, Except.bind] at h
      split at h
      · cases h
      · next s2 hsl =>
        have hl1 : LinkInv ({ s with hasA := true, a := s.a.insert id ⟨v.name, v.alias, setOf v.roles, v.owner, none⟩ } : State) :=
          ⟨hi.link.sym, hi.link.memDom, by
            intro j l hj; simp only [Map.lookup_insert]; split
            · simp
            · exact hi.link.grpDom j l hj⟩
        obtain ⟨_, l2, _, _⟩ := setLinks_pres hl1 (by simp) hsl
        obtain ⟨_, _, f3, f4, _⟩ := l2.fields
        obtain ⟨un, ua, sr, _, _, _, hfk⟩ := afterUpdateA_ok h
        -- fkAfter changes `thg` only
        have hfr : ThgFrame ({ s2 with uName := un, uAlias := ua, sRoles := sr } : State) s' := by
          unfold fkAfter at hfk
          simp only [bind, Except.bind, pure, Except.pure] at hfk
          split at hfk
          · cases hfk; rfl
          · split at hfk
            · split at hfk
              · cases hfk
              · next t ht =>
                obtain ⟨_, rfl⟩ := backrefDel_eq ht
                split at hfk
                · obtain ⟨_, rfl⟩ := backrefAdd_eq hfk; rfl
                · cases hfk; rfl
            · split at hfk
              · obtain ⟨_, rfl⟩ := backrefAdd_eq hfk; rfl
              · cases hfk; rfl
        obtain ⟨_, _, g3, g4, _⟩ := hfr.fields
        exact ⟨by rw [g3]; exact f3, by rw [g4]; exact f4⟩


theorem linkAB_ok_iff {s : State} {a b : Id} : (∃ s', linkAB s a b = .ok s') ↔ (s.b.lookup b).isSome = true := by
  unfold linkAB
  simp only
  cases hb : s.b.lookup b <;> simp

theorem linkAll_ok_iff (a : Id) (ks : List Id) {s : State} (hi : LinkInv s) (ha : (s.a.lookup a).isSome = true) :
    (∃ s', linkAll a ks s = .ok s') ↔ ∀ k, k ∈ ks → (s.b.lookup k).isSome = true := by
  induction ks generalizing s with
  | nil => simp [linkAll]
  | cons k rest ih =>
    simp only [linkAll, List.mem_cons, forall_eq_or_imp]
    cases hk : linkAB s a k with
    | error e =>
      have : ¬ (s.b.lookup k).isSome = true := fun h => by
        obtain ⟨s', hs'⟩ := linkAB_ok_iff.2 h; rw [hk] at hs'; cases hs'
      simp [this]
    | ok s1 =>
      obtain ⟨h1, h2, _, _⟩ := linkAB_pres hi ha hk
      have hb : s1.b = s.b := frame_b h2
      have ha1 : (s1.a.lookup a).isSome = true := by rw [frame_a h2]; exact ha
      have hkb : (s.b.lookup k).isSome = true := linkAB_ok_iff.1 ⟨s1, hk⟩
      simp only [hkb, true_and]
      rw [ih h1 ha1, hb]

theorem setLinks_fresh_ok_iff {s : State} {a : Id} {req : List Id} (hi : LinkInv s) (ha : (s.a.lookup a).isSome = true)
    (hg : s.grp.lookup a = none) :
    (∃ s', setLinks s a req = .ok s') ↔ ∀ k, k ∈ req → (s.b.lookup k).isSome = true := by
  unfold setLinks
  simp only [hg, Option.getD_none, List.filter_nil, List.foldl_nil, List.contains_nil, Bool.not_false]
  have hft : List.filter (fun _ => true) (setOf req) = setOf req := by simp
  rw [hft]
  have hi0 : LinkInv ({ s with grp := s.grp.insert a [] } : State) := by
    refine ⟨?_, hi.memDom, ?_⟩
    · intro j b
      have := hi.sym j b
      simp only [Map.lookup_insert]
      by_cases hj : j = a
      · subst hj; simpa [hg] using this
      · simpa [hj] using this
    · intro j l; simp only [Map.lookup_insert]; split
      · next hj => subst hj; intro _; exact ha
      · exact hi.grpDom j l
  rw [linkAll_ok_iff a (setOf req) hi0 ha]
  simp only [C03.mem_setOf]


theorem uniqueAfter_create_ok_iff {E : Type} {f : E → Bytes} {ents : Map Id E} {idx : Map Bytes Id} {id : Id} {new : Bytes}
    {nullable : Bool} (hui : UI f ents idx) (hfresh : ents.lookup id = none) :
    (∃ idx', uniqueAfter true nullable [] new id idx = .ok idx') ↔
      ((new = [] ∧ nullable = true) ∨ (new ≠ [] ∧ ¬ HeldByOther f ents id new)) := by
  constructor
  · rintro ⟨idx', h⟩; exact C03.uniqueAfter_create_okc hui h
  · intro hc
    cases h : uniqueAfter true nullable [] new id idx with
    | ok idx' => exact ⟨idx', rfl⟩
    | error x =>
      rcases C03.uniqueAfter_create_err hui hfresh h with ⟨_, h1, h2⟩ | ⟨_, h1, h2⟩
      · rcases hc with ⟨_, h3⟩ | ⟨h3, _⟩
        · rw [h2] at h3; cases h3
        · exact absurd h1 h3
      · rcases hc with ⟨h3, _⟩ | ⟨_, h3⟩
        · exact absurd h3 h1
        · exact absurd h2 h3

theorem setAfter_create_ok_iff {new : List Bytes} {id : Id} {idx : Map Bytes (List Id)} :
    (∃ idx', setAfter [] new id idx = .ok idx') ↔ [] ∉ new := by
  constructor
  · rintro ⟨idx', h⟩; exact C03.setAfter_ok_nonempty h (by simp)
  · intro hn
    cases h : setAfter [] new id idx with
    | ok idx' => exact ⟨idx', rfl⟩
    | error x => exact absurd (C03.setAfter_err h (by simp)).2 hn

theorem fkAfter_create_ok_iff {s : State} {id : Id} {new : Bytes} :
    (∃ s', fkAfter true [] new id s = .ok s') ↔ (new = [] ∨ (s.b.lookup new).isSome = true) := by
  unfold fkAfter
  simp only [Bool.not_true, Bool.false_and, Bool.false_eq_true, if_false, ne_eq, not_true_eq_false, bind, Except.bind,
    pure, Except.pure]
  by_cases hn : new = []
  · simp [hn]
  · simp only [hn, not_false_eq_true, if_true, false_or]
    unfold backrefAdd
    cases s.b.lookup new <;> simp

/-- what decides whether `A.Create id v` is accepted: the *other* entities only -/
def AcceptableA (s : State) (id : Id) (v : ValsA) : Prop :=
  v.name ≠ [] ∧ ¬ HeldByOther (fun (e : EntA) => e.name) s.a id v.name ∧
  (v.alias.getD [] = [] ∨ ¬ HeldByOther (fun (e : EntA) => e.alias.getD []) s.a id (v.alias.getD [])) ∧
  [] ∉ setOf v.roles ∧
  (∀ g, g ∈ v.groups → (s.b.lookup g).isSome = true) ∧
  (v.owner.getD [] = [] ∨ (s.b.lookup (v.owner.getD [])).isSome = true)

theorem createA_accepts_iff {s : State} {id : Id} {v : ValsA} (hi : Inv s) (hid : id ≠ [])
    (hna : s.a.lookup id = none) : (∃ s', createA s id v = .ok s') ↔ AcceptableA s id v := by
  have hg : s.grp.lookup id = none := by
    cases hgl : s.grp.lookup id with
    | none => rfl
    | some l => have := hi.link.grpDom id l hgl; simp [hna] at this
  have hl1 : LinkInv ({ s with hasA := true, a := s.a.insert id ⟨v.name, v.alias, setOf v.roles, v.owner, none⟩ } : State) :=
    ⟨hi.link.sym, hi.link.memDom, by
      intro j l hj; simp only [Map.lookup_insert]; split
      · simp
      · exact hi.link.grpDom j l hj⟩
  have hlinks := setLinks_fresh_ok_iff (req := v.groups) hl1 (by simp) hg
  simp only at hlinks
  unfold createA AcceptableA
  simp only [hid, if_false, hna, Option.isSome_none, Bool.false_eq_true, bind, Except.bind]
  cases hsl : setLinks ({ s with hasA := true, a := s.a.insert id ⟨v.name, v.alias, setOf v.roles, v.owner, none⟩ } : State)
      id v.groups with
  | error x =>
    have hno : ¬ ∀ k, k ∈ v.groups → (s.b.lookup k).isSome = true := by
      intro h; obtain ⟨s', hs'⟩ := hlinks.2 h; rw [hsl] at hs'; cases hs'
    simp only [false_iff, reduceCtorEq, exists_false]
    intro h; exact hno h.2.2.2.2.1
  | ok s2 =>
    have hgr : ∀ k, k ∈ v.groups → (s.b.lookup k).isSome = true := hlinks.1 ⟨s2, hsl⟩
    obtain ⟨_, l2, _, _⟩ := setLinks_pres hl1 (by simp) hsl
    obtain ⟨f1, f2, f3, f4, f5, f6, f7, f8, f9, f10⟩ := l2.fields
    have hlk : s2.a.lookup id = some ⟨v.name, v.alias, setOf v.roles, v.owner, none⟩ := by rw [f3]; simp
    simp only [afterUpdateA, hlk, evName, evAlias, evRoles, evOwner, Captured.none, bind, Except.bind]
    rw [f6, f7, f10]
    simp only
    have hN := uniqueAfter_create_ok_iff (f := fun (e : EntA) => e.name) (new := v.name) (nullable := false) (id := id)
      hi.uName hna
    have hA := uniqueAfter_create_ok_iff (f := fun (e : EntA) => e.alias.getD []) (new := v.alias.getD [])
      (nullable := true) (id := id) hi.uAlias hna
    have hR := setAfter_create_ok_iff (new := setOf v.roles) (id := id) (idx := s.sRoles)
    cases hun : uniqueAfter true false [] v.name id s.uName with
    | error x =>
      have : ¬ ((v.name = [] ∧ false = true) ∨ (v.name ≠ [] ∧ ¬ HeldByOther (fun (e : EntA) => e.name) s.a id v.name)) := by
        intro h; obtain ⟨i, hi'⟩ := hN.2 h; rw [hun] at hi'; cases hi'
      simp only [false_iff, reduceCtorEq, exists_false]
      intro h; exact this (Or.inr ⟨h.1, h.2.1⟩)
    | ok un =>
      have hn' := hN.1 ⟨un, hun⟩
      simp only
      cases hua : uniqueAfter true true [] (v.alias.getD []) id s.uAlias with
      | error x =>
        have : ¬ ((v.alias.getD [] = [] ∧ true = true) ∨
            (v.alias.getD [] ≠ [] ∧ ¬ HeldByOther (fun (e : EntA) => e.alias.getD []) s.a id (v.alias.getD []))) := by
          intro h; obtain ⟨i, hi'⟩ := hA.2 h; rw [hua] at hi'; cases hi'
        simp only [false_iff, reduceCtorEq, exists_false]
        intro h
        apply this
        rcases h.2.2.1 with h1 | h1
        · exact Or.inl ⟨h1, rfl⟩
        · by_cases hz : v.alias.getD [] = []
          · exact Or.inl ⟨hz, rfl⟩
          · exact Or.inr ⟨hz, h1⟩
      | ok ua =>
        have ha' := hA.1 ⟨ua, hua⟩
        simp only
        cases hsr : setAfter [] (setOf v.roles) id s.sRoles with
        | error x =>
          have : ¬ [] ∉ setOf v.roles := by
            intro h; obtain ⟨i, hi'⟩ := hR.2 h; rw [hsr] at hi'; cases hi'
          simp only [false_iff, reduceCtorEq, exists_false]
          intro h; exact this h.2.2.2.1
        | ok sr =>
          have hr' := hR.1 ⟨sr, hsr⟩
          simp only
          rw [fkAfter_create_ok_iff]
          simp only
          rw [f4]
          constructor
          · intro hf
            refine ⟨?_, ?_, ?_, hr', hgr, hf⟩
            · rcases hn' with ⟨_, h⟩ | ⟨h, _⟩
              · cases h
              · exact h
            · rcases hn' with ⟨_, h⟩ | ⟨_, h⟩
              · cases h
              · exact h
            · rcases ha' with ⟨h, _⟩ | ⟨_, h⟩
              · exact Or.inl h
              · exact Or.inr h
          · intro h; exact h.2.2.2.2.2


theorem acceptableA_congr {s t : State} {id : Id} {v : ValsA} (ha : ∀ j, t.a.lookup j = s.a.lookup j)
    (hb : ∀ j, t.b.lookup j = s.b.lookup j) : AcceptableA t id v ↔ AcceptableA s id v := by
  unfold AcceptableA HeldByOther
  simp only [ha, hb]

end StorageModel.C06
