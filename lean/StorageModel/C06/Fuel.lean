import StorageModel.C06.Recreate
/-
  C06: the recursion of the cascading delete terminates within its fuel.

  `deleteA` is defined by recursion on a fuel parameter; running out of it is reported as `panic`
  (the stack overflow of the code before fix bda5470).  Here: in a consistent state, with a fuel
  larger than the number of entities whose delete is not already in progress, `deleteA` never
  answers `panic` — on chains, self references and cycles alike.  Hence `deleteATop`, which
  supplies `|A| + 1`, never does.
-/
namespace StorageModel.C06
open StorageModel
open StorageModel.C03 (Map Id Err setInsert setErase setOf uniqueBeforeDelete setBeforeDelete)

/-- the number of entities whose delete is not in progress -/
def liveCnt (busy : List Id) (m : Map Id EntA) : Nat := (m.filter (fun p => !busy.contains p.1)).length

theorem liveCnt_sublist {busy : List Id} {m m' : Map Id EntA} (h : List.Sublist m' m) :
    liveCnt busy m' ≤ liveCnt busy m := (h.filter _).length_le

theorem liveCnt_le_length (busy : List Id) (m : Map Id EntA) : liveCnt busy m ≤ m.length :=
  List.length_filter_le _ _

theorem filter_length_lt {α : Type} (p q : α → Bool) (l : List α) (himp : ∀ x, q x = true → p x = true)
    (x : α) (hx : x ∈ l) (hpx : p x = true) (hqx : q x = false) : (l.filter q).length < (l.filter p).length := by
  induction l with
  | nil => cases hx
  | cons y t ih =>
    have hle : (t.filter q).length ≤ (t.filter p).length := by
      clear ih hx
      induction t with
      | nil => simp
      | cons z t iht =>
        simp only [List.filter_cons]
        cases hq : q z with
        | true => simp only [himp z hq, if_true, List.length_cons]; omega
        | false =>
          simp only [Bool.false_eq_true, if_false]
          split
          · simp only [List.length_cons]; omega
          · exact iht
    simp only [List.mem_cons] at hx
    simp only [List.filter_cons]
    rcases hx with rfl | hx
    · simp only [hpx, hqx, if_true, Bool.false_eq_true, if_false, List.length_cons]; omega
    · have := ih hx
      cases hq : q y with
      | true => simp only [himp y hq, if_true, List.length_cons]; omega
      | false =>
        simp only [Bool.false_eq_true, if_false]
        split
        · simp only [List.length_cons]; omega
        · exact this

theorem lookup_some_mem {m : Map Id EntA} {id : Id} {e : EntA} (h : m.lookup id = some e) : (id, e) ∈ m := by
  induction m with
  | nil => simp [Map.lookup] at h
  | cons p t ih =>
    obtain ⟨k, v⟩ := p
    simp only [Map.lookup] at h
    split at h
    · next hk => cases h; subst hk; simp
    · exact List.mem_cons_of_mem _ (ih h)

/-- marking one more existing entity strictly lowers the count -/
theorem liveCnt_mark {busy : List Id} {m : Map Id EntA} {id : Id} {e : EntA} (hl : m.lookup id = some e)
    (hn : id ∉ busy) : liveCnt (markBusy busy id) m < liveCnt busy m := by
  unfold liveCnt
  apply filter_length_lt _ _ m _ (id, e) (lookup_some_mem hl)
  · simpa using hn
  · have : id ∈ markBusy busy id := (mem_markBusy busy id id).2 (Or.inl rfl)
    simpa using this
  · intro x hx
    simp only [Bool.not_eq_true', List.contains_eq_mem, decide_eq_false_iff_not] at hx ⊢
    exact fun hm => hx ((mem_markBusy busy id x.1).2 (Or.inr hm))

theorem erase_sublist (m : Map Id EntA) (k : Id) : List.Sublist (m.erase k) m := List.filter_sublist

/-! ### a delete only removes entities -/

theorem cascadeLoop_sublist {del : State → Id → Except Err State} {busy : List Id}
    (hd : ∀ s j s', InvCore s → BossOK busy s → del s j = .ok s' → DelPost busy s s' j ∧ List.Sublist s'.a s.a)
    (l : List Id) {s s0 : State} (hi : InvCore s) (hb : BossOK busy s) (h : cascadeLoop del busy l s = .ok s0) :
    List.Sublist s0.a s.a := by
  induction l generalizing s with
  | nil => simp only [cascadeLoop] at h; cases h; exact List.Sublist.refl _
  | cons j rest ih =>
    simp only [cascadeLoop] at h
    split at h
    · exact ih hi hb h
    · cases hdj : del s j with
      | error x => simp [hdj] at h
      | ok s1 =>
        simp only [hdj] at h
        obtain ⟨p, hs⟩ := hd s j s1 hi hb hdj
        exact (ih p.core p.boss h).trans hs

theorem deleteA_sublist (fuel : Nat) : ∀ (busy : List Id) (s : State) (id : Id) (s' : State), InvCore s → BossOK busy s →
    deleteA fuel busy s id = .ok s' → List.Sublist s'.a s.a := by
  induction fuel with
  | zero => intro busy s id s' _ _ h; simp [deleteA] at h
  | succ fuel ih =>
    intro busy s id s' hi hb h
    have hb' : BossOK (markBusy busy id) s := bossOK_mono hb (fun k hk => (mem_markBusy busy id k).2 (Or.inr hk))
    obtain ⟨s0, _, hcb, h0⟩ := deleteA_decomp (deleteA_spec fuel) hi hb h
    obtain ⟨c1, _⟩ := cascadeBoss_spec (deleteA_spec fuel) hi hb' hcb
    obtain ⟨_, d2, _⟩ := core_deleteA0 c1 h0
    have hs0 : List.Sublist s0.a s.a := by
      unfold cascadeBoss at hcb
      exact cascadeLoop_sublist (fun t j t' ht hbt hdel =>
        ⟨deleteA_spec fuel _ t j t' ht hbt hdel, ih _ t j t' ht hbt hdel⟩) _ hi hb' hcb
    rw [d2]
    exact (erase_sublist _ _).trans hs0

/-! ### no step of a delete answers `panic` -/

theorem beforeDeleteA_noPanic {s : State} {id : Id} (h : [] ∉ evRoles (s.a.lookup id)) :
    beforeDeleteA s id ≠ .error .panic := by
  intro hp
  simp only [beforeDeleteA, bind, Except.bind] at hp
  cases hsr : setBeforeDelete (evRoles (s.a.lookup id)) id s.sRoles with
  | error x =>
    unfold setBeforeDelete at hsr
    split at hsr
    · next hany =>
      simp only [List.any_eq_true, beq_iff_eq] at hany
      obtain ⟨r, hr, rfl⟩ := hany
      exact h hr
    · cases hsr
  | ok sr =>
    simp only [hsr] at hp
    unfold fkBeforeDelete at hp
    split at hp
    · unfold backrefDel at hp
      split at hp
      · cases hp
      · cases hp
    · simp only [pure, Except.pure] at hp; cases hp

theorem chiefCheck_noPanic {s : State} {id : Id} : chiefCheck s id ≠ .error .panic := by
  unfold chiefCheck; split <;> simp

theorem cascadeLoop_noPanic {del : State → Id → Except Err State} {busy : List Id} {fuel : Nat}
    (hd : ∀ s j s', InvCore s → BossOK busy s → del s j = .ok s' → DelPost busy s s' j ∧ List.Sublist s'.a s.a)
    (hnp : ∀ s j, InvCore s → BossOK busy s → j ∉ busy → liveCnt busy s.a < fuel → del s j ≠ .error .panic)
    (l : List Id) {s : State} (hi : InvCore s) (hb : BossOK busy s) (hc : liveCnt busy s.a < fuel) :
    cascadeLoop del busy l s ≠ .error .panic := by
  induction l generalizing s with
  | nil => simp [cascadeLoop]
  | cons j rest ih =>
    simp only [cascadeLoop]
    split
    · exact ih hi hb hc
    · next hskip =>
      simp only [Bool.or_eq_true, List.contains_eq_mem, decide_eq_true_eq, Bool.not_eq_true', not_or] at hskip
      cases hdj : del s j with
      | error x =>
        simp only
        intro hx
        cases hx
        exact hnp s j hi hb hskip.1 hc hdj
      | ok s1 =>
        simp only
        obtain ⟨p, hs⟩ := hd s j s1 hi hb hdj
        exact ih p.core p.boss (Nat.lt_of_le_of_lt (liveCnt_sublist hs) hc)

/-- **Termination within the fuel.**  In a consistent state, a delete whose fuel exceeds the number
    of entities not already in progress never runs out of it. -/
theorem deleteA_noPanic (fuel : Nat) : ∀ (busy : List Id) (s : State) (id : Id), InvCore s → BossOK busy s → id ∉ busy →
    liveCnt busy s.a < fuel → deleteA fuel busy s id ≠ .error .panic := by
  induction fuel with
  | zero => intro busy s id _ _ _ h; omega
  | succ fuel ih =>
    intro busy s id hi hb hnb hc
    have hb' : BossOK (markBusy busy id) s := bossOK_mono hb (fun k hk => (mem_markBusy busy id k).2 (Or.inr hk))
    unfold deleteA
    split
    · simp
    · next hid =>
      split
      · simp
      · next e hold =>
        have hroles : [] ∉ e.roles := hi.rolesNonEmpty id e hold
        have hc' : liveCnt (markBusy busy id) s.a < fuel := by
          have := liveCnt_mark hold hnb
          omega
        -- the first cascade
        have hfirst : cascadeBoss (deleteA fuel) busy s id ≠ .error .panic := by
          unfold cascadeBoss
          exact cascadeLoop_noPanic (fun t j t' ht hbt hdel =>
            ⟨deleteA_spec fuel _ t j t' ht hbt hdel, deleteA_sublist fuel _ t j t' ht hbt hdel⟩)
            (fun t j ht hbt hj hcj => ih _ t j ht hbt hj hcj) _ hi hb' hc'
        simp only [bind, Except.bind, pure, Except.pure]
        cases hcode : e.code with
        | none =>
          simp only [Option.isSome_none, Bool.false_eq_true, if_false]
          cases hcc : chiefCheck s id with
          | error x => simp only; intro hx; cases hx; exact chiefCheck_noPanic hcc
          | ok u0 =>
          simp only
          cases hcb : cascadeBoss (deleteA fuel) busy s id with
          | error x => simp only; intro hx; cases hx; exact hfirst hcb
          | ok s0 =>
            simp only
            obtain ⟨_, _, _, _, _, c6, c7, c8⟩ := cascadeBoss_spec (deleteA_spec fuel) hi hb' hcb
            have hold0 : s0.a.lookup id = some e := by
              rw [c8 id ((mem_markBusy busy id id).2 (Or.inl rfl))]; exact hold
            cases hbd : beforeDeleteA s0 id with
            | error x =>
              simp only; intro hx; cases hx
              exact beforeDeleteA_noPanic (by simpa [hold0, evRoles] using hroles) hbd
            | ok tx =>
              simp only
              rw [chiefCheck_mono (t := { tx with uColour := uniqueBeforeDelete (evColour (some e)) tx.uColour }) hcc
                (fun j e' hj => c6 j e' (by rw [← beforeDeleteA_a hbd]; exact hj))]
              simp only
              rw [cascadeBoss_skip (s0 := s0)
                (t := { tx with uColour := uniqueBeforeDelete (evColour (some e)) tx.uColour })
                (show tx.a = s0.a from beforeDeleteA_a hbd) c7]
              simp only
              cases hbd2 : beforeDeleteA ({ tx with uColour := uniqueBeforeDelete (evColour (some e)) tx.uColour } : State) id with
              | error x =>
                simp only; intro hx; cases hx
                refine beforeDeleteA_noPanic ?_ hbd2
                show [] ∉ evRoles (tx.a.lookup id)
                rw [beforeDeleteA_a hbd, hold0]; exact hroles
              | ok s2 => simp
        | some c =>
          simp only [Option.isSome_some, if_true]
          cases hcc : chiefCheck s id with
          | error x => simp only; intro hx; cases hx; exact chiefCheck_noPanic hcc
          | ok u0 =>
          simp only
          cases hcb : cascadeBoss (deleteA fuel) busy s id with
          | error x => simp only; intro hx; cases hx; exact hfirst hcb
          | ok s0 =>
            simp only
            obtain ⟨_, _, _, _, _, c6, c7, c8⟩ := cascadeBoss_spec (deleteA_spec fuel) hi hb' hcb
            have hold0 : s0.a.lookup id = some e := by
              rw [c8 id ((mem_markBusy busy id id).2 (Or.inl rfl))]; exact hold
            cases hbd : beforeDeleteA s0 id with
            | error x =>
              simp only; intro hx; cases hx
              exact beforeDeleteA_noPanic (by simpa [hold0, evRoles] using hroles) hbd
            | ok t =>
              simp only
              have hta : t.a = s0.a := beforeDeleteA_a hbd
              rw [chiefCheck_mono (t := { t with uCode := uniqueBeforeDelete (evCode (some e)) t.uCode, p := t.p.cleanFwd t.bEx id }) hcc
                (fun j e' hj => c6 j e' (by rw [← hta]; exact hj))]
              simp only
              rw [cascadeBoss_skip (s0 := s0)
                (t := { t with uCode := uniqueBeforeDelete (evCode (some e)) t.uCode, p := t.p.cleanFwd t.bEx id }) hta c7]
              simp only
              cases hbd2 : beforeDeleteA ({ t with uCode := uniqueBeforeDelete (evCode (some e)) t.uCode, p := t.p.cleanFwd t.bEx id } : State) id with
              | error x =>
                simp only; intro hx; cases hx
                refine beforeDeleteA_noPanic ?_ hbd2
                show [] ∉ evRoles (t.a.lookup id)
                rw [hta, hold0]; exact hroles
              | ok tx =>
                simp only
                have htxa : tx.a = s0.a := (beforeDeleteA_a hbd2).trans hta
                rw [chiefCheck_mono (t := { tx with uColour := uniqueBeforeDelete (evColour (some e)) tx.uColour }) hcc
                  (fun j e' hj => c6 j e' (by rw [← htxa]; exact hj))]
                simp only
                rw [cascadeBoss_skip (s0 := s0)
                  (t := { tx with uColour := uniqueBeforeDelete (evColour (some e)) tx.uColour })
                  (show tx.a = s0.a from htxa) c7]
                simp only
                cases hbd3 : beforeDeleteA ({ tx with uColour := uniqueBeforeDelete (evColour (some e)) tx.uColour } : State) id with
                | error x =>
                  simp only; intro hx; cases hx
                  refine beforeDeleteA_noPanic ?_ hbd3
                  show [] ∉ evRoles (tx.a.lookup id)
                  rw [htxa, hold0]; exact hroles
                | ok s2 => simp

/-- a delete issued by the caller never runs out of fuel: the cascade terminates on every
    reference structure, cycles included -/
theorem deleteATop_noPanic {s : State} (id : Id) (hi : InvCore s) (hb : BossOK [] s) :
    deleteATop s id ≠ .error .panic :=
  deleteA_noPanic _ [] s id hi hb (by simp) (Nat.lt_succ_of_le (liveCnt_le_length [] s.a))

end StorageModel.C06
