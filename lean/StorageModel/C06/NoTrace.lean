import StorageModel.C06.Inv
/-
  C06: in a consistent state, an id that is not an entity of either store does not occur anywhere
  in the bucket dump; in particular not after a committed delete.
-/
namespace StorageModel.C06
open StorageModel
open StorageModel.C03 (Map Id Err setInsert setErase setOf UI SI NEK Line typed nilField bU bIndexes bThings bName bAlias bRoles)

/-- `x` could be mistaken for the id: equal to it, to its typed form, or its typed form equals the id -/
def Clash (id x : Bytes) : Prop := x = id ∨ x = typed id ∨ typed x = id

/-- the id is not confusable with any bucket name, stored value or other entity id of the state
    (`boltz.ValidateDeleted` compares raw bytes, so this is the side condition under which "no
    trace" is meaningful) -/
structure NoClash (nm : Names) (id : Id) (s : State) : Prop where
  ne : id ≠ []
  reserved : ∀ x, x ∈ reserved nm → ¬ Clash id x
  nil : ¬ Clash id nilField
  aIds : ∀ j e, s.a.lookup j = some e → j ≠ id → ¬ Clash id j
  bIds : ∀ j e, s.b.lookup j = some e → j ≠ id → ¬ Clash id j
  name : ∀ j e, s.a.lookup j = some e → ¬ Clash id e.name
  alias : ∀ j e a, s.a.lookup j = some e → e.alias = some a → ¬ Clash id a
  roles : ∀ j e r, s.a.lookup j = some e → r ∈ e.roles → ¬ Clash id r
  /-- the stored form of an empty string (a lone type byte) is not the id -/
  empty : ¬ Clash id []
  /-- the id is not an encoded link count (5 bytes starting with the int32 type byte) -/
  counts : ∀ n, ¬ Clash id (encCount n)
  code : ∀ j e c, s.a.lookup j = some e → e.code = some c → ¬ Clash id c
  colour : ∀ j e c, s.a.lookup j = some e → e.colour = some c → ¬ Clash id c
  label : ∀ j e l, s.b.lookup j = some e → e.label = some l → ¬ Clash id l
  /-- the stored form of a typed field (its `FieldType` byte, then the raw bytes) is not the id -/
  aliasT : ∀ j e a, s.a.lookup j = some e → e.alias = some a → tagged nm.aliasTy a ≠ id
  codeT : ∀ j e c, s.a.lookup j = some e → e.code = some c → tagged nm.codeTy c ≠ id
  colourT : ∀ j e c, s.a.lookup j = some e → e.colour = some c → tagged nm.colourTy c ≠ id
  labelT : ∀ j e l, s.b.lookup j = some e → e.label = some l → tagged nm.labelTy l ≠ id

/-- a byte string that is neither the id nor its typed form -/
def Safe (id x : Bytes) : Prop := x ≠ id ∧ x ≠ typed id

theorem safe_of_not_clash {id x : Bytes} (h : ¬ Clash id x) : Safe id x :=
  ⟨fun e => h (Or.inl e), fun e => h (Or.inr (Or.inl e))⟩

theorem safe_typed {id x : Bytes} (h : ¬ Clash id x) : Safe id (typed x) :=
  ⟨fun e => h (Or.inr (Or.inr e)), fun e => h (Or.inl (by simpa [typed] using e))⟩

/-- the stored form under any type byte: not the id, and its typed form only if the raw bytes are the id -/
theorem safe_tagged {id x : Bytes} {t : UInt8} (h : ¬ Clash id x) (ht : tagged t x ≠ id) : Safe id (tagged t x) :=
  ⟨ht, fun e => h (Or.inl (by simp only [tagged, typed, List.cons.injEq] at e; exact e.2))⟩

theorem safe_optFieldT {id : Bytes} {t : UInt8} {o : Option Bytes} (hn : ¬ Clash id nilField)
    (h : ∀ v, o = some v → ¬ Clash id v) (ht : ∀ v, o = some v → tagged t v ≠ id) : Safe id (optFieldT t o) := by
  cases o with
  | none => exact safe_of_not_clash hn
  | some v => exact safe_tagged (h v rfl) (ht v rfl)

theorem safe_nil {id : Bytes} (h : id ≠ []) : Safe id [] := ⟨fun e => h e.symm, by simp [typed]⟩

theorem safe_optField {id : Bytes} {o : Option Bytes} (hn : ¬ Clash id nilField) (h : ∀ v, o = some v → ¬ Clash id v) :
    Safe id (optField o) := by
  cases o with
  | none => exact safe_of_not_clash hn
  | some v => exact safe_typed (h v rfl)

theorem not_mentions_bucket {id : Bytes} {path : List Bytes} (h : ∀ x, x ∈ path → Safe id x) :
    ¬ Mentions id (.bucket path) := by
  rintro (h1 | h1)
  · exact (h _ h1).1 rfl
  · exact (h _ h1).2 rfl

theorem not_mentions_kv {id : Bytes} {path : List Bytes} {k v : Bytes} (h : ∀ x, x ∈ path → Safe id x)
    (hk : Safe id k) (hv : Safe id v) : ¬ Mentions id (.kv path k v) := by
  rintro (h1 | h1 | h1 | h1 | h1 | h1)
  · exact (h _ h1).1 rfl
  · exact (h _ h1).2 rfl
  · exact hk.1 h1
  · exact hk.2 h1
  · exact hv.1 h1
  · exact hv.2 h1

theorem not_mentions_listBucket {id : Bytes} {path keys : List Bytes} (hne : id ≠ []) (h : ∀ x, x ∈ path → Safe id x)
    (hk : ∀ k, k ∈ keys → ¬ Clash id k) : ∀ l, l ∈ listBucket path keys → ¬ Mentions id l := by
  intro l hl
  simp only [listBucket, List.mem_cons, List.mem_map] at hl
  rcases hl with rfl | ⟨k, hk', rfl⟩
  · exact not_mentions_bucket h
  · exact not_mentions_kv h (safe_typed (hk k hk')) (safe_nil hne)

theorem not_mentions_countBucket {id : Bytes} {path : List Bytes} {c : Counts} (h : ∀ x, x ∈ path → Safe id x)
    (hk : ∀ k n, c.lookup k = some n → ¬ Clash id k) (hv : ∀ n, ¬ Clash id (encCount n)) :
    ∀ l, l ∈ countBucket path c → ¬ Mentions id l := by
  intro l hl
  simp only [countBucket, List.mem_cons, List.mem_map, Prod.exists, Map.mem_entries_iff] at hl
  rcases hl with rfl | ⟨k, n, hkn, rfl⟩
  · exact not_mentions_bucket h
  · exact not_mentions_kv h (safe_typed (hk k n hkn)) (safe_of_not_clash (hv n))

theorem mem_optBucket {α : Type} {f : α → List Line} {o : Option α} {l : Line} :
    l ∈ optBucket f o ↔ ∃ x, o = some x ∧ l ∈ f x := by
  cases o <;> simp [optBucket]

theorem LinkInv.fwd_target {p : LinkPair} {aEx bEx : Id → Bool} (h : LinkInv p aEx bEx) {j b : Id} {l : List Id}
    (hl : p.fwd.lookup j = some l) (hb : b ∈ l) : bEx b = true := by
  have h1 := (h.sym j b).1 (by simp [hl, hb])
  cases hm : p.bwd.lookup b with
  | none => simp [hm] at h1
  | some ms => exact h.bwdDom b ms hm

theorem LinkInv.bwd_source {p : LinkPair} {aEx bEx : Id → Bool} (h : LinkInv p aEx bEx) {j b : Id} {l : List Id}
    (hl : p.bwd.lookup b = some l) (hj : j ∈ l) : aEx j = true := by
  have h1 := (h.sym j b).2 (by simp [hl, hj])
  cases hm : p.fwd.lookup j with
  | none => simp [hm] at h1
  | some gs => exact h.fwdDom j gs hm

theorem RcInv.fwd_target {r : RcPair} {aEx bEx : Id → Bool} (h : RcInv r aEx bEx) {a b : Id} {c : Counts} {n : Nat}
    (hc : r.fwd.lookup a = some c) (hn : c.lookup b = some n) : bEx b = true := by
  have h1 : cnt r.bwd b a = some n := by rw [← h.agree]; simp [cnt, hc, hn]
  cases hm : r.bwd.lookup b with
  | none => simp [cnt, hm] at h1
  | some cb => exact h.bwdDom b cb hm

theorem RcInv.bwd_source {r : RcPair} {aEx bEx : Id → Bool} (h : RcInv r aEx bEx) {a b : Id} {c : Counts} {n : Nat}
    (hc : r.bwd.lookup b = some c) (hn : c.lookup a = some n) : aEx a = true := by
  have h1 : cnt r.fwd a b = some n := by rw [h.agree]; simp [cnt, hc, hn]
  cases hm : r.fwd.lookup a with
  | none => simp [cnt, hm] at h1
  | some ca => exact h.fwdDom a ca hm

theorem safe_reserved {nm : Names} {id : Bytes} {s : State} (hc : NoClash nm id s) {x : Bytes} (hx : x ∈ reserved nm) : Safe id x :=
  safe_of_not_clash (hc.reserved x hx)

/-- **No trace of an absent id.**  In a consistent state every line of the bucket dump is made of
    bucket names, values and ids of *existing* entities only. -/
theorem no_trace_of_absent {nm : Names} {s : State} {id : Id} (hi : Inv s) (hc : NoClash nm id s)
    (hna : s.a.lookup id = none) (hnb : s.b.lookup id = none) :
    ∀ l, l ∈ Render nm s → ¬ Mentions id l := by
  have aId : ∀ j e, s.a.lookup j = some e → ¬ Clash id j := fun j e hj =>
    hc.aIds j e hj (by rintro rfl; rw [hna] at hj; cases hj)
  have bId : ∀ j e, s.b.lookup j = some e → ¬ Clash id j := fun j e hj =>
    hc.bIds j e hj (by rintro rfl; rw [hnb] at hj; cases hj)
  have sU : Safe id bU := safe_reserved hc (by simp [reserved])
  have sI : Safe id bIndexes := safe_reserved hc (by simp [reserved])
  have sT : Safe id bThings := safe_reserved hc (by simp [reserved])
  have sO : Safe id bOwners := safe_reserved hc (by simp [reserved])
  have sN : Safe id nm.nameSym := safe_reserved hc (by simp [reserved])
  have sA : Safe id nm.aliasSym := safe_reserved hc (by simp [reserved])
  have sNk : Safe id nm.nameKey := safe_reserved hc (by simp [reserved])
  have sAk : Safe id nm.aliasKey := safe_reserved hc (by simp [reserved])
  have sR : Safe id bRoles := safe_reserved hc (by simp [reserved])
  have sOw : Safe id bOwner := safe_reserved hc (by simp [reserved])
  have sG : Safe id bGroups := safe_reserved hc (by simp [reserved])
  have sE : Safe id bExt1 := safe_reserved hc (by simp [reserved])
  have sC : Safe id bCode := safe_reserved hc (by simp [reserved])
  have sE2 : Safe id bExt2 := safe_reserved hc (by simp [reserved])
  have sCo : Safe id bColour := safe_reserved hc (by simp [reserved])
  have sL : Safe id bLabel := safe_reserved hc (by simp [reserved])
  have sM : Safe id bMembers := safe_reserved hc (by simp [reserved])
  have sD : Safe id bDep := safe_reserved hc (by simp [reserved])
  have sBo : Safe id bBoss := safe_reserved hc (by simp [reserved])
  have sCh : Safe id bChief := safe_reserved hc (by simp [reserved])
  have sP : Safe id bPals := safe_reserved hc (by simp [reserved])
  have sPO : Safe id bPalsOf := safe_reserved hc (by simp [reserved])
  have sRB : Safe id bRcB := safe_reserved hc (by simp [reserved])
  have sRA : Safe id bRcA := safe_reserved hc (by simp [reserved])
  have sPe : Safe id bPeers := safe_reserved hc (by simp [reserved])
  have sMo : Safe id bMentors := safe_reserved hc (by simp [reserved])
  have sMe : Safe id bMentees := safe_reserved hc (by simp [reserved])
  have aOf : ∀ j, s.aEx j = true → ∃ e, s.a.lookup j = some e := by
    intro j hj; cases hl : s.a.lookup j with
    | none => simp [State.aEx, hl] at hj
    | some e => exact ⟨e, rfl⟩
  have bOf : ∀ j, s.bEx j = true → ∃ e, s.b.lookup j = some e := by
    intro j hj; cases hl : s.b.lookup j with
    | none => simp [State.bEx, hl] at hj
    | some e => exact ⟨e, rfl⟩
  have cOf : ∀ j, s.cEx j = true → ∃ e, s.a.lookup j = some e := by
    intro j hj; cases hl : s.a.lookup j with
    | none => simp [State.cEx, hl] at hj
    | some e => exact ⟨e, rfl⟩
  -- a stored reference (owner, dep, boss) is empty or names an existing entity: never the absent id
  have refB : ∀ (o : Option Bytes), (o.getD [] ≠ [] → s.bEx (o.getD []) = true) → ∀ v, o = some v → ¬ Clash id v := by
    intro o h v hv
    subst hv
    by_cases hz : v = []
    · subst hz; exact hc.empty
    · obtain ⟨eb, hb⟩ := bOf v (h hz); exact bId v eb hb
  have refA : ∀ (o : Option Bytes), (o.getD [] ≠ [] → s.aEx (o.getD []) = true) → ∀ v, o = some v → ¬ Clash id v := by
    intro o h v hv
    subst hv
    by_cases hz : v = []
    · subst hz; exact hc.empty
    · obtain ⟨ea, ha⟩ := aOf v (h hz); exact aId v ea ha
  intro l hl
  simp only [Render, List.mem_append, List.mem_flatMap, Prod.exists, Map.mem_entries_iff] at hl
  rcases hl with (((((((((hl | hl) | hl) | ⟨j, e, hj, hl⟩) | ⟨j, e, hj, hl⟩) | ⟨v, i, hv, hl⟩) | ⟨v, i, hv, hl⟩) |
    ⟨v, i, hv, hl⟩) | ⟨v, i, hv, hl⟩) | ⟨v, i, hv, hl⟩) | ⟨v, ids, hv, hl⟩
  · -- fixed buckets
    simp only [fixedLines, idxPathA, idxPathB, List.mem_cons, List.mem_nil_iff, or_false] at hl
    rcases hl with rfl | rfl | rfl | rfl | rfl | rfl | rfl | rfl | rfl | rfl <;>
      (apply not_mentions_bucket; intro x hx; simp only [List.mem_cons, List.mem_nil_iff, or_false] at hx;
       rcases hx with rfl | rfl | rfl | rfl <;> assumption)
  · split at hl
    · simp only [List.mem_singleton] at hl; subst hl
      apply not_mentions_bucket; intro x hx; simp only [List.mem_cons, List.mem_nil_iff, or_false] at hx
      rcases hx with rfl | rfl <;> assumption
    · cases hl
  · split at hl
    · simp only [List.mem_singleton] at hl; subst hl
      apply not_mentions_bucket; intro x hx; simp only [List.mem_cons, List.mem_nil_iff, or_false] at hx
      rcases hx with rfl | rfl <;> assumption
    · cases hl
  · -- an A entity
    have sj : Safe id j := safe_of_not_clash (aId j e hj)
    have hp : ∀ x, x ∈ pathA j → Safe id x := by
      intro x hx; simp only [pathA, List.mem_cons, List.mem_nil_iff, or_false] at hx
      rcases hx with rfl | rfl | rfl <;> assumption
    have hp2 : ∀ (n : Bytes), Safe id n → ∀ x, x ∈ pathA j ++ [n] → Safe id x := by
      intro n hn x hx; simp only [List.mem_append, List.mem_singleton] at hx
      rcases hx with hx | rfl
      · exact hp x hx
      · exact hn
    have hp3 : ∀ (n m : Bytes), Safe id n → Safe id m → ∀ x, x ∈ pathA j ++ [n, m] → Safe id x := by
      intro n m hn hm x hx; simp only [List.mem_append, List.mem_cons, List.mem_nil_iff, or_false] at hx
      rcases hx with hx | rfl | rfl
      · exact hp x hx
      · exact hn
      · exact hm
    simp only [renderA, List.mem_append, List.mem_cons, List.mem_nil_iff, or_false, mem_optBucket] at hl
    rcases hl with ((((((((rfl | rfl | rfl | rfl | rfl | rfl | rfl) | hl) | ⟨gs, hg, hl⟩) | ⟨c, hrc, hl⟩) | ⟨ps, hpe, hl⟩) |
      ⟨ms, hmo, hl⟩) | ⟨ms, hme, hl⟩) | hl) | hl
    · exact not_mentions_bucket hp
    · exact not_mentions_kv hp sNk (safe_typed (hc.name j e hj))
    · exact not_mentions_kv hp sAk (safe_optFieldT hc.nil (fun a ha => hc.alias j e a hj ha) (fun a ha => hc.aliasT j e a hj ha))
    · exact not_mentions_kv hp sOw (safe_optField hc.nil (refB e.owner (hi.ownerExists j e hj)))
    · exact not_mentions_kv hp sD (safe_optField hc.nil (refB e.dep (hi.depExists j e hj)))
    · exact not_mentions_kv hp sBo (safe_optField hc.nil (refA e.boss (fun hne => hi.boss.boss j e hj hne (by simp))))
    · exact not_mentions_kv hp sCh (safe_optField hc.nil (refA e.chief (fun hne => hi.boss.chief j e hj hne)))
    · exact not_mentions_listBucket hc.ne (hp2 _ sR) (fun r hr => hc.roles j e r hj hr) l hl
    · refine not_mentions_listBucket hc.ne (hp2 _ sG) ?_ l hl
      intro g hgm
      obtain ⟨eb, hb⟩ := bOf g (hi.g.fwd_target hg hgm)
      exact bId g eb hb
    · refine not_mentions_countBucket (hp2 _ sRB) ?_ hc.counts l hl
      intro k n hkn
      obtain ⟨eb, hb⟩ := bOf k (hi.rc.fwd_target hrc hkn)
      exact bId k eb hb
    · refine not_mentions_listBucket hc.ne (hp2 _ sPe) ?_ l hl
      intro k hkm
      obtain ⟨ea, ha⟩ := aOf k (hi.pe.member hpe hkm)
      exact aId k ea ha
    · refine not_mentions_listBucket hc.ne (hp2 _ sMo) ?_ l hl
      intro k hkm
      obtain ⟨ea, ha⟩ := aOf k (hi.mt.fwd_target hmo hkm)
      exact aId k ea ha
    · refine not_mentions_listBucket hc.ne (hp2 _ sMe) ?_ l hl
      intro k hkm
      obtain ⟨ea, ha⟩ := aOf k (hi.mt.bwd_source hme hkm)
      exact aId k ea ha
    · cases hcd : e.code with
      | none => simp [hcd] at hl
      | some c =>
        simp only [hcd, List.mem_append, List.mem_cons, List.mem_nil_iff, or_false, mem_optBucket] at hl
        rcases hl with (rfl | rfl) | ⟨ps, hps, hl⟩
        · exact not_mentions_bucket (hp2 _ sE)
        · exact not_mentions_kv (hp2 _ sE) sC (safe_tagged (hc.code j e c hj hcd) (hc.codeT j e c hj hcd))
        · refine not_mentions_listBucket hc.ne (hp3 _ _ sE sP) ?_ l hl
          intro g hgm
          obtain ⟨eb, hb⟩ := bOf g (hi.p.fwd_target hps hgm)
          exact bId g eb hb
    · cases hcd : e.colour with
      | none => simp [hcd] at hl
      | some c =>
        simp only [hcd, List.mem_cons, List.mem_nil_iff, or_false] at hl
        rcases hl with rfl | rfl
        · exact not_mentions_bucket (hp2 _ sE2)
        · exact not_mentions_kv (hp2 _ sE2) sCo (safe_tagged (hc.colour j e c hj hcd) (hc.colourT j e c hj hcd))
  · -- a B entity
    have sj : Safe id j := safe_of_not_clash (bId j e hj)
    have hp : ∀ x, x ∈ pathB j → Safe id x := by
      intro x hx; simp only [pathB, List.mem_cons, List.mem_nil_iff, or_false] at hx
      rcases hx with rfl | rfl | rfl <;> assumption
    have hp2 : ∀ (n : Bytes), Safe id n → ∀ x, x ∈ pathB j ++ [n] → Safe id x := by
      intro n hn x hx; simp only [List.mem_append, List.mem_singleton] at hx
      rcases hx with hx | rfl
      · exact hp x hx
      · exact hn
    simp only [renderB, List.mem_append, List.mem_cons, List.mem_nil_iff, or_false, mem_optBucket] at hl
    rcases hl with ((((rfl | rfl) | ⟨ms, hm, hl⟩) | ⟨ps, hps, hl⟩) | ⟨c, hrc, hl⟩) | ⟨ts, ht, hl⟩
    · exact not_mentions_bucket hp
    · exact not_mentions_kv hp sL (safe_optFieldT hc.nil (fun l hl => hc.label j e l hj hl) (fun l hl => hc.labelT j e l hj hl))
    · refine not_mentions_listBucket hc.ne (hp2 _ sM) ?_ l hl
      intro m hmm
      obtain ⟨ea, ha⟩ := aOf m (hi.g.bwd_source hm hmm)
      exact aId m ea ha
    · refine not_mentions_listBucket hc.ne (hp2 _ sPO) ?_ l hl
      intro m hmm
      obtain ⟨ea, ha⟩ := cOf m (hi.p.bwd_source hps hmm)
      exact aId m ea ha
    · refine not_mentions_countBucket (hp2 _ sRA) ?_ hc.counts l hl
      intro k n hkn
      obtain ⟨ea, ha⟩ := aOf k (hi.rc.bwd_source hrc hkn)
      exact aId k ea ha
    · refine not_mentions_listBucket hc.ne (hp2 _ sT) ?_ l hl
      intro t htm
      obtain ⟨_, ea, ha, _⟩ := (hi.br j t).1 (by simp [ht, htm])
      exact aId t ea ha
  · -- unique index on name
    simp only [renderUnique, List.mem_singleton] at hl; subst hl
    obtain ⟨_, e, he, rfl⟩ := (hi.uName v i).1 hv
    refine not_mentions_kv ?_ (safe_of_not_clash (hc.name i e he)) (safe_of_not_clash (aId i e he))
    intro x hx; simp only [idxPathA, List.mem_cons, List.mem_nil_iff, or_false] at hx
    rcases hx with rfl | rfl | rfl | rfl <;> assumption
  · simp only [renderUnique, List.mem_singleton] at hl; subst hl
    obtain ⟨hne, e, he, hv'⟩ := (hi.uAlias v i).1 hv
    have hcl : ¬ Clash id v := by
      cases ha : e.alias with
      | none => simp [ha] at hv'; exact absurd hv' hne
      | some a => simp [ha] at hv'; subst hv'; exact hc.alias i e a he ha
    refine not_mentions_kv ?_ (safe_of_not_clash hcl) (safe_of_not_clash (aId i e he))
    intro x hx; simp only [idxPathA, List.mem_cons, List.mem_nil_iff, or_false] at hx
    rcases hx with rfl | rfl | rfl | rfl <;> assumption
  · simp only [renderUnique, List.mem_singleton] at hl; subst hl
    obtain ⟨hne, e, he, hv'⟩ := (hi.uCode v i).1 hv
    have hcl : ¬ Clash id v := by
      cases ha : e.code with
      | none => simp [ha] at hv'; exact absurd hv' hne
      | some a => simp [ha] at hv'; subst hv'; exact hc.code i e a he ha
    refine not_mentions_kv ?_ (safe_of_not_clash hcl) (safe_of_not_clash (aId i e he))
    intro x hx; simp only [idxPathA, List.mem_cons, List.mem_nil_iff, or_false] at hx
    rcases hx with rfl | rfl | rfl | rfl <;> assumption
  · simp only [renderUnique, List.mem_singleton] at hl; subst hl
    obtain ⟨hne, e, he, hv'⟩ := (hi.uColour v i).1 hv
    have hcl : ¬ Clash id v := by
      cases ha : e.colour with
      | none => simp [ha] at hv'; exact absurd hv' hne
      | some a => simp [ha] at hv'; subst hv'; exact hc.colour i e a he ha
    refine not_mentions_kv ?_ (safe_of_not_clash hcl) (safe_of_not_clash (aId i e he))
    intro x hx; simp only [idxPathA, List.mem_cons, List.mem_nil_iff, or_false] at hx
    rcases hx with rfl | rfl | rfl | rfl <;> assumption
  · simp only [renderUnique, List.mem_singleton] at hl; subst hl
    obtain ⟨hne, e, he, hv'⟩ := (hi.uLabel v i).1 hv
    have hcl : ¬ Clash id v := by
      cases ha : e.label with
      | none => simp [ha] at hv'; exact absurd hv' hne
      | some a => simp [ha] at hv'; subst hv'; exact hc.label i e a he ha
    refine not_mentions_kv ?_ (safe_of_not_clash hcl) (safe_of_not_clash (bId i e he))
    intro x hx; simp only [idxPathB, List.mem_cons, List.mem_nil_iff, or_false] at hx
    rcases hx with rfl | rfl | rfl | rfl <;> assumption
  · -- set index on roles
    simp only [renderSetKey] at hl
    have hne := hi.nek v ids hv
    obtain ⟨i0, hi0⟩ := List.exists_mem_of_ne_nil ids hne
    obtain ⟨e0, he0, hr0⟩ := (hi.sRoles v i0).1 (by simp [hv, hi0])
    have sv : Safe id v := safe_of_not_clash (hc.roles i0 e0 v he0 hr0)
    refine not_mentions_listBucket hc.ne ?_ ?_ l hl
    · intro x hx; simp only [idxPathA, List.mem_append, List.mem_cons, List.mem_nil_iff, or_false] at hx
      rcases hx with (rfl | rfl | rfl | rfl) | rfl <;> assumption
    · intro i hii
      obtain ⟨e, he, _⟩ := (hi.sRoles v i).1 (by simp [hv, hii])
      exact aId i e he

end StorageModel.C06

namespace StorageModel.C06
open StorageModel
open StorageModel.C03 (Map Id typed nilField)

instance (id x : Bytes) : Decidable (Clash id x) := by unfold Clash; exact inferInstance

/-- executable sufficient check for `NoClash` (used for the non-vacuity examples) -/
def noClashCheck (nm : Names) (id : Id) (s : State) : Bool :=
  decide (id ≠ []) && decide (id.length < 5) && (reserved nm).all (fun x => decide (¬ Clash id x)) && decide (¬ Clash id nilField) &&
  decide (¬ Clash id []) &&
  s.a.entries.all (fun p =>
    (decide (p.1 = id) || decide (¬ Clash id p.1)) && decide (¬ Clash id p.2.name) &&
    (match p.2.alias with | some a => decide (¬ Clash id a ∧ tagged nm.aliasTy a ≠ id) | none => true) &&
    p.2.roles.all (fun r => decide (¬ Clash id r)) &&
    (match p.2.code with | some c => decide (¬ Clash id c ∧ tagged nm.codeTy c ≠ id) | none => true) &&
    (match p.2.colour with | some c => decide (¬ Clash id c ∧ tagged nm.colourTy c ≠ id) | none => true)) &&
  s.b.entries.all (fun p =>
    (decide (p.1 = id) || decide (¬ Clash id p.1)) &&
    (match p.2.label with | some l => decide (¬ Clash id l ∧ tagged nm.labelTy l ≠ id) | none => true))

theorem counts_no_clash {id : Id} (h : id.length < 5) (n : Nat) : ¬ Clash id (encCount n) := by
  rintro (h1 | h1 | h1)
  · rw [← h1] at h; simp [encCount] at h
  · simp [encCount, typed] at h1
  · rw [← h1] at h; simp [encCount, typed] at h

theorem noClash_of_check {nm : Names} {id : Id} {s : State} (h : noClashCheck nm id s = true) : NoClash nm id s := by
  simp only [noClashCheck, Bool.and_eq_true, decide_eq_true_eq, List.all_eq_true, Bool.or_eq_true, Prod.forall,
    Map.mem_entries_iff] at h
  obtain ⟨⟨⟨⟨⟨⟨h1, h0⟩, h2⟩, h3⟩, h6⟩, h4⟩, h5⟩ := h
  refine ⟨h1, h2, h3, ?_, ?_, ?_, ?_, ?_, h6, counts_no_clash h0, ?_, ?_, ?_, ?_, ?_, ?_, ?_⟩
  · intro j e hj hne
    rcases (h4 j e hj).1.1.1.1.1 with h | h
    · exact absurd h hne
    · exact h
  · intro j e hj hne
    rcases (h5 j e hj).1 with h | h
    · exact absurd h hne
    · exact h
  · intro j e hj; exact (h4 j e hj).1.1.1.1.2
  · intro j e a hj ha; have := (h4 j e hj).1.1.1.2; simp only [ha, decide_eq_true_eq] at this; exact this.1
  · intro j e r hj hr; exact (h4 j e hj).1.1.2 r hr
  · intro j e c hj hc; have := (h4 j e hj).1.2; simp only [hc, decide_eq_true_eq] at this; exact this.1
  · intro j e c hj hc; have := (h4 j e hj).2; simp only [hc, decide_eq_true_eq] at this; exact this.1
  · intro j e l hj hl; have := (h5 j e hj).2; simp only [hl, decide_eq_true_eq] at this; exact this.1
  · intro j e a hj ha; have := (h4 j e hj).1.1.1.2; simp only [ha, decide_eq_true_eq] at this; exact this.2
  · intro j e c hj hc; have := (h4 j e hj).1.2; simp only [hc, decide_eq_true_eq] at this; exact this.2
  · intro j e c hj hc; have := (h4 j e hj).2; simp only [hc, decide_eq_true_eq] at this; exact this.2
  · intro j e l hj hl; have := (h5 j e hj).2; simp only [hl, decide_eq_true_eq] at this; exact this.2

end StorageModel.C06
