import StorageModel.C06.Model
/-
  C06, layering depth: the delete orchestration of `BaseStore.DeleteById` over a TREE of stores of any
  depth, as the code has it:

  * `DeleteById` of a child store hands over to its parent, up to the root (`rootOf`);
  * the root fans out over ITS OWN `childStoreStrategies` only (`visited`: the stores registered with the
    root for which `changeFlow.init` finds the entity - own data, or the parent's data for an extended
    store - and then the root itself);
  * `processDeleteConstraints` of a visited store runs `ProcessBeforeDelete` of its indexing context, which
    is chained to its parent's, up to the root (`chain`), then `cleanupLinks` of the visited store only;
  * `DeleteEntity` of the root bucket removes every nested data bucket (`dropData`).

  State: the data buckets `(store, id) ↦ Vals` and ONE table of index-like entries
  `(kind, declaring store, key, id)`: unique index `value ↦ id`, set index `value / id`, far side of a link
  collection `owner / id`, back-reference of an fk index `owner / id`.
-/
namespace StorageModel.C06.Depth
open StorageModel
open StorageModel.C03 (Id Err Line setOf typed nilField bU bIndexes)

inductive Kind | u | s | l | f
  deriving DecidableEq, Repr

structure StoreCfg where
  parent : Option Nat := none
  /-- the stores whose `childStoreStrategies` contain this store -/
  regWith : List Nat := []
  extended : Bool := false
  /-- entity path below the entity bucket -/
  path : List Bytes := []
  tag : UInt8 := 48
  uniq : Bool := false
  set : Bool := false
  link : Bool := false
  fk : Bool := false
  deriving DecidableEq, Repr

instance : Inhabited StoreCfg := ⟨{}⟩

abbrev Cfg := List StoreCfg

def getC (cfg : Cfg) (j : Nat) : StoreCfg := cfg.getD j {}

def StoreCfg.declares (c : StoreCfg) : Kind → Bool
  | .u => c.uniq | .s => c.set | .l => c.link | .f => c.fk

def StoreCfg.declaresAny (c : StoreCfg) : Bool := c.uniq || c.set || c.link || c.fk

structure Vals where
  u : Option Bytes := none
  s : List Bytes := []
  l : List Id := []
  f : Option Bytes := none
  deriving DecidableEq, Repr

structure Entry where
  kind : Kind
  store : Nat
  key : Bytes
  id : Id
  deriving DecidableEq, Repr

structure DState where
  data : List (Nat × Id × Vals) := []
  idx : List Entry := []
  deriving DecidableEq, Repr

def lookupData (s : DState) (j : Nat) (id : Id) : Option Vals :=
  (s.data.find? (fun d => d.1 == j && d.2.1 == id)).map (·.2.2)

def hasData (s : DState) (j : Nat) (id : Id) : Bool := (lookupData s j id).isSome

def chainAux (cfg : Cfg) : Nat → Nat → List Nat
  | 0, k => [k]
  | fuel + 1, k =>
    match (getC cfg k).parent with
    | none => [k]
    | some p => k :: chainAux cfg fuel p

/-- the store and its ancestors, the store first: the stores of its chained `IndexingContext` -/
def chain (cfg : Cfg) (k : Nat) : List Nat := chainAux cfg cfg.length k

def rootOf (cfg : Cfg) (k : Nat) : Nat := (chain cfg k).getLast?.getD k

/-- `FindById` / `changeFlow.init`: own data, or - extended store - the parent's -/
def found (cfg : Cfg) (s : DState) (j : Nat) (id : Id) : Bool :=
  hasData s j id ||
    ((getC cfg j).extended && match (getC cfg j).parent with
      | some p => hasData s p id
      | none => false)

/-- does the entry hold because of the stored values `v` -/
def holds (v : Vals) (k : Kind) (key : Bytes) : Bool :=
  match k with
  | .u => v.u == some key && !key.isEmpty
  | .s => v.s.contains key
  | .l => v.l.contains key
  | .f => v.f == some key && !key.isEmpty

/-- what `ProcessBeforeDelete` (kinds u s f) resp. `EntityDeleted` (kind l) of store `j` removes for row
    `id` with stored values `v`.  A unique index deletes the KEY, whichever id it maps to. -/
def kills (cfg : Cfg) (j : Nat) (id : Id) (v : Vals) (ks : List Kind) (e : Entry) : Bool :=
  e.store == j && ks.contains e.kind && (getC cfg j).declares e.kind && holds v e.kind e.key &&
    (e.kind == .u || e.id == id)

def removeFor (cfg : Cfg) (ks : List Kind) (id : Id) (s : DState) (j : Nat) : DState :=
  match lookupData s j id with
  | none => s
  | some v => { s with idx := s.idx.filter (fun e => !kills cfg j id v ks e) }

inductive Act
  | strip (j : Nat)   -- the constraints of store j: ProcessBeforeDelete
  | clean (j : Nat)   -- cleanupLinks of store j
  deriving DecidableEq, Repr

def runAct (cfg : Cfg) (id : Id) (s : DState) : Act → DState
  | .strip j => removeFor cfg [.u, .s, .f] id s j
  | .clean j => removeFor cfg [.l] id s j

/-- the stores whose `processDeleteConstraints` runs: the root's registered strategies, then the root -/
def visited (cfg : Cfg) (s : DState) (r : Nat) (id : Id) : List Nat :=
  (List.range cfg.length).filter (fun j => (getC cfg j).regWith.contains r && found cfg s j id) ++ [r]

def actsOf (cfg : Cfg) (v : Nat) : List Act := (chain cfg v).map Act.strip ++ [Act.clean v]

def plan (cfg : Cfg) (s : DState) (r : Nat) (id : Id) : List Act := (visited cfg s r id).flatMap (actsOf cfg)

def dropData (s : DState) (id : Id) : DState := { s with data := s.data.filter (fun d => d.2.1 != id) }

/-- `DeleteById` through store `k` -/
def deleteById (cfg : Cfg) (s : DState) (k : Nat) (id : Id) : Except Err DState :=
  let r := rootOf cfg k
  if hasData s r id then .ok (dropData ((plan cfg s r id).foldl (runAct cfg id) s) id)
  else .error .notFound

-- ---------------------------------------------------------------------------- writes (create / update)

def addE (e : Entry) (l : List Entry) : List Entry := if l.contains e then l else l ++ [e]

def bytesOf (o : Option Bytes) : Bytes := o.getD []

/-- index maintenance of store `j` (`ProcessAfterUpdate` of its constraints) and `SetLinks`:
    `old` = the values captured by `ProcessBeforeUpdate` (none: nothing captured), `cur` = what is stored,
    `nw` = what is stored afterwards -/
def reindex (cfg : Cfg) (isCreate : Bool) (j : Nat) (id : Id) (old cur : Option Vals) (nw : Vals)
    (idx : List Entry) : Except Err (List Entry) := do
  let c := getC cfg j
  let ou := bytesOf (old.bind (·.u))
  let nu := bytesOf nw.u
  let idx ←
    if c.uniq && (isCreate || ou != nu) then
      let i1 := if ou.isEmpty then idx else idx.filter (fun e => !(e.kind == .u && e.store == j && e.key == ou))
      if nu.isEmpty then pure i1
      else if i1.any (fun e => e.kind == .u && e.store == j && e.key == nu) then throw Err.dup
      else pure (i1 ++ [⟨.u, j, nu, id⟩])
    else pure idx
  let os := (old.map (·.s)).getD []
  let idx :=
    if c.set && os != nw.s then
      let i1 := idx.filter (fun e => !(e.kind == .s && e.store == j && e.id == id && os.contains e.key))
      nw.s.foldl (fun acc x => addE ⟨.s, j, x, id⟩ acc) i1
    else idx
  let of' := bytesOf (old.bind (·.f))
  let nf := bytesOf nw.f
  let idx :=
    if c.fk && (isCreate || of' != nf) then
      let i1 := if of'.isEmpty then idx else idx.filter (fun e => !(e == ⟨.f, j, of', id⟩))
      if nf.isEmpty then i1 else addE ⟨.f, j, nf, id⟩ i1
    else idx
  let cl := (cur.map (·.l)).getD []
  let idx :=
    if c.link then
      let i1 := idx.filter (fun e => !(e.kind == .l && e.store == j && e.id == id && cl.contains e.key && !nw.l.contains e.key))
      nw.l.foldl (fun acc o => if cl.contains o then acc else addE ⟨.l, j, o, id⟩ acc) i1
    else idx
  pure idx

/-- field checker: which fields of which store proceed -/
abbrev Chk := Nat → Kind → Bool

def merge (c : StoreCfg) (j : Nat) (chk : Chk) (cur : Option Vals) (nw : Vals) : Vals :=
  let cv := cur.getD {}
  { u := if chk j .u then nw.u else cv.u
    s := if chk j .s then setOf nw.s else cv.s
    l := if c.link then (if chk j .l then setOf nw.l else cv.l) else []
    f := if chk j .f then nw.f else cv.f }

def setData (s : DState) (j : Nat) (id : Id) (v : Vals) : DState :=
  { s with data := s.data.filter (fun d => !(d.1 == j && d.2.1 == id)) ++ [(j, id, v)] }

def writeLevels (cfg : Cfg) (isCreate : Bool) (id : Id) (captured : Nat → Bool) (chk : Chk) (vs : Nat → Vals) :
    List Nat → DState → Except Err DState
  | [], s => .ok s
  | j :: rest, s => do
    let cur := lookupData s j id
    let old := if captured j then cur else none
    let nw := merge (getC cfg j) j chk cur (vs j)
    let idx ← reindex cfg isCreate j id old cur nw s.idx
    writeLevels cfg isCreate id captured chk vs rest (setData { s with idx := idx } j id nw)

/-- `Create` through store `k`: only `k`'s own data is checked for existence; the old values of the
    ancestors are captured iff the IMMEDIATE parent has data (fix 8269ce9) -/
def createThrough (cfg : Cfg) (s : DState) (k : Nat) (id : Id) (vs : Nat → Vals) : Except Err DState :=
  if hasData s k id then .error .exists
  else
    let parentExists := match (getC cfg k).parent with
      | some p => hasData s p id
      | none => false
    writeLevels cfg true id (fun j => j != k && parentExists) (fun _ _ => true) vs (chain cfg k) s

/-- `Update` through store `k` -/
def updateThrough (cfg : Cfg) (s : DState) (k : Nat) (id : Id) (vs : Nat → Vals) (chk : Chk) : Except Err DState :=
  if !found cfg s k id || !hasData s k id then .error .notFound
  else writeLevels cfg false id (fun _ => true) chk vs (chain cfg k) s

inductive Op
  | create (k : Nat) (id : Id) (vs : List Vals)
  | update (k : Nat) (id : Id) (vs : List Vals) (chk : Option (List Nat))
  | delete (k : Nat) (id : Id)
  deriving Repr

def opStep (cfg : Cfg) (s : DState) : Op → Except Err DState
  | .create k id vs => createThrough cfg s k id (fun j => vs.getD j {})
  | .update k id vs chk =>
    let kindNo : Kind → Nat
      | .u => 0 | .s => 1 | .l => 2 | .f => 3
    updateThrough cfg s k id (fun j => vs.getD j {})
      (match chk with
       | none => fun _ _ => true
       | some l => fun j kd => l.contains (4 * j + kindNo kd))
  | .delete k id => deleteById cfg s k id

def applyOps (cfg : Cfg) : DState → List Op → Nat → Except (Nat × Err) DState
  | s, [], _ => .ok s
  | s, op :: rest, i =>
    match opStep cfg s op with
    | .ok s' => applyOps cfg s' rest (i + 1)
    | .error e => .error (i, e)

/-- a transaction: all of its operations or none -/
def txStep (cfg : Cfg) (s : DState) (ops : List Op) : DState × Option (Nat × Err) :=
  match applyOps cfg s ops 0 with
  | .ok s' => (s', none)
  | .error e => (s, some e)

-- --------------------------------------------------------------------------------------- dump (reduced)

def bNodes : Bytes := [110, 111, 100, 101, 115]
def bOwnersD : Bytes := [111, 119, 110, 101, 114, 115]

def fieldName (c : UInt8) (tag : UInt8) : Bytes := [c, tag]

/-- the key/value lines of the database and the entity / data bucket lines (the harness drops the other
    bucket lines: they never contain an entity id that these lines do not contain) -/
def Render (cfg : Cfg) (s : DState) : List Line :=
  s.data.flatMap (fun d =>
    let c := getC cfg d.1
    let p := [bU, bNodes, d.2.1] ++ c.path
    let v := d.2.2
    [Line.bucket p, Line.kv p (fieldName 117 c.tag) (C06.optField v.u), Line.kv p (fieldName 102 c.tag) (C06.optField v.f)] ++
    v.s.map (fun x => Line.kv (p ++ [fieldName 115 c.tag]) (typed x) []) ++
    v.l.map (fun o => Line.kv (p ++ [fieldName 108 c.tag]) (typed o) [])) ++
  s.idx.map (fun e =>
    let t := (getC cfg e.store).tag
    match e.kind with
    | .u => Line.kv [bU, bIndexes, bNodes, fieldName 117 t] e.key e.id
    | .s => Line.kv [bU, bIndexes, bNodes, fieldName 115 t, e.key] (typed e.id) []
    | .l => Line.kv [bU, bOwnersD, e.key, fieldName 109 t] (typed e.id) []
    | .f => Line.kv [bU, bOwnersD, e.key, fieldName 114 t] (typed e.id) [])

-- ------------------------------------------------------------------------------------------ predicates

/-- every entry is there because of a stored value of its id in its declaring store -/
def justified (cfg : Cfg) (s : DState) (e : Entry) : Bool :=
  (getC cfg e.store).declares e.kind &&
    match lookupData s e.store e.id with
    | some v => holds v e.kind e.key
    | none => false

def Sound (cfg : Cfg) (s : DState) : Prop := ∀ e ∈ s.idx, justified cfg s e = true

instance (cfg : Cfg) (s : DState) : Decidable (Sound cfg s) := by unfold Sound; exact inferInstance

/-- no data bucket of any store and no index / link / back-reference entry belongs to the id -/
def NoTrace (s : DState) (id : Id) : Prop := (∀ d ∈ s.data, d.2.1 ≠ id) ∧ (∀ e ∈ s.idx, e.id ≠ id)

instance (s : DState) (id : Id) : Decidable (NoTrace s id) := by unfold NoTrace; exact inferInstance

/-- every store that declares an index / link collection / fk index is the root (store 0) or registered
    with the root: the root's fan-out reaches it -/
def AllDeclaringStoresReachable (cfg : Cfg) : Prop :=
  ∀ j, (getC cfg j).declaresAny = true → j = 0 ∨ 0 ∈ (getC cfg j).regWith

def reachableB (cfg : Cfg) : Bool :=
  (List.range cfg.length).all (fun j => !(getC cfg j).declaresAny || j == 0 || (getC cfg j).regWith.contains 0)

/-- everything of the id removed from the state -/
def purge (s : DState) (id : Id) : DState :=
  { data := s.data.filter (fun d => d.2.1 != id), idx := s.idx.filter (fun e => e.id != id) }

-- --------------------------------------------------------------------------------------------- lemmas

theorem getC_declares_lt {cfg : Cfg} {j : Nat} {k : Kind} (h : (getC cfg j).declares k = true) : j < cfg.length := by
  rcases Nat.lt_or_ge j cfg.length with hl | hl
  · exact hl
  · have : getC cfg j = {} := by unfold getC; simp [List.getD, List.getElem?_eq_none hl]
    rw [this] at h; cases k <;> simp [StoreCfg.declares] at h

theorem declaresAny_of {c : StoreCfg} {k : Kind} (h : c.declares k = true) : c.declaresAny = true := by
  cases k <;> simp [StoreCfg.declares] at h <;> simp [StoreCfg.declaresAny, h]

theorem removeFor_data (cfg : Cfg) (ks : List Kind) (id : Id) (s : DState) (j : Nat) :
    (removeFor cfg ks id s j).data = s.data := by
  unfold removeFor; split <;> rfl

theorem removeFor_mono {cfg : Cfg} {ks : List Kind} {id : Id} {s : DState} {j : Nat} {e : Entry}
    (h : e ∈ (removeFor cfg ks id s j).idx) : e ∈ s.idx := by
  unfold removeFor at h; split at h
  · exact h
  · exact (List.mem_filter.mp h).1

theorem runAct_data (cfg : Cfg) (id : Id) (s : DState) (a : Act) : (runAct cfg id s a).data = s.data := by
  cases a <;> exact removeFor_data ..

theorem runAct_mono {cfg : Cfg} {id : Id} {s : DState} {a : Act} {e : Entry}
    (h : e ∈ (runAct cfg id s a).idx) : e ∈ s.idx := by
  cases a <;> exact removeFor_mono h

theorem foldl_data (cfg : Cfg) (id : Id) (l : List Act) (s : DState) :
    (l.foldl (runAct cfg id) s).data = s.data := by
  induction l generalizing s with
  | nil => rfl
  | cons a t ih => simp only [List.foldl_cons]; rw [ih, runAct_data]

theorem foldl_mono {cfg : Cfg} {id : Id} {e : Entry} (l : List Act) (s : DState)
    (h : e ∈ (l.foldl (runAct cfg id) s).idx) : e ∈ s.idx := by
  induction l generalizing s with
  | nil => exact h
  | cons a t ih => simp only [List.foldl_cons] at h; exact runAct_mono (ih _ h)

theorem lookupData_congr {s t : DState} (h : s.data = t.data) (j : Nat) (id : Id) :
    lookupData s j id = lookupData t j id := by unfold lookupData; rw [h]

/-- an action that kills the entry in every state with the same data: the entry is gone after the plan -/
theorem foldl_kills {cfg : Cfg} {id : Id} {e : Entry} {s0 : DState} (a : Act)
    (hk : ∀ s, s.data = s0.data → e ∉ (runAct cfg id s a).idx) :
    ∀ (l : List Act) (s : DState), s.data = s0.data → a ∈ l → e ∉ (l.foldl (runAct cfg id) s).idx := by
  intro l
  induction l with
  | nil => intro s _ ha; cases ha
  | cons b t ih =>
    intro s hs ha
    simp only [List.foldl_cons]
    rcases List.mem_cons.mp ha with rfl | ha'
    · intro hin; exact hk s hs (foldl_mono t _ hin)
    · exact ih _ (by rw [runAct_data]; exact hs) ha'

theorem mem_chain_self (cfg : Cfg) (k : Nat) : k ∈ chain cfg k := by
  unfold chain
  cases cfg.length with
  | zero => simp [chainAux]
  | succ n => unfold chainAux; split <;> simp

theorem kill_entry {cfg : Cfg} {s : DState} {e : Entry} {v : Vals} {ks : List Kind}
    (hl : lookupData s e.store e.id = some v) (hd : (getC cfg e.store).declares e.kind = true)
    (hh : holds v e.kind e.key = true) (hk : ks.contains e.kind = true) :
    e ∉ (removeFor cfg ks e.id s e.store).idx := by
  unfold removeFor; rw [hl]
  intro hin
  have := (List.mem_filter.mp hin).2
  have hk' : e.kind ∈ ks := by simpa using hk
  simp [kills, hd, hh] at this
  exact this hk'

/-- **No trace after a committed delete, any depth**, for every configuration in which every declaring store
    is reachable from the root's fan-out.  `Sound` is the direction of the index invariant that matters here
    (entries only for stored values); `rootOf cfg k = 0`: the chain of the store the delete goes through ends
    in the root. -/
theorem delete_no_trace_reachable {cfg : Cfg} {s s' : DState} {k : Nat} {id : Id}
    (hr : AllDeclaringStoresReachable cfg) (h0 : rootOf cfg k = 0) (hs : Sound cfg s)
    (hd : deleteById cfg s k id = .ok s') : NoTrace s' id := by
  unfold deleteById at hd
  simp only [h0] at hd
  split at hd
  · cases hd
    refine ⟨?_, ?_⟩
    · intro d hd'; simp only [dropData] at hd'
      have := (List.mem_filter.mp hd').2
      simpa using this
    · intro e he heq
      simp only [dropData] at he
      have he0 : e ∈ s.idx := foldl_mono _ _ he
      have hj := hs e he0
      unfold justified at hj
      rw [Bool.and_eq_true] at hj
      obtain ⟨hdecl, hv⟩ := hj
      split at hv
      · rename_i v hl
        have hlt := getC_declares_lt hdecl
        have hvis : e.store ∈ visited cfg s 0 id := by
          unfold visited
          rcases hr e.store (declaresAny_of hdecl) with h | h
          · simp [h]
          · apply List.mem_append_left
            refine List.mem_filter.mpr ⟨List.mem_range.mpr hlt, ?_⟩
            have hf : found cfg s e.store id = true := by
              unfold found hasData; rw [← heq, hl]; simp
            simp [h, hf]
        -- the action that removes the entry
        let a : Act := if e.kind = .l then .clean e.store else .strip e.store
        have ha : a ∈ plan cfg s 0 id := by
          unfold plan
          refine List.mem_flatMap.mpr ⟨e.store, hvis, ?_⟩
          unfold actsOf
          by_cases hkind : e.kind = .l
          · simp [a, hkind]
          · simp only [a, hkind, if_false]
            exact List.mem_append_left _ (List.mem_map.mpr ⟨e.store, mem_chain_self cfg e.store, rfl⟩)
        have hkill : ∀ t : DState, t.data = s.data → e ∉ (runAct cfg id t a).idx := by
          intro t ht
          have hl' : lookupData t e.store e.id = some v := by rw [lookupData_congr ht]; exact hl
          by_cases hkind : e.kind = .l
          · simp only [a, hkind, if_true, runAct]
            rw [← heq]
            exact kill_entry hl' hdecl hv (by simp [hkind])
          · simp only [a, hkind, if_false, runAct]
            rw [← heq]
            refine kill_entry hl' hdecl hv ?_
            cases hk : e.kind <;> simp_all
        exact foldl_kills a hkill _ s rfl ha he
      · cases hv
  · cases hd

theorem lookup_dropData {s : DState} {id i : Id} (j : Nat) (h : i ≠ id) :
    lookupData (dropData s id) j i = lookupData s j i := by
  unfold lookupData dropData
  simp only
  congr 1
  induction s.data with
  | nil => rfl
  | cons d t ih =>
    simp only [List.filter_cons]
    by_cases h1 : d.2.1 = id
    · have h3 : (id == i) = false := by simp; exact fun h' => h h'.symm
      simp [h1, List.find?_cons, h3, ih]
    · simp [h1, List.find?_cons, ih]

theorem sound_after_delete {cfg : Cfg} {s s' : DState} {k : Nat} {id : Id}
    (hr : AllDeclaringStoresReachable cfg) (h0 : rootOf cfg k = 0) (hs : Sound cfg s)
    (hd : deleteById cfg s k id = .ok s') : Sound cfg s' := by
  have hnt := delete_no_trace_reachable hr h0 hs hd
  unfold deleteById at hd
  simp only [h0] at hd
  split at hd
  · cases hd
    intro e he
    have hne : e.id ≠ id := hnt.2 e he
    simp only [dropData] at he
    have he0 : e ∈ s.idx := foldl_mono _ _ he
    have hj := hs e he0
    unfold justified at hj ⊢
    rw [Bool.and_eq_true] at hj ⊢
    refine ⟨hj.1, ?_⟩
    rw [lookup_dropData _ hne, lookupData_congr (foldl_data cfg id _ s)]; exact hj.2
  · cases hd

theorem purge_of_noTrace {s : DState} {id : Id} (h : NoTrace s id) : purge s id = s := by
  cases s with
  | mk data idx =>
    unfold purge
    simp only [DState.mk.injEq]
    constructor
    · apply List.filter_eq_self.mpr; intro d hd; simpa using h.1 d hd
    · apply List.filter_eq_self.mpr; intro e he; simpa using h.2 e he

theorem reachable_of_B {cfg : Cfg} (h : reachableB cfg = true) : AllDeclaringStoresReachable cfg := by
  intro j hj
  have hlt : j < cfg.length := by
    rcases Nat.lt_or_ge j cfg.length with hl | hl
    · exact hl
    · have : getC cfg j = {} := by unfold getC; simp [List.getD, List.getElem?_eq_none hl]
      rw [this] at hj; simp [StoreCfg.declaresAny] at hj
  have := List.all_eq_true.mp h j (List.mem_range.mpr hlt)
  simpa [hj] using this

def okB : Except Err DState → Bool
  | .ok _ => true
  | .error _ => false

end StorageModel.C06.Depth
